(** Lemmas about Model/Shutdown.v and the reflection lemmas of Spec/C16.v. *)
From Coq Require Import Lia ZifyBool Sorting.Sorted.
From Verif.Base Require Import Prelude.
From Verif.Gen Require Import ShutdownGen.
From Verif.Model Require Import Await Shutdown.
From Verif.Spec Require Import C01 C16.
From Verif.Proofs Require Import Await AwaitSpec AwaitReadable.
Open Scope Z_scope.

(* ------------------------------------------------------------------ *)
(** * Reflection: the extracted checkers decide the Spec predicates    *)
(* ------------------------------------------------------------------ *)
Lemma mem_Z_In : forall x l, mem_Z x l = true <-> In x l.
Proof.
  induction l as [|y l IH]; cbn.
  - split; [discriminate | tauto].
  - rewrite orb_true_iff, IH, Z.eqb_eq. split; intros [H|H]; auto.
Qed.

Lemma pstate_gone_spec : forall s, pstate_gone s = true <-> s = Gone.
Proof. destruct s; cbn; split; congruence. Qed.

Lemma exit_ok_spec : forall o, exit_ok o = true <-> Spec_exit o.
Proof.
  intro o. unfold exit_ok, Spec_exit.
  rewrite !andb_true_iff, forallb_forall, !Z.leb_le.
  split.
  - intros [[H1 H2] H3]. repeat split; auto. intros s Hs. now apply pstate_gone_spec, H2.
  - intros (H1 & H2 & H3). repeat split; auto. intros s Hs. now apply pstate_gone_spec, H2.
Qed.

Lemma exit_clauses : forall o,
  exit_ok o = negb (exit_late o) && negb (exit_child_left o) && negb (exit_fd_left o).
Proof. intro o. unfold exit_ok, exit_late, exit_child_left, exit_fd_left. now rewrite !negb_involutive. Qed.

Lemma pending_ok_spec : forall written o, pending_ok written o = true <-> Spec_pending written o.
Proof.
  intros written [tok| |]; cbn; [apply mem_Z_In | tauto | tauto].
Qed.

Lemma enter_ok_spec : forall startable entered, enter_ok startable entered = true <-> Spec_enter startable entered.
Proof. intros [|] [|]; unfold enter_ok, Spec_enter; cbn; split; auto; try discriminate. intro H. now specialize (H eq_refl). Qed.

(* ------------------------------------------------------------------ *)
(** * The termination protocol                                          *)
(* ------------------------------------------------------------------ *)
Lemma graces_nonneg : 0 <= term_grace_ticks /\ 0 <= kill_grace_ticks.
Proof. unfold term_grace_ticks, kill_grace_ticks. lia. Qed.

(** the regenerated grace periods do not exceed the pinned one-second periods *)
Lemma graces_within_pinned : term_grace_ticks <= grace1 /\ kill_grace_ticks <= grace2.
Proof. unfold term_grace_ticks, kill_grace_ticks, grace1, grace2. lia. Qed.

(* keep the regenerated constants symbolic below (injection/cbn would unfold them) *)
Local Opaque term_grace_ticks kill_grace_ticks.

Lemma wait_within_facts : forall g e ok t,
  0 <= g -> wait_within g e = (ok, t) ->
  0 <= t <= g /\ (ok = false -> t = g) /\
  (ok = true -> exists d, e = Some d /\ d < g /\ t = Z.max 0 d) /\
  (ok = false -> forall d, e = Some d -> g <= d).
Proof.
  intros g e ok t Hg H. unfold wait_within in H. destruct e as [d|].
  - destruct (d <? g) eqn:Hd; injection H as <- <-.
    + repeat split; try lia; try discriminate. intros _. exists d. repeat split; lia.
    + repeat split; try lia; try discriminate. intros _ d' Hd'. injection Hd' as <-. lia.
  - injection H as <- <-. repeat split; try lia; try discriminate.
Qed.

Lemma min_opt_some_r : forall a k, exists m, min_opt a (Some k) = Some m /\ m <= k.
Proof. intros [x|] k; cbn; eexists; split; try reflexivity; lia. Qed.

Lemma terminate_facts : forall c eof d s r,
  terminate_process c eof = (d, s, r) ->
  0 <= d <= term_grace_ticks + kill_grace_ticks /\
  (s = [SIGTERM] /\ r = true /\ d <= term_grace_ticks
   \/ s = [SIGTERM; SIGKILL] /\ term_grace_ticks <= d /\
      (forall x, min_opt eof (c_term_exit c) = Some x -> term_grace_ticks <= x)) /\
  (forall k, c_kill_exit c = Some k -> k < kill_grace_ticks -> r = true).
Proof.
  intros c eof d s r H. destruct graces_nonneg as [Hg1 Hg2].
  unfold terminate_process in H.
  destruct (wait_within term_grace_ticks (min_opt eof (c_term_exit c))) as [ok1 t1] eqn:H1.
  destruct (wait_within_facts _ _ _ _ Hg1 H1) as (B1 & F1 & _ & N1).
  destruct ok1.
  - injection H as <- <- <-. split; [lia|]. split; [|reflexivity].
    left. split; [reflexivity|]. split; [reflexivity|lia].
  - specialize (F1 eq_refl). subst t1.
    destruct (wait_within kill_grace_ticks
                (min_opt (shift (min_opt eof (c_term_exit c)) term_grace_ticks) (c_kill_exit c))) as [ok2 t2] eqn:H2.
    destruct (wait_within_facts _ _ _ _ Hg2 H2) as (B2 & F2 & _ & N2).
    injection H as <- <- <-. split; [lia|]. split.
    + right. split; [reflexivity|]. split; [lia|]. intros x Hx. now apply (N1 eq_refl).
    + intros k Hk Hlt. destruct ok2; [reflexivity|]. exfalso.
      rewrite Hk in N2.
      destruct (min_opt_some_r (shift (min_opt eof (c_term_exit c)) term_grace_ticks) k) as (m & Hm & Hle).
      specialize (N2 eq_refl m Hm). lia.
Qed.

Lemma exit_core_facts : forall v p c d s r,
  exit_core v p c = (d, s, r) ->
  0 <= d <= term_grace_ticks + kill_grace_ticks /\
  (s = [] /\ d = 0 \/ s = [SIGTERM] /\ r = true /\ d <= term_grace_ticks
   \/ s = [SIGTERM; SIGKILL] /\ term_grace_ticks <= d) /\
  (c_dead c = true -> s = [] /\ r = true) /\
  (forall k, runs_tail v p = true -> c_kill_exit c = Some k -> k < kill_grace_ticks -> r = true).
Proof.
  intros v p c d s r H. destruct graces_nonneg as [Hg1 Hg2].
  unfold exit_core in H. destruct (c_dead c) eqn:Hdead.
  - injection H as <- <- <-. split; [lia|]. split; [left; split; reflexivity|]. split; [auto|]. reflexivity.
  - destruct (runs_tail v p) eqn:Hrt.
    + destruct (terminate_facts _ _ _ _ _ H) as (B & S & K). split; [lia|]. split; [|split].
      * destruct S as [(-> & -> & ?) | (-> & ? & _)].
        -- right; left. split; [reflexivity|]. split; [reflexivity|lia].
        -- right; right. split; [reflexivity|lia].
      * discriminate.
      * intros k _ Hk Hlt. now apply (K k).
    + injection H as <- <- <-. split; [lia|]. split; [left; split; reflexivity|]. split; discriminate.
Qed.

(** ** C16_bounded *)
Lemma aexit_bounded : forall v p c,
  0 <= x_duration (aexit v p c) <= term_grace_ticks + kill_grace_ticks.
Proof.
  intros v p c. unfold aexit. destruct (exit_core v p c) as [[d s] r] eqn:H. cbn.
  now destruct (exit_core_facts _ _ _ _ _ _ H) as (B & _).
Qed.

Lemma aexit_bounded_pinned : forall v p c, 0 <= x_duration (aexit v p c) <= grace1 + grace2.
Proof.
  intros v p c. pose proof (aexit_bounded v p c). destruct graces_within_pinned. lia.
Qed.

(** ** signals: nothing / TERM / TERM then KILL, KILL only after the whole first grace period *)
Lemma aexit_signals : forall v p c,
  let r := aexit v p c in
  (x_signals r = [] \/ x_signals r = [SIGTERM] \/ x_signals r = [SIGTERM; SIGKILL]) /\
  (In SIGKILL (x_signals r) -> term_grace_ticks <= x_duration r) /\
  (x_signals r = [SIGTERM] -> x_reaped r = true /\ x_duration r <= term_grace_ticks) /\
  (c_dead c = true -> x_signals r = [] /\ x_duration r = 0).
Proof.
  intros v p c. unfold aexit. destruct (exit_core v p c) as [[d s] r] eqn:H. cbn.
  destruct (exit_core_facts _ _ _ _ _ _ H) as (B & S & Dd & _).
  split; [|split; [|split]].
  - destruct S as [(-> & _) | [(-> & _) | (-> & _)]]; auto.
  - intro Hin. destruct S as [(-> & _) | [(-> & _) | (-> & ?)]].
    + destruct Hin.
    + destruct Hin as [Hx | []]. discriminate.
    + assumption.
  - intro Hs. destruct S as [(-> & _) | [(_ & -> & ?) | (-> & _)]]; try discriminate. split; [reflexivity|assumption].
  - intro Hd. destruct (Dd Hd) as [-> _]. split; [reflexivity|].
    destruct S as [(_ & ->) | [(? & _) | (? & _)]]; try discriminate. reflexivity.
Qed.

(** a child that reacts to SIGTERM within the first grace period is never killed *)
Lemma cooperative_child_not_killed : forall v p c d,
  c_term_exit c = Some d -> d < term_grace_ticks ->
  ~ In SIGKILL (x_signals (aexit v p c)).
Proof.
  intros v p c d Ht Hd. unfold aexit. destruct (exit_core v p c) as [[du s] r] eqn:H. cbn.
  unfold exit_core in H. destruct (c_dead c).
  - injection H as <- <- <-. tauto.
  - destruct (runs_tail v p).
    + destruct (terminate_facts _ _ _ _ _ H) as (_ & S & _).
      destruct S as [(-> & _) | (-> & _ & N)].
      * intros [Hx | []]. discriminate.
      * exfalso. rewrite Ht in N.
        destruct (min_opt_some_r (if stdin_closed_by_writer p then c_eof_exit c else None) d) as (m & Hm & Hle).
        specialize (N m Hm). lia.
    + injection H as <- <- <-. tauto.
Qed.

(** ** C16_reaped *)
Lemma aexit_reaped : forall v p c k,
  shielded v = true ->
  c_kill_exit c = Some k -> k < kill_grace_ticks ->
  x_reaped (aexit v p c) = true.
Proof.
  intros v p c k Hv Hk Hlt. unfold aexit. destruct (exit_core v p c) as [[d s] r] eqn:H. cbn.
  destruct (exit_core_facts _ _ _ _ _ _ H) as (_ & _ & _ & K).
  apply (K k); auto. unfold runs_tail. rewrite Hv. apply orb_true_r.
Qed.

(** without the shield the same holds on every path that is not a scope cancellation *)
Lemma aexit_reaped_uncancelled : forall v p c k,
  level_cancelled p = false ->
  c_kill_exit c = Some k -> k < kill_grace_ticks ->
  x_reaped (aexit v p c) = true.
Proof.
  intros v p c k Hp Hk Hlt. unfold aexit. destruct (exit_core v p c) as [[d s] r] eqn:H. cbn.
  destruct (exit_core_facts _ _ _ _ _ _ H) as (_ & _ & _ & K).
  apply (K k); auto. unfold runs_tail. now rewrite Hp.
Qed.

(** ** no descriptor left *)
Lemma aexit_no_fd_left : forall p c,
  x_reaped (aexit VShieldClose p c) = true -> fds_left (aexit VShieldClose p c) = 0.
Proof.
  intros p c. unfold fds_left, aexit. destruct (exit_core VShieldClose p c) as [[d s] r] eqn:H. cbn.
  intros ->. assert (Hrt : runs_tail VShieldClose p = true) by (unfold runs_tail; cbn; apply orb_true_r).
  rewrite Hrt. destruct (stdin_closed_by_writer p); reflexivity.
Qed.

(** ** the model, observed, satisfies the specification *)
Definition obs_of (r : exit_result) (jitter : Z) : exit_obs :=
  {| eo_duration := x_duration r + jitter;
     eo_children := [if x_reaped r then Gone else Running];
     eo_extra_fds := fds_left r |}.

Lemma model_meets_spec : forall p c k jitter,
  c_kill_exit c = Some k -> k < kill_grace_ticks -> jitter <= slack ->
  Spec_exit (obs_of (aexit VShieldClose p c) jitter).
Proof.
  intros p c k j Hk Hlt Hj.
  pose proof (aexit_reaped VShieldClose p c k eq_refl Hk Hlt) as Hr.
  pose proof (aexit_no_fd_left p c Hr) as Hf.
  pose proof (aexit_bounded_pinned VShieldClose p c) as Hb.
  unfold Spec_exit, obs_of. cbn [eo_duration eo_children eo_extra_fds]. rewrite Hr, Hf.
  repeat split.
  - unfold bound. lia.
  - intros s [<- | []]. reflexivity.
  - lia.
Qed.

(* ------------------------------------------------------------------ *)
(** * Entering                                                          *)
(* ------------------------------------------------------------------ *)
Definition startable (s : spawn) : bool := match s with SpawnOk => true | _ => false end.
Definition entered (r : enter_result) : bool := match r with Entered => true | _ => false end.

Lemma spawn_failure_raises : forall e s,
  s <> SpawnOk -> exists what, enter e s = EnterRaised what 0 0.
Proof.
  intros e [| |m] H; [congruence | |]; cbn.
  - eexists; reflexivity.
  - destruct e, m; eexists; reflexivity.
Qed.

Lemma enter_meets_spec : forall e s, Spec_enter (startable s) (entered (enter e s)).
Proof.
  intros e s Hs. destruct s as [| |m]; cbn in *; try discriminate; auto.
  destruct e, m; reflexivity.
Qed.

Lemma enter_ok_iff_started : forall e s, entered (enter e s) = startable s.
Proof. intros e [| |m]; cbn; auto. destruct e, m; reflexivity. Qed.

(* ------------------------------------------------------------------ *)
(** * A request pending while the child dies                            *)
(* ------------------------------------------------------------------ *)
Lemma child_output_in : forall td script x,
  In x (child_output td script) <-> In x script /\ fst x <= td.
Proof. intros. unfold child_output. rewrite filter_In, Z.leb_le. tauto. Qed.

Lemma child_output_sorted : forall td script,
  StronglySorted le_time script -> StronglySorted le_time (child_output td script).
Proof.
  intros td script H. induction H as [|x l Hs IH Hf]; cbn; [constructor|].
  destruct (fst x <=? td).
  - constructor; [exact IH|]. rewrite Forall_forall in *. intros y Hy.
    apply Hf. now apply child_output_in in Hy.
  - exact IH.
Qed.

Definition pending_obs_of (o : outcome) : pending_obs :=
  match o with
  | Return tok => PReturn tok
  | RaiseErr _ _ => PError
  | Timeout => PTimeout
  | Cancelled => PError
  end.

(** the results the child wrote for request [me] *)
Definition written_results (me : rid) (l : list (Z * inmsg)) : list Z :=
  flat_map (fun x => match snd x with
                     | MRes i tok => if rid_eqb i me then [tok] else []
                     | _ => []
                     end) l.

Lemma written_results_in : forall me l a i tok,
  In (a, MRes i tok) l -> rid_eqb i me = true -> In tok (written_results me l).
Proof.
  intros me l a i tok Hin Hi. unfold written_results. apply in_flat_map.
  exists (a, MRes i tok). split; [exact Hin|]. cbn. rewrite Hi. now left.
Qed.

Section Pending.
  Variable poll : Z.
  Variable retryable : Z -> bool.
  Hypothesis poll_pos : 0 < poll.

  Theorem pending_explained : forall D me t0 td script r,
    t0 <= D -> StronglySorted le_time script ->
    In r (pending poll retryable D me t0 td script) ->
    match r_out r with
    | Return tok => exists a i, In (a, MRes i tok) script /\ a <= td /\ rid_eqb i me = true
    | RaiseErr _ code => exists a i, In (a, MErr i code) script /\ a <= td /\ rid_eqb i me = true
    | Timeout => r_end r = D
    | Cancelled => False
    end.
  Proof.
    intros D me t0 td script r Ht0 Hs Hin. unfold pending in Hin.
    pose proof (run_c01 poll retryable poll_pos t0 D me false (child_output td script) r Ht0
                  (child_output_sorted td script Hs) Hin) as Hok.
    unfold c01_ok in Hok.
    apply andb_prop in Hok as [Hok Hend]. apply andb_prop in Hok as [_ Hfa].
    assert (Hm : forall o, r_out r = o -> is_timeout o = false ->
                 exists a m, first_answer me (child_output td script) = Some (a, m) /\ out_matches m o = true).
    { intros o Ho Hnt. rewrite Ho in Hfa.
      destruct (first_answer me (child_output td script)) as [[a m]|]; [|congruence].
      exists a, m. split; [reflexivity|].
      destruct (Z.max t0 a <? D); [exact Hfa|].
      destruct (Z.max t0 a =? D); [|congruence].
      rewrite Hnt, orb_false_r in Hfa. exact Hfa. }
    destruct (r_out r) as [tok|b code| |] eqn:Ho.
    - destruct (Hm _ eq_refl eq_refl) as (a & m & Hf & Hmatch).
      destruct (first_answer_in _ _ _ _ Hf) as [Hin' Hans].
      apply child_output_in in Hin' as [Hin' Hle]. cbn in Hle.
      destruct m as [i tok'|i code'|i| |b' v|]; cbn in Hmatch; try discriminate.
      apply Z.eqb_eq in Hmatch. subst tok'. exists a, i. auto.
    - destruct (Hm _ eq_refl eq_refl) as (a & m & Hf & Hmatch).
      destruct (first_answer_in _ _ _ _ Hf) as [Hin' Hans].
      apply child_output_in in Hin' as [Hin' Hle]. cbn in Hle.
      destruct m as [i tok'|i code'|i| |b' v|]; cbn in Hmatch; try discriminate.
      apply Z.eqb_eq in Hmatch. subst code'. exists a, i. auto.
    - cbn in Hend. now apply Z.eqb_eq.
    - destruct (Hm _ eq_refl eq_refl) as (a & m & _ & Hmatch). destruct m; discriminate.
  Qed.

  (** C16_pending_request_never_fabricated *)
  Theorem pending_never_fabricated : forall D me t0 td script r,
    t0 <= D -> StronglySorted le_time script ->
    In r (pending poll retryable D me t0 td script) ->
    Spec_pending (written_results me (child_output td script)) (pending_obs_of (r_out r)).
  Proof.
    intros D me t0 td script r Ht0 Hs Hin.
    pose proof (pending_explained D me t0 td script r Ht0 Hs Hin) as H.
    destruct (r_out r) as [tok|b code| |]; cbn; auto.
    destruct H as (a & i & Hi & Hle & Heq).
    apply (written_results_in me _ a i tok); auto. apply child_output_in. split; auto.
  Qed.

  (** the child died before writing an answer: the request times out at its deadline *)
  Theorem pending_dead_child_times_out : forall D me t0 td script r,
    t0 <= D -> StronglySorted le_time script ->
    (forall a m, In (a, m) script -> is_answer me m = true -> td < a) ->
    In r (pending poll retryable D me t0 td script) ->
    r_out r = Timeout /\ r_end r = D.
  Proof.
    intros D me t0 td script r Ht0 Hs Hno Hin.
    pose proof (pending_explained D me t0 td script r Ht0 Hs Hin) as H.
    destruct (r_out r) as [tok|b code| |].
    - destruct H as (a & i & Hi & Hle & Heq). specialize (Hno a _ Hi Heq). lia.
    - destruct H as (a & i & Hi & Hle & Heq). specialize (Hno a _ Hi Heq). lia.
    - auto.
    - contradiction.
  Qed.
End Pending.

(** The hand-written classification [kind_of] of Model/Envelope.v (unified
    message class) IS the classification induced by the four predicates
    is_request / is_notification / is_response / is_error_response as they
    stand in the source (Gen/EnvelopeKindGen.v, regenerated on every run). *)
From Verif.Base Require Import Prelude Json Envelope.
From Verif.Model Require Import Envelope.
From Verif.Gen Require EnvelopeKindGen.

Definition present {A} (o : option A) : bool := match o with Some _ => true | None => false end.

(** What the library's own predicates say about a unified message, asked in the
    order request, notification, error response, response. *)
Definition kind_by_predicates (e : msg) : option kind :=
  let hm := present (m_method e) in
  let hi := present (m_id e) in
  let hr := negb (is_null (m_result e)) in
  let he := negb (is_null (m_error e)) in
  if EnvelopeKindGen.is_request hm hi hr he then Some KReq
  else if EnvelopeKindGen.is_notification hm hi hr he then Some KNotif
  else if EnvelopeKindGen.is_error_response hm hi hr he then Some KErr
  else if EnvelopeKindGen.is_response hm hi hr he then Some KRes
  else None.

Lemma kind_of_unified_is_generated : forall e,
  m_cls e = CUnified -> kind_of e = kind_by_predicates e.
Proof.
  intros e H. unfold kind_of, kind_by_predicates. rewrite H.
  unfold EnvelopeKindGen.is_request, EnvelopeKindGen.is_notification, EnvelopeKindGen.is_error_response,
    EnvelopeKindGen.is_response, present.
  destruct (m_method e), (m_id e), (is_null (m_error e)); reflexivity.
Qed.

(** The four predicates are mutually consistent: at most one kind, and the
    error response is a response. *)
Lemma predicates_exclusive : forall hm hi hr he,
  (EnvelopeKindGen.is_request hm hi hr he = true -> EnvelopeKindGen.is_notification hm hi hr he = false
                                                   /\ EnvelopeKindGen.is_response hm hi hr he = false)
  /\ (EnvelopeKindGen.is_notification hm hi hr he = true -> EnvelopeKindGen.is_response hm hi hr he = false)
  /\ (EnvelopeKindGen.is_error_response hm hi hr he = true -> EnvelopeKindGen.is_response hm hi hr he = true).
Proof. intros [] [] [] []; vm_compute; repeat split; intros; try discriminate; reflexivity. Qed.

(** Every message that carries an error and no method is an error response -
    whatever its id, null included (the point of the C02 fix). *)
Lemma error_without_method_is_error_response : forall hi hr,
  EnvelopeKindGen.is_error_response false hi hr true = true.
Proof. intros [] []; reflexivity. Qed.

Lemma source_predicates_consistent : forall hm hi hr he,
  EnvelopeKindGen.is_error_response false hi hr true = true
  /\ (EnvelopeKindGen.is_request hm hi hr he = true -> EnvelopeKindGen.is_notification hm hi hr he = false
                                                      /\ EnvelopeKindGen.is_response hm hi hr he = false)
  /\ (EnvelopeKindGen.is_notification hm hi hr he = true -> EnvelopeKindGen.is_response hm hi hr he = false)
  /\ (EnvelopeKindGen.is_error_response hm hi hr he = true -> EnvelopeKindGen.is_response hm hi hr he = true).
Proof.
  intros. split; [apply error_without_method_is_error_response | apply predicates_exclusive].
Qed.

(** Lemmas about one POST and about the sender loop of the Streamable HTTP
    transport model.  Everything is proved for ARBITRARY external components
    (JSON codec, message validator): they are Section variables. *)
From Coq Require Import Lia.
From Verif.Base Require Import Prelude HttpBase.
From Verif.Model Require Import HttpSse HttpDispatch.
From Verif.Spec Require Import C11.
From Verif.Proofs Require Import HttpSse.
Open Scope Z_scope.

Lemma str_eqb_refl : forall s, str_eqb s s = true.
Proof. induction s as [|a s IH]; simpl; auto. rewrite Z.eqb_refl. exact IH. Qed.

Lemma jid_eqb_refl : forall i, jid_eqb i i = true.
Proof. destruct i; simpl; [apply Z.eqb_refl | apply str_eqb_refl]. Qed.

Lemma geb_true : forall a b, a >= b -> (a >=? b) = true.
Proof. intros. rewrite Z.geb_leb. apply Z.leb_le. lia. Qed.

Lemma geb_false : forall a b, a < b -> (a >=? b) = false.
Proof. intros. rewrite Z.geb_leb. apply Z.leb_gt. lia. Qed.

Section Facts.
  Variable obj : Type.
  Variable obj_valid : obj -> bool.
  Variable obj_id : obj -> option jid.
  Variable obj_method : obj -> bool.
  Variable obj_payload : obj -> bool.
  Variable loads : str -> jres obj.

  Notation jvT := (jv obj).
  Notation out_t := (outmsg obj).
  Notation route_value' := (route_value obj obj_valid obj_method obj_payload).
  Notation handle := (handle_answer obj obj_valid obj_method obj_payload loads).
  Notation post' := (post obj obj_valid obj_id obj_method obj_payload loads).
  Notation run_loop' := (run_loop obj obj_valid obj_id obj_method obj_payload loads).
  Notation answers' := (answers obj obj_id obj_method).
  Notation answers_obj' := (answers_obj obj obj_id obj_method).
  Notation completion' := (completion obj obj_id obj_method).

  (** An object the transport delivers: it validates and is a JSON-RPC message. *)
  Definition deliverable (o : obj) : bool := obj_valid o && (obj_method o || obj_payload o).

  (** The messages a decoded text contains. *)
  Definition decoded (t : str) : list obj :=
    match loads t with
    | JOk v => filter deliverable (flatten obj v)
    | JBad => []
    end.

  (** The property's view of a message on the read stream (every synthesised message is terminal). *)
  Definition abstract (m : out_t) : omsg obj :=
    match m with
    | Server o => OServer o
    | Synth i _ => OSynth i true
    end.

  (* ---------------------------------------------------------------- *)
  (** ** Routing                                                        *)
  (* ---------------------------------------------------------------- *)

  Fixpoint jv_induction (P : jvT -> Prop)
      (Hobj : forall o, P (JObj o)) (Harr : forall l, Forall P l -> P (JArr l)) (Hsc : P JScalar)
      (v : jvT) : P v :=
    match v with
    | JObj o => Hobj o
    | JArr l => Harr l ((fix go (l : list jvT) : Forall P l :=
                           match l with
                           | [] => Forall_nil P
                           | x :: r => Forall_cons x (jv_induction P Hobj Harr Hsc x) (go r)
                           end) l)
    | JScalar => Hsc
    end.

  Lemma route_value_flat : forall v,
    route_value' v = map (@Server obj) (filter deliverable (flatten obj v)).
  Proof.
    apply jv_induction.
    - intros o. cbn [route_value flatten filter]. unfold route_obj, deliverable.
      destruct (obj_valid o && (obj_method o || obj_payload o)); reflexivity.
    - intros l H. cbn [route_value flatten]. induction H as [|x r Hx Hr IH].
      + reflexivity.
      + cbn [flat_map]. rewrite filter_app, map_app, <- Hx, <- IH. reflexivity.
    - reflexivity.
  Qed.

  Lemma process_sse_flat : forall body,
    process_sse obj obj_valid obj_method obj_payload loads body
    = map (@Server obj) (flat_map decoded (sse_messages body)).
  Proof.
    intros body. unfold process_sse. induction (sse_messages body) as [|p ps IH].
    - reflexivity.
    - cbn [flat_map]. rewrite map_app, <- IH. f_equal.
      unfold route_payload, decoded. destruct (loads p); [apply route_value_flat | reflexivity].
  Qed.

  (* ---------------------------------------------------------------- *)
  (** ** Shape of what one answer produces, before the completion check *)
  (* ---------------------------------------------------------------- *)

  Lemma handle_shape : forall st rq a,
    (exists srv, snd (handle st rq a) = map (@Server obj) srv)
    \/ (exists k, snd (handle st rq a) = [Synth (rq_id rq) k]).
  Proof.
    intros st rq a. unfold handle_answer, synth. destruct a as [status ctype body utf8 session | k].
    - destruct (status >=? 400); cbn [snd]; [right; eexists; reflexivity|].
      destruct (contains s_app_json ctype).
      { destruct utf8; [|right; eexists; reflexivity].
        destruct (loads body); [left; eexists; apply route_value_flat | right; eexists; reflexivity]. }
      destruct (contains s_event_stream ctype); [left; eexists; apply process_sse_flat|].
      destruct (is_nil body).
      { destruct (is_none (rq_id rq)); [left; exists []; reflexivity | right; eexists; reflexivity]. }
      destruct (starts_with s_event_colon body || starts_with s_data_colon body);
        [left; eexists; apply process_sse_flat|].
      destruct (loads body); [left; eexists; apply route_value_flat|].
      destruct ((status =? 202) && is_none (rq_id rq)); [left; exists []; reflexivity | right; eexists; reflexivity].
    - destruct k; cbn [snd]; right; eexists; reflexivity.
  Qed.

  Lemma servers_map_server : forall srv, servers obj (map abstract (map (@Server obj) srv)) = srv.
  Proof. induction srv as [|o srv IH]; [reflexivity|]. cbn [map servers flat_map abstract app]. unfold servers in IH. rewrite IH. reflexivity. Qed.

  Lemma synths_map_server : forall srv, synths obj (map abstract (map (@Server obj) srv)) = [].
  Proof. induction srv as [|o srv IH]; [reflexivity|]. cbn [map synths flat_map abstract app]. exact IH. Qed.

  Lemma existsb_answers_servers : forall r srv,
    existsb (answers' r) (map (@Server obj) srv) = existsb (answers_obj' r) srv.
  Proof. intros r. induction srv as [|o srv IH]; [reflexivity|]. cbn [map existsb answers]. rewrite IH. reflexivity. Qed.

  Lemma servers_app : forall a b, servers obj (a ++ b) = servers obj a ++ servers obj b.
  Proof. intros. unfold servers. apply flat_map_app. Qed.

  Lemma synths_app : forall a b, synths obj (a ++ b) = synths obj a ++ synths obj b.
  Proof. intros. unfold synths. apply flat_map_app. Qed.

  (* ---------------------------------------------------------------- *)
  (** ** Exactly one terminal message                                   *)
  (* ---------------------------------------------------------------- *)

  Theorem exactly_one_terminal : forall st rq a,
    (rq_id rq <> None -> rq_method rq = true) ->
    Spec_terminal obj answers_obj' (rq_id rq) (map abstract (snd (post' st rq a))).
  Proof.
    intros st rq a Hreq. unfold post.
    destruct (handle st rq a) as [st' out0] eqn:E. cbn [snd].
    pose proof (handle_shape st rq a) as Hs. rewrite E in Hs. cbn [snd] in Hs.
    unfold completion. destruct (rq_id rq) as [r|] eqn:Er.
    - rewrite (Hreq ltac:(discriminate)). cbn [andb].
      destruct Hs as [[srv ->] | [k ->]].
      + rewrite existsb_answers_servers. unfold Spec_terminal.
        destruct (existsb (answers_obj' r) srv) eqn:Ex; cbn [negb].
        * left. rewrite app_nil_r, servers_map_server, synths_map_server. auto.
        * right. rewrite map_app, servers_app, synths_app, servers_map_server, synths_map_server. cbn.
          rewrite app_nil_r. auto.
      + cbn [existsb answers]. rewrite jid_eqb_refl. cbn [orb negb app].
        unfold Spec_terminal. right. cbn. auto.
    - destruct Hs as [[srv ->] | [k ->]]; rewrite app_nil_r; unfold Spec_terminal.
      + rewrite synths_map_server. split; [cbn; lia | intros s []].
      + cbn. split; [lia | intros s [<- | []]; reflexivity].
  Qed.

  (** An error status: exactly one synthesised error carrying the request's id, nothing else, state untouched. *)
  Theorem error_status_one_synth : forall st rq status ctype body utf8 session,
    status >= 400 ->
    post' st rq (Resp status ctype body utf8 session) = (st, [Synth (rq_id rq) (SError (-32603))]).
  Proof.
    intros st rq status ctype body utf8 session H. unfold post, handle_answer, synth.
    assert (E : (status >=? 400) = true) by (apply geb_true; lia). rewrite E.
    unfold completion. destruct (rq_id rq) as [r|]; [|reflexivity].
    cbn [existsb answers]. rewrite jid_eqb_refl. cbn [orb negb]. rewrite andb_false_r. reflexivity.
  Qed.

  Definition exc_code (k : exc_kind) : Z := match k with ExAsyncioTimeout => -32000 | _ => -32603 end.

  Theorem exception_one_synth : forall st rq k,
    post' st rq (Exc k) = (st, [Synth (rq_id rq) (SError (exc_code k))]).
  Proof.
    intros st rq k. unfold post, handle_answer, synth, completion.
    destruct k; cbn [exc_code]; (destruct (rq_id rq) as [r|]; [|reflexivity]);
      cbn [existsb answers]; rewrite jid_eqb_refl; cbn [orb negb]; rewrite andb_false_r; reflexivity.
  Qed.

  (* ---------------------------------------------------------------- *)
  (** ** Nothing lost, nothing invented                                 *)
  (* ---------------------------------------------------------------- *)

  Lemma servers_completion : forall rq out, servers obj (map abstract (completion' rq out)) = [].
  Proof.
    intros rq out. unfold completion. destruct (rq_id rq); [|reflexivity].
    destruct (rq_method rq && negb (existsb _ out)); reflexivity.
  Qed.

  Lemma servers_post : forall st rq a,
    servers obj (map abstract (snd (post' st rq a))) = servers obj (map abstract (snd (handle st rq a))).
  Proof.
    intros. unfold post. destruct (handle st rq a) as [st' out0]. cbn [snd].
    rewrite map_app, servers_app, servers_completion, app_nil_r. reflexivity.
  Qed.

  (** A JSON body (labelled as JSON, or not labelled as an event stream and not looking like one). *)
  Definition served_as_json (ctype body : str) (utf8 : bool) : Prop :=
    (contains s_app_json ctype = true /\ utf8 = true)
    \/ (contains s_app_json ctype = false /\ contains s_event_stream ctype = false /\ body <> []
        /\ starts_with s_event_colon body = false /\ starts_with s_data_colon body = false).

  Theorem json_body_delivered : forall st rq status ctype body utf8 session v,
    status < 400 -> served_as_json ctype body utf8 -> loads body = JOk v ->
    servers obj (map abstract (snd (post' st rq (Resp status ctype body utf8 session))))
    = filter deliverable (flatten obj v).
  Proof.
    intros st rq status ctype body utf8 session v Hst Hserved Hl. rewrite servers_post.
    unfold handle_answer. assert (E : (status >=? 400) = false) by (apply geb_false; lia). rewrite E. cbn [snd].
    destruct Hserved as [[Hc ->] | (Hc & Hs & Hne & He & Hd)]; rewrite Hc.
    - rewrite Hl, route_value_flat. apply servers_map_server.
    - rewrite Hs. destruct body; [congruence|]. cbn [is_nil]. rewrite He, Hd. cbn [orb].
      rewrite Hl, route_value_flat. apply servers_map_server.
  Qed.

  (** An SSE body in ANY encoding of the specification's encoder, served as an event stream. *)
  Theorem sse_body_delivered : forall st rq status ctype utf8 session l,
    status < 400 -> contains s_app_json ctype = false -> contains s_event_stream ctype = true ->
    forallb event_ok l = true ->
    servers obj (map abstract (snd (post' st rq (Resp status ctype (sse_encode l) utf8 session))))
    = flat_map decoded (map snd l).
  Proof.
    intros st rq status ctype utf8 session l Hst Hj Hs Hok. rewrite servers_post.
    unfold handle_answer. assert (E : (status >=? 400) = false) by (apply geb_false; lia). rewrite E. cbn [snd].
    rewrite Hj, Hs, process_sse_flat, servers_map_server, sse_roundtrip by exact Hok. reflexivity.
  Qed.

  (* ---------------------------------------------------------------- *)
  (** ** The sender loop                                                *)
  (* ---------------------------------------------------------------- *)

  Lemma loop_step_eq : forall st tr ra,
    loop_step obj obj_valid obj_id obj_method obj_payload loads (st, tr) ra
    = (fst (post' st (fst ra) (snd ra)), tr ++ [(sent_session st, snd (post' st (fst ra) (snd ra)))]).
  Proof. intros. unfold loop_step. destruct (post' st (fst ra) (snd ra)); reflexivity. Qed.

  Lemma fold_loop : forall l st tr,
    fold_left (loop_step obj obj_valid obj_id obj_method obj_payload loads) l (st, tr)
    = (fst (run_loop' st l), tr ++ snd (run_loop' st l)).
  Proof.
    induction l as [|ra l IH]; intros st tr.
    - cbn. rewrite app_nil_r. reflexivity.
    - unfold run_loop. cbn [fold_left]. rewrite !loop_step_eq. rewrite !IH.
      cbn [fst snd app]. rewrite <- app_assoc. reflexivity.
  Qed.

  Lemma run_loop_cons : forall st ra l,
    run_loop' st (ra :: l)
    = (fst (run_loop' (fst (post' st (fst ra) (snd ra))) l),
       (sent_session st, snd (post' st (fst ra) (snd ra))) :: snd (run_loop' (fst (post' st (fst ra) (snd ra))) l)).
  Proof.
    intros st ra l. unfold run_loop at 1. cbn [fold_left]. rewrite loop_step_eq, fold_loop. reflexivity.
  Qed.

  Theorem loop_length : forall l st, length (snd (run_loop' st l)) = length l.
  Proof.
    induction l as [|ra l IH]; intros st; [reflexivity|].
    rewrite run_loop_cons. cbn [snd length]. rewrite IH. reflexivity.
  Qed.

  (** The n-th request is processed, whatever came before: its POST is issued
      with the header of the state reached after the first n answers, and it puts
      on the read stream exactly what [post] says in that state. *)
  Theorem loop_survives : forall n l st ra,
    nth_error l n = Some ra ->
    nth_error (snd (run_loop' st l)) n
    = Some (sent_session (fst (run_loop' st (firstn n l))),
            snd (post' (fst (run_loop' st (firstn n l))) (fst ra) (snd ra))).
  Proof.
    induction n as [|n IH]; intros l st ra H; destruct l as [|x l]; try discriminate.
    - cbn in H. injection H as ->. rewrite run_loop_cons. reflexivity.
    - cbn [nth_error] in H. rewrite run_loop_cons. cbn [snd nth_error firstn].
      rewrite (IH l _ ra H). rewrite run_loop_cons. cbn [fst]. reflexivity.
  Qed.

  (** What the server issued with one answer. *)
  Definition issued (ra : request * answer) : option str :=
    match snd ra with
    | Resp status _ _ _ session => issues status session
    | Exc _ => None
    end.

  Lemma post_state : forall st rq a,
    fst (post' st rq a) = match issued (rq, a) with Some s => Some s | None => st end.
  Proof.
    intros st rq a. unfold post. destruct (handle st rq a) as [st' out] eqn:E. cbn [fst].
    assert (E' : st' = fst (handle st rq a)) by (rewrite E; reflexivity). subst st'. clear E.
    unfold handle_answer, issued, issues. cbn [snd]. destruct a as [status ctype body utf8 session | k].
    - destruct (status >=? 400) eqn:G.
      + rewrite Z.geb_leb in G. apply Z.leb_le in G.
        assert ((status <? 400) = false) as -> by (apply Z.ltb_ge; lia). reflexivity.
      + rewrite Z.geb_leb in G. apply Z.leb_gt in G.
        assert ((status <? 400) = true) as -> by (apply Z.ltb_lt; lia).
        cbn [fst]. destruct session; reflexivity.
    - destruct k; reflexivity.
  Qed.

  Lemma most_recent_step : forall st i t,
    most_recent ((match i with Some s => Some s | None => st end) :: t) = most_recent (st :: i :: t).
  Proof. intros st i t. cbn [most_recent]. destruct (most_recent t); [reflexivity|]. destruct i; reflexivity. Qed.

  Theorem session_state : forall l st, fst (run_loop' st l) = most_recent (st :: map issued l).
  Proof.
    induction l as [|[rq a] l IH]; intros st.
    - reflexivity.
    - rewrite run_loop_cons. cbn [fst snd map]. rewrite IH, post_state. apply most_recent_step.
  Qed.

  Lemma most_recent_in : forall h s, most_recent h = Some s -> In (Some s) h.
  Proof.
    induction h as [|x h IH]; intros s H; [discriminate|]. cbn [most_recent] in H.
    destruct (most_recent h) as [s'|] eqn:E.
    - injection H as <-. right. apply IH. reflexivity.
    - left. exact H.
  Qed.

  Lemma sent_most_recent : forall h,
    (forall x, In x h -> x <> Some []) -> sent_session (most_recent h) = most_recent h.
  Proof.
    intros h Hh. destruct (most_recent h) as [s|] eqn:E; [|reflexivity].
    destruct s as [|c s]; [|reflexivity]. exfalso.
    apply most_recent_in in E. apply (Hh _ E). reflexivity.
  Qed.

  Lemma in_firstn : forall (A : Type) n (l : list A) x, In x (firstn n l) -> In x l.
  Proof.
    intros A. induction n as [|n IH]; intros l x H; destruct l as [|y l]; cbn in H; try contradiction.
    destruct H as [-> | H]; [left; reflexivity | right; apply IH; exact H].
  Qed.

  (** The header sent with request n is the most recent id issued before it. *)
  Theorem session_latest : forall n l init ra,
    nth_error l n = Some ra ->
    init <> Some [] -> (forall x, In x l -> issued x <> Some []) ->
    exists out, nth_error (snd (run_loop' init l)) n = Some (demanded_header init (map issued (firstn n l)), out).
  Proof.
    intros n l init ra H Hi Hl. rewrite (loop_survives n l init ra H).
    exists (snd (post' (fst (run_loop' init (firstn n l))) (fst ra) (snd ra))).
    rewrite session_state. unfold demanded_header. rewrite sent_most_recent; [reflexivity|].
    intros x [<- | Hx]; [exact Hi|].
    apply in_map_iff in Hx as (y & <- & Hy). apply Hl. eapply in_firstn. exact Hy.
  Qed.
End Facts.

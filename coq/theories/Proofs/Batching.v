(** Lemmas about Model/Batching.v.  [decide] comes from Gen/BatchingGen.v, i.e.
    from the current source: these proofs are re-checked against what the code
    says on every run. *)
From Coq Require Import Lia ZifyBool.
From Verif.Base Require Import Prelude.
From Verif.Gen Require Import BatchingGen.
From Verif.Model Require Import Batching.
From Verif.Spec Require Import C13.
Open Scope Z_scope.

(** * The decision core against the pinned cutoff *)

Definition before_cutoff (y m d : Z) : Prop :=
  y < 2025 \/ (y = 2025 /\ (m < 6 \/ (m = 6 /\ d < 18))).

Lemma decide_is_before_cutoff : forall y m d : Z,
  decide y m d = true <-> before_cutoff y m d.
Proof.
  intros y m d. unfold decide, before_cutoff.
  repeat match goal with
         | |- context [if ?b then _ else _] => destruct b eqn:?
         end; lia.
Qed.

Lemma decide_monotone : forall y m d y' m' d' : Z,
  (y' < y \/ (y' = y /\ (m' < m \/ (m' = m /\ d' <= d)))) ->
  decide y m d = true -> decide y' m' d' = true.
Proof.
  intros y m d y' m' d' Hle H.
  apply decide_is_before_cutoff in H. apply decide_is_before_cutoff.
  unfold before_cutoff in *. lia.
Qed.

(** * Well-formed strings *)

Definition digit (c : Z) : Prop := 48 <= c <= 57.

Definition fmt (a b c d e f g h : Z) : str := [a; b; c; d; 45; e; f; 45; g; h].

Lemma digit_tests : forall c, digit c ->
  is_digit c = true /\ is_int_space c = false /\ (c =? 45) = false /\
  (c =? 43) = false /\ (c =? 95) = false.
Proof. unfold digit, is_digit, is_int_space. intros. lia. Qed.

Ltac digit_facts :=
  repeat match goal with
         | H : digit ?c |- _ =>
             let H1 := fresh in
             pose proof (digit_tests c H) as H1;
             destruct H1 as (? & ? & ? & ? & ?); clear H
         end.

Ltac rw_tests :=
  repeat match goal with
         | H : _ = true |- _ => rewrite H
         | H : _ = false |- _ => rewrite H
         end.

Lemma py_int_2 : forall a b, digit a -> digit b ->
  py_int [a; b] = Some (10 * (a - 48) + (b - 48)).
Proof.
  intros a b Ha Hb. digit_facts.
  unfold py_int, strip. cbn [strip_left rev app].
  rw_tests. cbn [strip_left rev app]. rw_tests. cbn [rev app].
  rw_tests. cbn [parse_digits]. rw_tests. cbn [parse_digits]. rw_tests.
  unfold digit_val. f_equal. lia.
Qed.

Lemma py_int_4 : forall a b c d, digit a -> digit b -> digit c -> digit d ->
  py_int [a; b; c; d] = Some (1000 * (a - 48) + 100 * (b - 48) + 10 * (c - 48) + (d - 48)).
Proof.
  intros a b c d Ha Hb Hc Hd. digit_facts.
  unfold py_int, strip. cbn [strip_left rev app].
  rw_tests. cbn [strip_left rev app]. rw_tests. cbn [rev app].
  rw_tests. cbn [parse_digits]. rw_tests. cbn [parse_digits]. rw_tests.
  cbn [parse_digits]. rw_tests. cbn [parse_digits]. rw_tests.
  unfold digit_val. f_equal. lia.
Qed.

Lemma split_fmt : forall a b c d e f g h,
  digit a -> digit b -> digit c -> digit d -> digit e -> digit f -> digit g -> digit h ->
  split_on 45 (fmt a b c d e f g h) = [[a; b; c; d]; [e; f]; [g; h]].
Proof.
  intros. digit_facts. unfold fmt. cbn [split_on]. rw_tests.
  replace (45 =? 45) with true by reflexivity. reflexivity.
Qed.

Lemma supports_batching_fmt : forall a b c d e f g h,
  digit a -> digit b -> digit c -> digit d -> digit e -> digit f -> digit g -> digit h ->
  supports_batching (Some (fmt a b c d e f g h)) =
  decide (1000 * (a - 48) + 100 * (b - 48) + 10 * (c - 48) + (d - 48))
         (10 * (e - 48) + (f - 48)) (10 * (g - 48) + (h - 48)).
Proof.
  intros. unfold supports_batching.
  rewrite split_fmt by assumption.
  rewrite py_int_4, !py_int_2 by assumption.
  reflexivity.
Qed.

Lemma well_formed_fmt : forall s, well_formed s = true ->
  exists a b c d e f g h,
    s = fmt a b c d e f g h /\ digit a /\ digit b /\ digit c /\ digit d /\
    digit e /\ digit f /\ digit g /\ digit h.
Proof.
  intros s H. unfold well_formed in H.
  do 10 (destruct s as [|? s]; [discriminate|]).
  destruct s; [|discriminate].
  repeat match goal with
         | H : _ && _ = true |- _ => apply andb_prop in H; destruct H
         end.
  repeat match goal with
         | H : (_ =? 45) = true |- _ => apply Z.eqb_eq in H; subst
         end.
  unfold is_digit in *. unfold fmt, digit.
  do 8 eexists. split; [reflexivity|]. repeat split; lia.
Qed.

Lemma fmt_well_formed : forall a b c d e f g h,
  digit a -> digit b -> digit c -> digit d -> digit e -> digit f -> digit g -> digit h ->
  well_formed (fmt a b c d e f g h) = true.
Proof.
  intros. digit_facts. unfold fmt, well_formed. rw_tests. reflexivity.
Qed.

(** Lexicographic order on fixed-width ASCII digit strings is numeric order:
    the model's decision on a well-formed string is string order against the
    pinned cutoff. *)
Lemma supports_batching_is_string_order : forall a b c d e f g h,
  digit a -> digit b -> digit c -> digit d -> digit e -> digit f -> digit g -> digit h ->
  supports_batching (Some (fmt a b c d e f g h)) = str_ltb (fmt a b c d e f g h) cutoff_str.
Proof.
  intros a b c d e f g h Ha Hb Hc Hd He Hf Hg Hh.
  rewrite supports_batching_fmt by assumption.
  match goal with |- ?x = ?y => destruct x eqn:Hdec end.
  - apply decide_is_before_cutoff in Hdec. unfold before_cutoff, digit in *.
    unfold str_ltb, fmt, cutoff_str. cbn [str_compare].
    repeat match goal with
           | |- context [?x ?= ?y] => destruct (Z.compare_spec x y); try lia
           end; reflexivity.
  - assert (Hn : ~ before_cutoff
                   (1000 * (a - 48) + 100 * (b - 48) + 10 * (c - 48) + (d - 48))
                   (10 * (e - 48) + (f - 48)) (10 * (g - 48) + (h - 48))).
    { intro Hb'. apply decide_is_before_cutoff in Hb'. congruence. }
    unfold before_cutoff, digit in *.
    unfold str_ltb, fmt, cutoff_str. cbn [str_compare].
    repeat match goal with
           | |- context [?x ?= ?y] => destruct (Z.compare_spec x y); try lia
           end; reflexivity.
Qed.

Lemma supports_batching_demanded : forall v b,
  demanded v = Some b -> supports_batching v = b.
Proof.
  intros [s|] b H; unfold demanded in H.
  - destruct (well_formed s) eqn:Hwf; [|discriminate].
    injection H as <-.
    destruct (well_formed_fmt s Hwf) as (a & b' & c & d & e & f & g & h & -> & ?).
    intuition. now apply supports_batching_is_string_order.
  - now injection H as <-.
Qed.

(** Agreement with the library's own ordering (ProtocolVersion.compare). *)
Lemma validate_format_fmt : forall s, well_formed s = true -> validate_format s = true.
Proof.
  intros s H. unfold validate_format.
  replace (fmt_core s) with (well_formed s) by reflexivity. now rewrite H.
Qed.

Lemma str_compare_refl_eqb : forall a b, str_eqb a b = true -> str_compare a b = Eq.
Proof.
  induction a as [|x a IH]; destruct b as [|y b]; cbn; try discriminate; auto.
  intros H. apply andb_prop in H as [H1 H2]. apply Z.eqb_eq in H1. subst.
  rewrite Z.compare_refl. auto.
Qed.

Lemma str_compare_eq_eqb : forall a b, str_compare a b = Eq -> str_eqb a b = true.
Proof.
  induction a as [|x a IH]; destruct b as [|y b]; cbn; try discriminate; auto.
  destruct (Z.compare_spec x y); try discriminate. subst.
  rewrite Z.eqb_refl. cbn. auto.
Qed.

Lemma agrees_with_compare : forall s,
  well_formed s = true ->
  (supports_batching (Some s) = true <-> version_compare s cutoff_str = Some Lt).
Proof.
  intros s Hwf.
  destruct (well_formed_fmt s Hwf) as (a & b & c & d & e & f & g & h & -> & ?).
  rewrite supports_batching_is_string_order by intuition.
  unfold version_compare.
  rewrite (validate_format_fmt _ Hwf).
  replace (validate_format cutoff_str) with true by reflexivity.
  cbn [negb]. unfold str_ltb.
  destruct (str_eqb _ cutoff_str) eqn:Heq.
  - apply str_compare_refl_eqb in Heq. rewrite Heq. split; discriminate.
  - destruct (str_compare _ cutoff_str) eqn:Hc.
    + apply str_compare_eq_eqb in Hc. congruence.
    + split; reflexivity.
    + split; discriminate.
Qed.

(** Monotone in the date: string order on well-formed strings. *)
Lemma str_compare_trans_lt : forall a b c,
  str_compare a b <> Gt -> str_compare b c = Lt -> str_compare a c = Lt.
Proof.
  induction a as [|x a IH]; intros [|y b] [|z c]; cbn; try congruence; auto.
  destruct (Z.compare_spec x y), (Z.compare_spec y z); subst; try congruence;
    intros H1 H2.
  all: try (rewrite Z.compare_refl; eapply IH; eauto).
  all: match goal with
       | |- context [?p ?= ?q] => destruct (Z.compare_spec p q); try lia; try reflexivity
       end.
Qed.

Lemma monotone : forall s s',
  well_formed s = true -> well_formed s' = true ->
  str_compare s' s <> Gt ->
  supports_batching (Some s) = true -> supports_batching (Some s') = true.
Proof.
  intros s s' Hs Hs' Hle H.
  rewrite (supports_batching_demanded (Some s) (str_ltb s cutoff_str)) in H
    by (unfold demanded; now rewrite Hs).
  rewrite (supports_batching_demanded (Some s') (str_ltb s' cutoff_str))
    by (unfold demanded; now rewrite Hs').
  unfold str_ltb in *.
  destruct (str_compare s cutoff_str) eqn:Hc; try discriminate.
  now rewrite (str_compare_trans_lt s' s cutoff_str).
Qed.

(** * BatchProcessor: the mode always belongs to the recorded version *)

Definition bp_inv (st : bp) : Prop := bp_enabled st = supports_batching (bp_version st).

Lemma bp_reachable_inv : forall v0 vs, bp_inv (fold_left bp_update vs (bp_init v0)).
Proof.
  intros v0 vs. revert v0.
  induction vs as [|v vs IH] using rev_ind; intros v0.
  - reflexivity.
  - rewrite fold_left_app. reflexivity.
Qed.

Lemma bp_last_version : forall v0 vs v,
  bp_version (fold_left bp_update (vs ++ [v]) (bp_init v0)) = v.
Proof. intros. rewrite fold_left_app. reflexivity. Qed.

(** * The reader's step *)
Section ReaderFacts.
  Variables item msg : Type.
  Variable parse : item -> option msg.

  Lemma reject_single_error_no_delivery : forall st l,
    bp_enabled st = false ->
    process_data parse st (Batch l) = ([], [RejectError (bp_version st)]).
  Proof. intros st l H. unfold process_data. now rewrite H. Qed.

  (** [deliver_all] is exactly "the valid members, in order" *)
  Lemma deliver_all_spec : forall l,
    deliver_all parse l =
    flat_map (fun i => match parse i with Some m => [m] | None => [] end) l.
  Proof.
    induction l as [|i l IH]; cbn; [reflexivity|]. destruct (parse i); cbn; now rewrite IH.
  Qed.

  Lemma accept_members_in_order : forall st l,
    bp_enabled st = true ->
    process_data parse st (Batch l) =
    (flat_map (fun i => match parse i with Some m => [m] | None => [] end) l, []).
  Proof.
    intros st l H. unfold process_data. rewrite H. now rewrite deliver_all_spec.
  Qed.

  (** an invalid member is dropped alone: removing it changes nothing *)
  Lemma bad_member_dropped_alone : forall st l1 i l2,
    parse i = None ->
    fst (process_data parse st (Batch (l1 ++ i :: l2))) =
    fst (process_data parse st (Batch (l1 ++ l2))).
  Proof.
    intros st l1 i l2 Hi. unfold process_data.
    destruct (bp_enabled st); [|reflexivity]. cbn [fst].
    induction l1 as [|j l1 IH]; cbn.
    - now rewrite Hi.
    - destruct (parse j); now rewrite IH.
  Qed.

  Lemma single_never_rejected : forall st i,
    process_data parse st (Single i) =
    (match parse i with Some m => [m] | None => [] end, []).
  Proof. intros. unfold process_data. cbn. now destruct (parse i). Qed.
End ReaderFacts.

(** End to end: after any history of version updates ending in a well-formed
    version, a batch is rejected iff that version is not before the cutoff. *)
Lemma mode_after_handshake : forall v0 vs s,
  well_formed s = true ->
  bp_enabled (fold_left bp_update (vs ++ [Some s]) (bp_init v0)) = str_ltb s cutoff_str.
Proof.
  intros v0 vs s Hwf.
  rewrite (bp_reachable_inv v0 (vs ++ [Some s])), bp_last_version.
  apply supports_batching_demanded. unfold demanded. now rewrite Hwf.
Qed.

(** Reflection lemmas: the boolean checkers of Spec/C12.v (extracted and applied
    to the IMPLEMENTATION's observations) decide the declarative predicates. *)
From Coq Require Import Lia ZifyBool.
From Verif.Base Require Import Prelude SseVocab.
From Verif.Spec Require Import C12.
Open Scope Z_scope.

Lemma str_eqb_iff : forall a b, str_eqb a b = true <-> a = b.
Proof.
  induction a; destruct b; simpl; split; intros; try discriminate; auto.
  - apply andb_prop in H. destruct H. apply Z.eqb_eq in H. subst. f_equal. apply IHa. auto.
  - inversion H; subst. rewrite Z.eqb_refl. simpl. apply IHa. auto.
Qed.

Lemma id_eqb_iff : forall a b, id_eqb a b = true <-> a = b.
Proof.
  destruct a, b; simpl; split; intros; try discriminate.
  - apply Z.eqb_eq in H. subst. auto.
  - inversion H. apply Z.eqb_refl.
  - apply str_eqb_iff in H. subst. auto.
  - inversion H. apply str_eqb_iff. auto.
Qed.

Lemma kind_eqb_iff : forall a b, kind_eqb a b = true <-> a = b.
Proof.
  destruct a, b; simpl; split; intros; try discriminate; auto.
  - apply Z.eqb_eq in H. subst. auto.
  - inversion H. apply Z.eqb_refl.
Qed.

Lemma msg_eqb_iff : forall a b, msg_eqb a b = true <-> a = b.
Proof.
  destruct a as [ia ka ta], b as [ib kb tb]. unfold msg_eqb. simpl. split; intros H.
  - apply andb_prop in H. destruct H as [H Ht]. apply andb_prop in H. destruct H as [Hi Hk].
    apply kind_eqb_iff in Hk. apply Z.eqb_eq in Ht. subst.
    destruct ia, ib; simpl in Hi; try discriminate; auto. apply id_eqb_iff in Hi. subst. auto.
  - inversion H; subst. rewrite Z.eqb_refl. rewrite (proj2 (kind_eqb_iff kb kb) eq_refl).
    destruct ib; simpl; auto. rewrite (proj2 (id_eqb_iff i i) eq_refl). auto.
Qed.

Lemma list_eqb_iff : forall a b : list msg, list_eqb msg_eqb a b = true <-> a = b.
Proof.
  induction a; destruct b; simpl; split; intros; try discriminate; auto.
  - apply andb_prop in H. destruct H. apply msg_eqb_iff in H. subst. f_equal. apply IHa. auto.
  - inversion H; subst. rewrite (proj2 (msg_eqb_iff m m) eq_refl). simpl. apply IHa. auto.
Qed.

Lemma order_ok_spec : forall sent delivered, order_ok sent delivered = true <-> Spec_in_order_once sent delivered.
Proof. intros. unfold order_ok, Spec_in_order_once. rewrite list_eqb_iff. split; auto. Qed.

Lemma terminal_ok_spec : forall rid d, terminal_ok rid d = true <-> Spec_one_terminal rid d.
Proof. intros. unfold terminal_ok, Spec_one_terminal. apply Nat.eqb_eq. Qed.

Lemma released_ok_spec : forall l, released_ok l = true <-> Spec_released l.
Proof. intros. unfold released_ok, Spec_released. lia. Qed.

Lemma enter_ok_spec : forall timeout ann obs, enter_ok timeout ann obs = true <-> Spec_enter timeout ann obs.
Proof.
  intros timeout ann obs. unfold enter_ok, Spec_enter. destruct obs as [u t|t].
  - destruct u as [|x u]; simpl.
    + split; [discriminate|]. intros [H _]. congruence.
    + destruct ann as [ta|]; split; intros H.
      * split; [discriminate|]. exists ta. split; auto. lia.
      * destruct H as [_ [ta' [E L]]]. inversion E; subst. lia.
      * discriminate.
      * destruct H as [_ [ta' [E _]]]. discriminate.
  - destruct ann as [ta|]; split; intros H.
    + split; [lia|]. intros ta' E. inversion E; subst. lia.
    + destruct H as [H1 H2]. specialize (H2 ta eq_refl). lia.
    + split; [lia|]. intros; discriminate.
    + destruct H as [H1 _]. lia.
Qed.

(** Reference codec round trip, part 3: string literals.
    [pstr None (esc_str a s ++ 34 :: rest) = Some (s, rest)] for every list [s] of
    Unicode scalar values, under both escaping policies ([a = true]:
    ensure_ascii with \uXXXX and surrogate pairs; [a = false]: raw). *)
From Coq Require Import Lia ZifyBool.
From Verif.Base Require Import Prelude JsonVal.
From Verif.Model Require Import JsonEnc.
Open Scope Z_scope.

Ltac Zify.zify_post_hook ::= Z.div_mod_to_equations.

(** ** hexadecimal digits *)

Lemma hexv_hexd n : hexv (hexd n) = Some (n mod 16).
Proof.
  unfold hexd, hexv. cbv zeta.
  destruct (n mod 16 <? 10) eqn:E.
  - replace ((48 <=? 48 + n mod 16) && (48 + n mod 16 <=? 57)) with true by lia. f_equal. lia.
  - replace ((48 <=? 87 + n mod 16) && (87 + n mod 16 <=? 57)) with false by lia.
    replace ((97 <=? 87 + n mod 16) && (87 + n mod 16 <=? 102)) with true by lia. f_equal. lia.
Qed.

Lemma hex4v_hex4 u :
  0 <= u < 65536 ->
  hex4v (hexd (u / 4096)) (hexd (u / 256)) (hexd (u / 16)) (hexd u) = Some u.
Proof.
  intros Hu. unfold hex4v. rewrite !hexv_hexd. f_equal. lia.
Qed.

(** ** one \uXXXX escape, whatever the pending high surrogate *)

Lemma pstr_uesc hi u r :
  0 <= u < 65536 ->
  pstr hi (uesc u ++ r) =
    if is_hi u then match hi with None => pstr (Some u) r | Some _ => None end
    else if is_lo u then
      match hi with Some h => ocons (combine_surr h u) (pstr None r) | None => None end
    else match hi with None => ocons u (pstr None r) | Some _ => None end.
Proof.
  intros Hu. unfold uesc, hex4. cbn [app pstr].
  change (92 =? 34) with false. change (92 =? 92) with true. change (117 =? 117) with true.
  cbv iota. rewrite (hex4v_hex4 u Hu). reflexivity.
Qed.

Lemma pstr_uesc_plain u r :
  0 <= u < 65536 -> is_surrogate u = false ->
  pstr None (uesc u ++ r) = ocons u (pstr None r).
Proof.
  intros Hu Hs. rewrite pstr_uesc by assumption.
  replace (is_hi u) with false by (unfold is_hi, is_surrogate in *; lia).
  replace (is_lo u) with false by (unfold is_lo, is_surrogate in *; lia).
  reflexivity.
Qed.

Lemma pstr_uesc_pair c r :
  65536 <= c <= 1114111 ->
  pstr None ((uesc (55296 + (c - 65536) / 1024) ++ uesc (56320 + (c - 65536) mod 1024)) ++ r)
  = ocons c (pstr None r).
Proof.
  intros Hc. rewrite <- app_assoc.
  rewrite pstr_uesc by lia.
  replace (is_hi (55296 + (c - 65536) / 1024)) with true by (unfold is_hi; lia).
  rewrite pstr_uesc by lia.
  replace (is_hi (56320 + (c - 65536) mod 1024)) with false by (unfold is_hi; lia).
  replace (is_lo (56320 + (c - 65536) mod 1024)) with true by (unfold is_lo; lia).
  replace (combine_surr (55296 + (c - 65536) / 1024) (56320 + (c - 65536) mod 1024)) with c
    by (unfold combine_surr; lia).
  reflexivity.
Qed.

(** ** one character *)

Lemma pstr_raw c r :
  32 <= c -> c <> 34 -> c <> 92 -> pstr None (c :: r) = ocons c (pstr None r).
Proof.
  intros H1 H2 H3. cbn [pstr].
  replace (c =? 34) with false by lia. replace (c =? 92) with false by lia.
  replace (c <? 32) with false by lia. reflexivity.
Qed.

Lemma pstr_esc_char a c r :
  is_scalar c = true -> pstr None (esc_char a c ++ r) = ocons c (pstr None r).
Proof.
  intros Hs.
  assert (Hr : (0 <= c < 55296) \/ (57344 <= c <= 1114111))
    by (unfold is_scalar, is_surrogate in Hs; lia).
  assert (Hns : is_surrogate c = false) by (unfold is_surrogate; lia).
  unfold esc_char.
  destruct (c =? 34) eqn:E1; [apply Z.eqb_eq in E1; subst c; reflexivity|].
  destruct (c =? 92) eqn:E2; [apply Z.eqb_eq in E2; subst c; reflexivity|].
  destruct (c =? 8) eqn:E3; [apply Z.eqb_eq in E3; subst c; reflexivity|].
  destruct (c =? 12) eqn:E4; [apply Z.eqb_eq in E4; subst c; reflexivity|].
  destruct (c =? 10) eqn:E5; [apply Z.eqb_eq in E5; subst c; reflexivity|].
  destruct (c =? 13) eqn:E6; [apply Z.eqb_eq in E6; subst c; reflexivity|].
  destruct (c =? 9) eqn:E7; [apply Z.eqb_eq in E7; subst c; reflexivity|].
  destruct (c <? 32) eqn:E8; [apply pstr_uesc_plain; [lia | assumption]|].
  destruct a; cbn [negb].
  - destruct (c <? 127) eqn:E9; [apply pstr_raw; lia|].
    destruct (c <? 65536) eqn:E10; [apply pstr_uesc_plain; [lia | assumption]|].
    apply pstr_uesc_pair. lia.
  - apply pstr_raw; lia.
Qed.

(** ** a whole literal body, up to and including the closing quote *)

Theorem pstr_esc_str a s : forall rest,
  Forall (fun c => is_scalar c = true) s ->
  pstr None (esc_str a s ++ 34 :: rest) = Some (s, rest).
Proof.
  induction s as [|c s IH]; intros rest H.
  - reflexivity.
  - inversion H; subst. unfold esc_str in *. cbn [flat_map].
    rewrite <- app_assoc, pstr_esc_char by assumption.
    rewrite IH by assumption. reflexivity.
Qed.

Corollary pstr_render_string a s rest :
  Forall (fun c => is_scalar c = true) s ->
  exists body, render_string a s ++ rest = 34 :: body /\ pstr None body = Some (s, rest).
Proof.
  intros H. exists (esc_str a s ++ 34 :: rest). split.
  - unfold render_string. cbn [app]. rewrite <- app_assoc. reflexivity.
  - apply pstr_esc_str. assumption.
Qed.

(** ** every character of a literal is a Unicode scalar value (needed for the
    byte-level round trip) *)

Lemma hexd_scalar n : is_scalar (hexd n) = true.
Proof.
  unfold hexd. cbv zeta. destruct (n mod 16 <? 10) eqn:E; unfold is_scalar, is_surrogate; lia.
Qed.

Lemma uesc_scalar u : Forall (fun c => is_scalar c = true) (uesc u).
Proof.
  unfold uesc, hex4. repeat constructor; try apply hexd_scalar.
Qed.

Lemma esc_char_scalar a c :
  is_scalar c = true -> Forall (fun c => is_scalar c = true) (esc_char a c).
Proof.
  intros Hs. unfold esc_char.
  repeat match goal with
         | |- context [if ?b then _ else _] => destruct b eqn:?
         end;
    try apply uesc_scalar;
    try (apply Forall_app; split; apply uesc_scalar);
    repeat constructor; assumption.
Qed.

Lemma render_string_scalar a s :
  Forall (fun c => is_scalar c = true) s ->
  Forall (fun c => is_scalar c = true) (render_string a s).
Proof.
  intros H. unfold render_string. constructor; [reflexivity|].
  apply Forall_app. split; [|repeat constructor].
  unfold esc_str. induction H; cbn [flat_map]; [constructor|].
  apply Forall_app. split; [apply esc_char_scalar; assumption | assumption].
Qed.

(** C06 — two writers on one stdin.

    Besides the writer task, the READER task writes to the child's stdin too:
    the rejection error for a server batch ([_send_error_response]: one
    [send] of [json.dumps(error) + "\n"]).  Because every writer hands the pipe
    WHOLE LINES - one [send] per message - any interleaving of the two write
    sequences is again a well-framed NDJSON stream whose lines are exactly the
    two writers' lines, each in its writer's order: no line can end up inside
    another.  (The model fact "one write per message" is
    [writes = map (fun b => b ++ [10]) bodies], tied to the code by the
    correspondence on the captured [send] calls, large messages included.) *)
From Coq Require Import Lia.
From Verif.Base Require Import Prelude StdioUtf8.
From Verif.Model Require Import StdioOut.
From Verif.Spec Require Import C06.
From Verif.Proofs Require Import StdioOut.
Open Scope Z_scope.

(** [Merge a b m]: [m] is an interleaving of [a] and [b] (both orders kept). *)
Inductive Merge {A : Type} : list A -> list A -> list A -> Prop :=
| M_nil : Merge [] [] []
| M_left : forall x a b m, Merge a b m -> Merge (x :: a) b (x :: m)
| M_right : forall y a b m, Merge a b m -> Merge a (y :: b) (y :: m).

Lemma merge_forall : forall (A : Type) (P : A -> Prop) a b m,
  Merge a b m -> Forall P a -> Forall P b -> Forall P m.
Proof.
  intros A P a b m H. induction H as [|x a b m _ IH|y a b m _ IH]; intros Ha Hb.
  - constructor.
  - inversion Ha; subst. constructor; auto.
  - inversion Hb; subst. constructor; auto.
Qed.

Lemma merge_map : forall (A B : Type) (f : A -> B) a b m,
  Merge a b m -> Merge (map f a) (map f b) (map f m).
Proof. intros A B f a b m H. induction H; cbn; constructor; assumption. Qed.

Lemma merge_of_mapped : forall (A B : Type) (f : A -> B) a b w,
  Merge (map f a) (map f b) w -> exists m, Merge a b m /\ w = map f m.
Proof.
  intros A B f a b w H. remember (map f a) as fa eqn:Ea. remember (map f b) as fb eqn:Eb.
  revert a b Ea Eb. induction H as [|x fa' fb' w' _ IH|y fa' fb' w' _ IH]; intros a b Ea Eb.
  - destruct a, b; try discriminate. exists []. split; constructor.
  - destruct a as [|a0 a]; [discriminate|]. injection Ea as -> ->.
    destruct (IH a b eq_refl Eb) as (m & Hm & ->). exists (a0 :: m). split; [constructor; assumption|reflexivity].
  - destruct b as [|b0 b]; [discriminate|]. injection Eb as -> ->.
    destruct (IH a b Ea eq_refl) as (m & Hm & ->). exists (b0 :: m). split; [constructor; assumption|reflexivity].
Qed.

(** Every interleaving of whole-line writes is a well-framed stream of exactly those lines. *)
Lemma interleaved_lines_stay_whole : forall (la lb : list (list Z)) (w : list (list Z)),
  Forall no_break la -> Forall no_break lb ->
  Merge (map (fun b => b ++ [10]) la) (map (fun b => b ++ [10]) lb) w ->
  exists lm, Merge la lb lm /\ Spec_stream lm (concat w).
Proof.
  intros la lb w Ha Hb H. destruct (merge_of_mapped _ _ _ la lb w H) as (lm & Hm & ->).
  exists lm. split; [assumption|]. split.
  - unfold framed. rewrite flat_map_concat_map. reflexivity.
  - eapply merge_forall; eauto.
Qed.

Section TwoWriters.
  Variable model value : Type.
  Variable dump_json : model -> option str.
  Variable model_dump : model -> option value.
  Variable dumps : value -> option str.
  Variable loads : str -> option value.
  Hypothesis dumps_single : forall v t, dumps v = Some t -> has_break t = false.
  Hypothesis dump_json_single : forall e t, dump_json e = Some t -> has_break t = false.

  (** The writer task's writes for ANY message sequence, interleaved in ANY way
      with the whole-line writes of another task (bodies [others], none with a
      raw line break): the child reads exactly the union of the lines, each
      writer's order kept. *)
  Lemma two_writers_ndjson : forall msgs (others : list (list Z)) w,
    Forall no_break others ->
    Merge (writes model value dump_json model_dump dumps loads Recompact msgs) (map (fun b => b ++ [10]) others) w ->
    exists lm, Merge (bodies model value dump_json model_dump dumps loads Recompact msgs) others lm
               /\ Spec_stream lm (concat w).
  Proof.
    intros msgs others w Ho H. rewrite writes_are_bodies in H.
    apply interleaved_lines_stay_whole; try assumption.
    apply (recompact_stream model value dump_json model_dump dumps loads dumps_single dump_json_single msgs).
  Qed.
End TwoWriters.

(** Lemmas about Model/ServerInit.v (server side of version negotiation), the
    composition with the client model (Model/Negotiation.v) and the reflection
    lemmas for Spec/C04.v's checkers.  [server_default], [server_decide],
    [session_version_of], [result_version_of] are regenerated from the AST of
    ProtocolHandler._handle_initialize and SUPPORTED_VERSIONS / CURRENT_VERSION
    from versioning.py on every run: these proofs are about the current source. *)
From Coq Require Import Lia.
From Verif.Base Require Import Prelude.
From Verif.Gen Require Import VersionsGen ServerInitGen.
From Verif.Model Require Import Batching Negotiation ServerInit.
From Verif.Spec Require Import C04.
From Verif.Proofs Require Import NegotFacts Negotiation.
Open Scope Z_scope.

(** * The server's answer *)

Lemma current_supported : In CURRENT_VERSION SUPPORTED_VERSIONS.
Proof. apply mem_str_In. vm_compute. reflexivity. Qed.

(** Written to survive harmless re-shapings of the generated chain (another
    supported constant in the fallback branch, an extra test): every membership
    test is split, the result is read off, membership is either the test's own
    hypothesis or computed on the generated constants. *)
Ltac solve_supported :=
  first [ apply mem_str_In; assumption
        | apply mem_str_In; vm_compute; reflexivity ].

Lemma decide_supported : forall x, exists v, server_decide x = Some v /\ In v SUPPORTED_VERSIONS.
Proof.
  intros [s|]; unfold server_decide, pv_in, pv_eq;
    repeat match goal with
           | |- context [mem_str ?a ?l] => destruct (mem_str a l) eqn:?
           | |- context [str_eqb ?a ?b] => destruct (str_eqb a b) eqn:?
           end;
    cbn [negb andb orb]; eexists; (split; [reflexivity | solve_supported]).
Qed.

Lemma decide_echo : forall s, In s SUPPORTED_VERSIONS -> server_decide (Some s) = Some s.
Proof.
  intros s H. apply mem_str_In in H. unfold server_decide, pv_in. rewrite H. reflexivity.
Qed.

Lemma answer_supported : forall r, exists v, server_answer r = Some v /\ In v SUPPORTED_VERSIONS.
Proof. intro r. unfold server_answer, result_version_of. apply decide_supported. Qed.

Lemma answer_echo_when_supported : forall s,
  In s SUPPORTED_VERSIONS -> server_answer (RStr s) = Some s.
Proof. intros s H. unfold server_answer, result_version_of. cbn [read_requested]. apply decide_echo. exact H. Qed.

Lemma answer_never_unsupported : forall r v, server_answer r = Some v -> In v SUPPORTED_VERSIONS.
Proof. intros r v H. destruct (answer_supported r) as [w [Hw Hin]]. congruence. Qed.

Lemma answer_is_a_string : forall r, server_answer r <> None.
Proof. intros r H. destruct (answer_supported r) as [w [Hw _]]. congruence. Qed.

Lemma session_records_answer : forall r, session_version r = server_answer r.
Proof. reflexivity. Qed.

(** * Reflection for the server checker *)

Lemma server_ok_iff : forall o, server_ok o = true <-> Spec_server o.
Proof.
  intro o. unfold server_ok, Spec_server. split.
  - destruct (so_answered o) as [| |v]; try discriminate.
    intro H. apply andb_true_iff in H. destruct H as [H H3].
    apply andb_true_iff in H. destruct H as [H1 H2].
    exists v. split; [reflexivity|]. split; [apply mem_str_In; exact H1|]. split.
    + intros s Hs Hin. rewrite Hs in H2. apply mem_str_In in Hin. rewrite Hin in H2.
      apply str_eqb_eq in H2. exact H2.
    + destruct (so_session o) as [| |w]; try discriminate H3.
      apply str_eqb_eq in H3. congruence.
  - intros [v [Ha [Hin [He Hs]]]]. rewrite Ha, Hs.
    apply andb_true_iff. split; [|apply str_eqb_refl].
    apply andb_true_iff. split; [apply mem_str_In; exact Hin|].
    destruct (so_requested o) as [|s|]; try reflexivity.
    destruct (mem_str s (so_supported o)) eqn:E; [|reflexivity].
    apply str_eqb_eq. apply He; [reflexivity | apply mem_str_In; exact E].
Qed.

Lemma handshake_ok_iff : forall o, handshake_ok o = true <-> Spec_handshake o.
Proof.
  intro o. unfold handshake_ok, Spec_handshake. split.
  - destruct (h_outcome_of o) as [v| |]; [|auto|discriminate].
    intro H. apply andb_true_iff in H. destruct H as [H H3].
    apply andb_true_iff in H. destruct H as [H1 H2].
    left. exists v. split; [reflexivity|].
    split; [apply mem_str_In; exact H1|]. split; [apply mem_str_In; exact H2|].
    destruct (h_session o) as [| |w]; try discriminate H3. apply str_eqb_eq in H3. congruence.
  - intros [[v [Ho [H1 [H2 H3]]]]|Ho]; rewrite Ho; [|reflexivity].
    rewrite H3. apply andb_true_iff. split; [|apply str_eqb_refl].
    apply andb_true_iff. split; apply mem_str_In; assumption.
Qed.

(** * The model meets the specification *)

Definition s_value_of (x : option str) : s_value :=
  match x with Some s => VStr s | None => VNonStr end.
Definition s_requested_of (r : requested) : s_requested :=
  match r with RAbsent => QAbsent | RStr s => QStr s | RNonStr => QNonStr end.

Definition srv_obs_of (r : requested) : srv_obs :=
  {| so_supported := SUPPORTED_VERSIONS;
     so_requested := s_requested_of r;
     so_answered := s_value_of (server_answer r);
     so_session := s_value_of (session_version r) |}.

Lemma server_meets_spec : forall r, Spec_server (srv_obs_of r).
Proof.
  intro r. unfold Spec_server, srv_obs_of. cbn [so_supported so_requested so_answered so_session].
  destruct (answer_supported r) as [v [Hv Hin]].
  exists v. change (session_version r) with (server_answer r). rewrite Hv. cbn [s_value_of].
  split; [reflexivity|]. split; [exact Hin|]. split; [|reflexivity].
  intros s Hs Hsin. destruct r as [|s'|]; cbn in Hs; try discriminate Hs.
  inversion Hs; subst s'. rewrite (answer_echo_when_supported s Hsin) in Hv. congruence.
Qed.

(** * End to end: library client against library server *)

Section Handshake.
  Variable arg : option (list str).        (* the client's supported list (None = the library's) *)
  Variable pref : option str.
  Variables noise rest : list inmsg.
  Variable e : ending.
  Variable p : str.
  Let client := effective_supported arg.
  Hypothesis Hp : propose client pref = Some p.
  Hypothesis Hnoise : Forall (fun m => m = INoise) noise.
  Let r := client_init arg pref (noise ++ IAnswer (server_response p) :: rest) e true.

  Lemma handshake_agrees_or_mismatch :
    (exists v, out r = Ok v /\ In v client /\ In v SUPPORTED_VERSIONS /\
               server_answer (RStr p) = Some v /\ session_version (RStr p) = Some v /\
               trace r = [ESend (WInit p); ERecv; ESend WInitialized])
    \/ (out r = VersionMismatch /\ count_initialized (trace r) = 0%nat /\
        exists w, server_answer (RStr p) = Some w /\ ~ In w client).
  Proof.
    assert (Hne : client <> []).
    { intro H. apply (propose_none_iff client pref) in H. congruence. }
    destruct (answer_supported (RStr p)) as [w [Hw Hwin]].
    assert (Haw : await (noise ++ IAnswer (server_response p) :: rest) = Some (well_formed_answer w)).
    { rewrite await_noise by exact Hnoise. cbn. unfold server_response. rewrite Hw. reflexivity. }
    destruct (mem_str w client) eqn:E.
    - left. apply mem_str_In in E. exists w.
      pose proof (run_supported_answer_succeeds arg pref _ e true w Hne Haw E eq_refl) as Ho.
      fold r in Ho. split; [exact Ho|]. split; [exact E|]. split; [exact Hwin|].
      split; [exact Hw|]. split; [exact Hw|].
      destruct (run_success_trace arg pref _ e true w Ho) as [p' [Hp' Ht]].
      fold client in Hp'. fold r in Ht. rewrite Hp in Hp'. inversion Hp'; subst p'. exact Ht.
    - right. apply mem_str_not_In in E.
      destruct (run_mismatch_raises arg pref _ e true w Hne Haw E) as [Ho Hc].
      fold r in Ho, Hc. split; [exact Ho|]. split; [exact Hc|]. exists w. auto.
  Qed.
End Handshake.

Definition h_outcome_of_run (o : outcome) : h_outcome :=
  match o with Ok v => HOk v | VersionMismatch => HMismatch | _ => HFailed end.

Definition hs_obs_of (arg : option (list str)) (p : str) (r : run) : hs_obs :=
  {| h_client := effective_supported arg;
     h_server := SUPPORTED_VERSIONS;
     h_outcome_of := h_outcome_of_run (out r);
     h_session := s_value_of (session_version (RStr p)) |}.

Lemma handshake_meets_spec : forall arg pref noise rest e p,
  propose (effective_supported arg) pref = Some p ->
  Forall (fun m => m = INoise) noise ->
  Spec_handshake (hs_obs_of arg p
     (client_init arg pref (noise ++ IAnswer (server_response p) :: rest) e true)).
Proof.
  intros arg pref noise rest e p Hp Hn.
  destruct (handshake_agrees_or_mismatch arg pref noise rest e p Hp Hn)
    as [[v [Ho [H1 [H2 [_ [Hs _]]]]]]|[Ho _]]; unfold Spec_handshake, hs_obs_of;
    cbn [h_client h_server h_outcome_of h_session]; rewrite Ho; cbn [h_outcome_of_run].
  - left. exists v. rewrite Hs. auto.
  - right. reflexivity.
Qed.

(** Reference codec round trip, part 2: number tokens.
    [int_of_tok (int_chars z) = Some z] for every [z : Z] (unbounded), the token
    scanner [span_num] stops exactly at the end of a token that is followed by
    a non-number character, and a float token is never read as an integer. *)
From Coq Require Import Lia ZifyBool.
From Verif.Base Require Import Prelude JsonVal.
From Verif.Model Require Import JsonEnc.
Open Scope Z_scope.

Ltac Zify.zify_post_hook ::= Z.div_mod_to_equations.

(** the continuation does not start with a character of the number alphabet *)
Definition no_num_head (rest : str) : Prop :=
  match rest with [] => True | c :: _ => is_num_char c = false end.

Definition dstep (a d : Z) : Z := 10 * a + (d - 48).

Lemma digits_val_eq s : digits_val s = fold_left dstep s 0.
Proof. reflexivity. Qed.

(** ** [digits_fuel] with enough fuel *)

Lemma digits_fuel_val f : forall n acc,
  (0 < f)%nat -> 0 <= n < 2 ^ Z.of_nat f ->
  fold_left dstep (digits_fuel f n acc) 0 = fold_left dstep acc n.
Proof.
  induction f as [|f IH]; intros n acc Hf Hn; [lia|].
  cbn [digits_fuel].
  assert (Hp : 2 ^ Z.of_nat (S f) = 2 * 2 ^ Z.of_nat f).
  { rewrite Nat2Z.inj_succ, Z.pow_succ_r by lia. reflexivity. }
  destruct (n <? 10) eqn:E.
  - cbn [fold_left]. f_equal. unfold dstep. lia.
  - assert (Hf' : (0 < f)%nat).
    { destruct f; [|lia]. change (2 ^ Z.of_nat 0) with 1 in Hp. lia. }
    rewrite IH by lia. cbn [fold_left]. f_equal. unfold dstep. lia.
Qed.

Lemma digits_fuel_digits f : forall n acc,
  0 <= n ->
  forallb is_digit acc = true -> forallb is_digit (digits_fuel f n acc) = true.
Proof.
  induction f as [|f IH]; intros n acc Hn Ha; cbn [digits_fuel]; [assumption|].
  assert (Hd : is_digit (48 + n mod 10) = true) by (unfold is_digit; lia).
  destruct (n <? 10) eqn:E.
  - cbn [forallb]. rewrite Hd, Ha. reflexivity.
  - apply IH; [lia|]. cbn [forallb]. rewrite Hd, Ha. reflexivity.
Qed.

(** a positive number has no leading zero *)
Lemma digits_fuel_head f : forall n acc,
  0 < n < 2 ^ Z.of_nat f ->
  exists c t, digits_fuel f n acc = c :: t /\ is_digit c = true /\ c <> 48.
Proof.
  induction f as [|f IH]; intros n acc Hn.
  - change (2 ^ Z.of_nat 0) with 1 in Hn. lia.
  - cbn [digits_fuel].
    assert (Hp : 2 ^ Z.of_nat (S f) = 2 * 2 ^ Z.of_nat f).
    { rewrite Nat2Z.inj_succ, Z.pow_succ_r by lia. reflexivity. }
    destruct (n <? 10) eqn:E.
    + exists (48 + n mod 10), acc. split; [reflexivity|]. unfold is_digit. lia.
    + apply IH. lia.
Qed.

Lemma nat_chars_fuel n : 0 <= n -> n < 2 ^ Z.of_nat (S (Z.to_nat (Z.log2 n))).
Proof.
  intros Hn. rewrite Nat2Z.inj_succ, Z2Nat.id by apply Z.log2_nonneg.
  destruct (Z.eq_dec n 0) as [->|Hz]; [reflexivity|].
  apply Z.log2_spec. lia.
Qed.

Lemma nat_chars_zero : nat_chars 0 = [48].
Proof. reflexivity. Qed.

Lemma nat_chars_digits n : 0 <= n -> forallb is_digit (nat_chars n) = true.
Proof. intros. unfold nat_chars. apply digits_fuel_digits; [assumption | reflexivity]. Qed.

Lemma nat_chars_val n : 0 <= n -> digits_val (nat_chars n) = n.
Proof.
  intros Hn. rewrite digits_val_eq. unfold nat_chars.
  rewrite digits_fuel_val; [| lia | split; [assumption | apply nat_chars_fuel; assumption]].
  reflexivity.
Qed.

Lemma nat_of_digits_nat_chars n : 0 <= n -> nat_of_digits (nat_chars n) = Some n.
Proof.
  intros Hn. destruct (Z.eq_dec n 0) as [->|Hz]; [reflexivity|].
  destruct (digits_fuel_head (S (Z.to_nat (Z.log2 n))) n [])
    as [c [t [Hc [Hd H48]]]]; [split; [lia | apply nat_chars_fuel; assumption]|].
  pose proof (nat_chars_digits n Hn) as Hall. pose proof (nat_chars_val n Hn) as Hval.
  unfold nat_chars in *. rewrite Hc in *.
  unfold nat_of_digits. rewrite Hall.
  replace (c =? 48) with false by lia. cbn [negb orb andb]. rewrite Hval. reflexivity.
Qed.

(** first character of [nat_chars]: a digit *)
Lemma nat_chars_head n : 0 <= n -> exists c t, nat_chars n = c :: t /\ is_digit c = true.
Proof.
  intros Hn. pose proof (nat_chars_digits n Hn) as Hall.
  destruct (nat_chars n) as [|c t] eqn:E.
  - pose proof (nat_of_digits_nat_chars n Hn) as H. rewrite E in H. discriminate.
  - exists c, t. split; [reflexivity|]. cbn [forallb] in Hall.
    apply andb_true_iff in Hall. tauto.
Qed.

(** ** integers *)

Theorem int_of_tok_int_chars z : int_of_tok (int_chars z) = Some z.
Proof.
  unfold int_chars. destruct (z <? 0) eqn:E.
  - cbn [int_of_tok]. rewrite Z.eqb_refl.
    rewrite nat_of_digits_nat_chars by lia. cbn [option_map]. f_equal. lia.
  - destruct (nat_chars_head z ltac:(lia)) as [c [t [Hc Hd]]].
    pose proof (nat_of_digits_nat_chars z ltac:(lia)) as H.
    rewrite Hc in *. cbn [int_of_tok].
    replace (c =? 45) with false by (unfold is_digit in Hd; lia). exact H.
Qed.

Lemma digit_num_char c : is_digit c = true -> is_num_char c = true.
Proof. intros H. unfold is_num_char. rewrite H. reflexivity. Qed.

Lemma digits_num_chars s : forallb is_digit s = true -> forallb is_num_char s = true.
Proof.
  induction s as [|c s IH]; [reflexivity|]. cbn [forallb]. intros H.
  apply andb_true_iff in H. destruct H as [H1 H2].
  rewrite (digit_num_char c H1), (IH H2). reflexivity.
Qed.

Lemma int_chars_num_chars z : forallb is_num_char (int_chars z) = true.
Proof.
  unfold int_chars. destruct (z <? 0) eqn:E.
  - cbn [forallb]. rewrite digits_num_chars by (apply nat_chars_digits; lia). reflexivity.
  - apply digits_num_chars, nat_chars_digits. lia.
Qed.

(** first character of an integer token: a number character *)
Lemma int_chars_head z : exists c t, int_chars z = c :: t /\ is_num_char c = true.
Proof.
  pose proof (int_chars_num_chars z) as H.
  destruct (int_chars z) as [|c t] eqn:E.
  - pose proof (int_of_tok_int_chars z) as H0. rewrite E in H0. discriminate.
  - exists c, t. split; [reflexivity|]. cbn [forallb] in H. apply andb_true_iff in H. tauto.
Qed.

(** ** the token scanner *)

Lemma span_num_app t : forall rest,
  forallb is_num_char t = true -> no_num_head rest -> span_num (t ++ rest) = (t, rest).
Proof.
  induction t as [|c t IH]; intros rest Ht Hr.
  - cbn [app]. destruct rest as [|d r]; [reflexivity|]. cbn [span_num].
    simpl in Hr. rewrite Hr. reflexivity.
  - cbn [forallb] in Ht. apply andb_true_iff in Ht. destruct Ht as [Hc Ht].
    cbn [app span_num]. rewrite Hc, (IH rest Ht Hr). reflexivity.
Qed.

(** ** a float token is not an integer token *)

Lemma frac_not_digits s : existsb is_frac_char s = true -> forallb is_digit s = false.
Proof.
  induction s as [|c s IH]; [discriminate|]. cbn [existsb forallb]. intros H.
  apply orb_true_iff in H. destruct H as [H|H].
  - replace (is_digit c) with false by (unfold is_frac_char, is_digit in *; lia). reflexivity.
  - rewrite (IH H). apply andb_false_r.
Qed.

Lemma nat_of_digits_frac s : existsb is_frac_char s = true -> nat_of_digits s = None.
Proof.
  intros H. unfold nat_of_digits. destruct s as [|d r]; [reflexivity|].
  rewrite (frac_not_digits _ H). reflexivity.
Qed.

Lemma int_of_tok_float t : float_text_ok t = true -> int_of_tok t = None.
Proof.
  unfold float_text_ok. intros H. apply andb_true_iff in H. destruct H as [_ H].
  destruct t as [|c r]; [reflexivity|]. cbn [int_of_tok].
  destruct (c =? 45) eqn:E.
  - cbn [existsb] in H. replace (is_frac_char c) with false in H by (unfold is_frac_char; lia).
    cbn [orb] in H. rewrite (nat_of_digits_frac _ H). reflexivity.
  - apply nat_of_digits_frac. exact H.
Qed.

Lemma float_text_head t :
  float_text_ok t = true -> exists c r, t = c :: r /\ is_num_char c = true.
Proof.
  unfold float_text_ok. intros H. apply andb_true_iff in H. destruct H as [H1 H2].
  destruct t as [|c r]; [discriminate|]. exists c, r. split; [reflexivity|].
  cbn [forallb] in H1. apply andb_true_iff in H1. tauto.
Qed.

(** C18 on the model of concurrent waiters. *)
From Coq Require Import Lia.
From Verif.Base Require Import Prelude AwaitTypes.
From Verif.Model Require Import Concurrent.
From Verif.Spec Require Import C01 C18.
Open Scope Z_scope.

Section Facts.
  Variable retryable : Z -> bool.
  Notation step := (step retryable).
  Notation decide := (decide retryable).

  (** a completed waiter holds a response that was delivered TO IT and bears ITS id *)
  Definition justified (log : list delivery) (ws : wstate) : Prop :=
    forall k i o, nth_error ws k = Some (i, Some o) ->
      exists m, In (Deliver k m) log /\ decide i m = Some o.

  Lemma deliver_to_nth : forall ws k m j,
    nth_error (deliver_to retryable k m ws) j =
    if Nat.eqb j k then
      match nth_error ws j with
      | Some (i, None) => Some (i, decide i m)
      | other => other
      end
    else nth_error ws j.
  Proof.
    induction ws as [|[i o] ws IH]; intros k m j; cbn.
    - destruct (Nat.eqb j k); destruct j; reflexivity.
    - destruct k as [|k]; destruct j as [|j]; cbn; try reflexivity.
      + now destruct o.
      + apply IH.
  Qed.

  Lemma deliver_to_ids : forall ws k m, map fst (deliver_to retryable k m ws) = map fst ws.
  Proof.
    induction ws as [|[i o] ws IH]; intros k m; cbn; [reflexivity|].
    destruct k; cbn; [reflexivity|]. now rewrite IH.
  Qed.

  Lemma step_justified : forall log ws d,
    justified log ws -> justified (log ++ [d]) (step ws d).
  Proof.
    intros log ws [k m] H j i o Hn. cbn [step] in Hn.
    rewrite deliver_to_nth in Hn.
    destruct (Nat.eqb j k) eqn:Hjk.
    - apply PeanoNat.Nat.eqb_eq in Hjk. subst j.
      destruct (nth_error ws k) as [[i' [o'|]]|] eqn:Hk.
      + injection Hn as -> ->. destruct (H k i o Hk) as (m' & Hin & Hd).
        exists m'. split; [apply in_or_app; now left | exact Hd].
      + injection Hn as -> Hd. exists m. split; [apply in_or_app; right; now left | exact Hd].
      + discriminate.
    - destruct (H j i o Hn) as (m' & Hin & Hd).
      exists m'. split; [apply in_or_app; now left | exact Hd].
  Qed.

  Lemma replay_justified_from : forall log pre ws,
    justified pre ws -> justified (pre ++ log) (fold_left step log ws).
  Proof.
    induction log as [|d log IH]; intros pre ws H; cbn.
    - now rewrite app_nil_r.
    - replace (pre ++ d :: log) with ((pre ++ [d]) ++ log) by (now rewrite <- app_assoc).
      apply IH. now apply step_justified.
  Qed.

  Theorem no_crosstalk : forall ids log k i o,
    nth_error (replay retryable ids log) k = Some (i, Some o) ->
    exists m, In (Deliver k m) log /\ decide i m = Some o.
  Proof.
    intros ids log k i o Hn.
    assert (Hj : justified [] (init ids)).
    { intros j i' o' H. unfold init in H. rewrite nth_error_map in H.
      destruct (nth_error ids j); cbn in H; discriminate. }
    pose proof (replay_justified_from log [] (init ids) Hj) as H. cbn in H.
    exact (H k i o Hn).
  Qed.

  Lemma replay_ids : forall ids log, map fst (replay retryable ids log) = ids.
  Proof.
    intros ids log. unfold replay.
    assert (Hgen : forall l ws, map fst (fold_left step l ws) = map fst ws).
    { induction l as [|[k' m'] l IHl]; intros ws; cbn; [reflexivity|].
      rewrite IHl. apply deliver_to_ids. }
    rewrite Hgen. unfold init. rewrite map_map. cbn. apply map_id.
  Qed.

  (** what [decide] accepts is an answer bearing the waiter's own id *)
  Lemma decide_own : forall i m o, decide i m = Some o ->
    is_answer i m = true /\ out_matches m o = true.
  Proof.
    intros i m o H. destruct m as [j tok|j code|j| |b v|]; cbn in *; try discriminate;
      destruct (rid_eqb j i); try discriminate; injection H as <-; cbn; now rewrite Z.eqb_refl.
  Qed.

  (** the executable checker of Spec/C18.v accepts every completed waiter of the model *)
  Theorem no_crosstalk_checker : forall ids log arrivals k i o dl,
    (forall j m, In (Deliver j m) log -> exists a, In (a, m) arrivals) ->
    nth_error (replay retryable ids log) k = Some (i, Some o) ->
    own_response arrivals {| c_id := i; c_deadline := dl; c_out := o |} = true.
  Proof.
    intros ids log arrivals k i o dl Harr Hn.
    destruct (no_crosstalk ids log k i o Hn) as (m & Hin & Hd).
    destruct (Harr k m Hin) as (a & Ha).
    unfold own_response. cbn.
    destruct m as [j tok|j code|j| |b v|]; cbn in Hd; try discriminate;
      destruct (rid_eqb j i) eqn:Hji; try discriminate; injection Hd as <-.
    - apply existsb_exists. exists (a, MRes j tok). split; [exact Ha|]. cbn. now rewrite Hji, Z.eqb_refl.
    - apply existsb_exists. exists (a, MErr j code). split; [exact Ha|]. cbn. now rewrite Hji, Z.eqb_refl.
  Qed.

  (** * Lost responses *)

  (** Full statement: every waiter for which an answer bearing its id was
      dequeued by SOMEBODY completes. *)
  Definition no_lost_response_statement : Prop :=
    forall ids log k i j m,
      NoDup ids -> nth_error ids k = Some i ->
      In (Deliver j m) log -> is_answer i m = true ->
      outcome_of (replay retryable ids log) k <> None.

  (** Refuted by two callers answered in the opposite order: each dequeues the
      other's response and discards it. *)
  Theorem no_lost_response_refuted : ~ no_lost_response_statement.
  Proof.
    intros H.
    set (a := IdStr [97]). set (b := IdStr [98]).
    specialize (H [a; b] [Deliver 0 (MRes b 1); Deliver 1 (MRes a 2)] 0%nat a 1%nat (MRes a 2)).
    apply H; try reflexivity.
    - repeat constructor; cbn; intuition discriminate.
    - right. now left.
  Qed.

  (** Strongest true restriction: a waiter completes with the FIRST answer
      bearing its id that it dequeues ITSELF — so nothing is lost when every
      response is dequeued by its addressee (in particular with one waiter). *)
  Fixpoint first_own (k : nat) (i : rid) (log : list delivery) : option outcome :=
    match log with
    | [] => None
    | Deliver j m :: log' =>
        if Nat.eqb j k then
          match decide i m with Some o => Some o | None => first_own k i log' end
        else first_own k i log'
    end.

  Lemma fold_done : forall log ws k i o,
    nth_error ws k = Some (i, Some o) ->
    nth_error (fold_left step log ws) k = Some (i, Some o).
  Proof.
    induction log as [|[j m] log IH]; intros ws k i o H; cbn; [exact H|].
    apply IH. rewrite deliver_to_nth. destruct (Nat.eqb k j); rewrite H; reflexivity.
  Qed.

  Theorem no_lost_response_partial : forall log ws k i,
    nth_error ws k = Some (i, None) ->
    outcome_of (fold_left step log ws) k = first_own k i log.
  Proof.
    induction log as [|[j m] log IH]; intros ws k i H; cbn [fold_left first_own].
    - unfold outcome_of. now rewrite H.
    - destruct (Nat.eqb j k) eqn:Hjk.
      + apply PeanoNat.Nat.eqb_eq in Hjk. subst j.
        destruct (decide i m) as [o|] eqn:Hd.
        * unfold outcome_of. erewrite fold_done; [reflexivity|].
          cbn [step]. rewrite deliver_to_nth, PeanoNat.Nat.eqb_refl, H. now rewrite Hd.
        * apply IH. cbn [step]. rewrite deliver_to_nth, PeanoNat.Nat.eqb_refl, H. now rewrite Hd.
      + apply IH. cbn [step]. rewrite deliver_to_nth.
        rewrite PeanoNat.Nat.eqb_sym, Hjk. exact H.
  Qed.
End Facts.

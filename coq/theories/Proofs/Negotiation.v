(** Lemmas about Model/Negotiation.v (client side of version negotiation) and
    the reflection lemma for Spec/C03.v's checker.  SUPPORTED_VERSIONS,
    INVALID_PARAMS, is_retryable_error and [decide] come from Gen/, i.e. from
    the current source: the proofs are re-checked against it on every run. *)
From Coq Require Import Lia.
From Verif.Base Require Import Prelude.
From Verif.Gen Require Import VersionsGen ErrorsGen BatchingGen.
From Verif.Model Require Import Batching Negotiation.
From Verif.Spec Require Import C13 C03.
From Verif.Proofs Require Import NegotFacts Batching.
Open Scope Z_scope.

(** * The proposed version *)

Lemma propose_some : forall sup pref, sup <> [] ->
  exists p, propose sup pref = Some p /\ In p sup.
Proof.
  intros sup pref Hne. destruct (hd_error_nonempty _ sup Hne) as [h Hh].
  unfold propose. destruct pref as [[|c q]|].
  - exists h. split; [exact Hh | eapply hd_error_In; eauto].
  - destruct (mem_str (c :: q) sup) eqn:E.
    + exists (c :: q). split; [reflexivity | apply mem_str_In; exact E].
    + exists h. split; [exact Hh | eapply hd_error_In; eauto].
  - exists h. split; [exact Hh | eapply hd_error_In; eauto].
Qed.

Lemma propose_none_iff : forall sup pref, propose sup pref = None <-> sup = [].
Proof.
  intros sup pref. split.
  - intro H. destruct sup as [|x l]; [reflexivity|].
    destruct (propose_some (x :: l) pref) as [p [Hp _]]; [discriminate | congruence].
  - intro; subst. unfold propose. destruct pref as [[|c q]|]; reflexivity.
Qed.

Lemma propose_preferred : forall sup q, q <> [] -> In q sup -> propose sup (Some q) = Some q.
Proof.
  intros sup q Hq Hin. destruct q as [|c q]; [contradiction|].
  unfold propose. apply mem_str_In in Hin. rewrite Hin. reflexivity.
Qed.

Lemma propose_head_absent : forall sup, propose sup None = hd_error sup.
Proof. reflexivity. Qed.

Lemma propose_head_not_offered : forall sup q, ~ In q sup -> propose sup (Some q) = hd_error sup.
Proof.
  intros sup q Hn. unfold propose. destruct q as [|c q]; [reflexivity|].
  apply mem_str_not_In in Hn. rewrite Hn. reflexivity.
Qed.

Lemma propose_empty_preferred_is_absent : forall sup, propose sup (Some []) = propose sup None.
Proof. reflexivity. Qed.

Lemma default_supported_nonempty : effective_supported None <> [].
Proof. unfold effective_supported. vm_compute. discriminate. Qed.

(** * The await loop ignores noise *)

Lemma await_noise : forall noise rest,
  Forall (fun m => m = INoise) noise -> await (noise ++ rest) = await rest.
Proof.
  induction noise as [|m noise IH]; intros rest H; [reflexivity|].
  inversion H; subst. cbn. apply IH. assumption.
Qed.

Lemma await_all_noise : forall noise, Forall (fun m => m = INoise) noise -> await noise = None.
Proof.
  intros noise H. rewrite <- (app_nil_r noise). rewrite await_noise by assumption. reflexivity.
Qed.

Lemma client_init_noise : forall arg pref noise rest e nok,
  Forall (fun m => m = INoise) noise ->
  client_init arg pref (noise ++ rest) e nok = client_init arg pref rest e nok.
Proof. intros. unfold client_init. rewrite await_noise by assumption. reflexivity. Qed.

(** * Judging an answer *)

Lemma on_answer_ok : forall sup p a v,
  on_answer sup p a = Ok v ->
  a = AResult (Some (JStr v)) true /\ accepts sup p v = true.
Proof.
  intros sup p a v H. unfold on_answer in H.
  destruct a as [[[w|]|] [|]| |code msg]; try discriminate H.
  - destruct (accepts sup p w) eqn:E; [|discriminate H]. inversion H; subst. auto.
  - destruct ((code =? INVALID_PARAMS) && says_protocol_version msg); [discriminate H|].
    destruct (is_retryable_error code); discriminate H.
Qed.

Lemma accepts_in : forall sup p v, In p sup -> (accepts sup p v = true <-> In v sup).
Proof.
  intros sup p v Hp. unfold accepts. rewrite orb_true_iff, str_eqb_eq, mem_str_In.
  split; [intros [H|H]; subst; auto | auto].
Qed.

Definition well_formed_answer (v : str) : answer := AResult (Some (JStr v)) true.

(** Every answer that is not a well-formed result is a failure, classified: *)
Lemma on_answer_error : forall sup p code msg,
  (code = INVALID_PARAMS /\ says_protocol_version msg = true /\
   on_answer sup p (AError code msg) = VersionMismatch)
  \/ (~ (code = INVALID_PARAMS /\ says_protocol_version msg = true) /\
      is_retryable_error code = true /\ on_answer sup p (AError code msg) = Retryable code)
  \/ (~ (code = INVALID_PARAMS /\ says_protocol_version msg = true) /\
      is_retryable_error code = false /\ on_answer sup p (AError code msg) = NonRetryable code).
Proof.
  intros sup p code msg.
  change (on_answer sup p (AError code msg)) with
    (if (code =? INVALID_PARAMS) && says_protocol_version msg then VersionMismatch
     else if is_retryable_error code then Retryable code else NonRetryable code).
  destruct (code =? INVALID_PARAMS) eqn:Ec; destruct (says_protocol_version msg) eqn:Es; cbn [andb].
  - left. apply Z.eqb_eq in Ec. auto.
  - right. destruct (is_retryable_error code); [left | right]; repeat split; auto;
      intros [_ H]; discriminate H.
  - right. apply Z.eqb_neq in Ec.
    destruct (is_retryable_error code); [left | right]; repeat split; auto; intros [H _]; contradiction.
  - right. apply Z.eqb_neq in Ec.
    destruct (is_retryable_error code); [left | right]; repeat split; auto; intros [H _]; contradiction.
Qed.

Lemma on_answer_malformed : forall sup p a,
  (forall v, a <> well_formed_answer v) -> (forall code msg, a <> AError code msg) ->
  on_answer sup p a = Invalid.
Proof.
  intros sup p a Hw He. destruct a as [[[w|]|] [|]| |code msg]; cbn; try reflexivity.
  - exfalso. apply (Hw w). reflexivity.
  - exfalso. apply (He code msg). reflexivity.
Qed.

(** * The run *)

Section Run.
  Variable arg : option (list str).
  Variable pref : option str.
  Variable incoming : list inmsg.
  Variable e : ending.
  Variable nok : bool.
  Let sup := effective_supported arg.
  Let r := client_init arg pref incoming e nok.

  Lemma run_cases :
    (sup = [] /\ r = {| out := NoVersions; trace := [] |})
    \/ (exists p, propose sup pref = Some p /\ In p sup /\
        ((await incoming = None /\
          r = {| out := match e with EndSilence => Timeout | EndClosed => Closed end;
                 trace := [ESend (WInit p)] |})
         \/ (exists a, await incoming = Some a /\
             ((exists v, on_answer sup p a = Ok v /\ nok = true /\
                 r = {| out := Ok v; trace := [ESend (WInit p); ERecv; ESend WInitialized] |})
              \/ (exists v, on_answer sup p a = Ok v /\ nok = false /\
                 r = {| out := Closed; trace := [ESend (WInit p); ERecv] |})
              \/ ((forall v, on_answer sup p a <> Ok v) /\
                 r = {| out := on_answer sup p a; trace := [ESend (WInit p); ERecv] |}))))).
  Proof.
    subst r. unfold client_init. fold sup.
    destruct sup as [|x l] eqn:Esup.
    - left. split; [reflexivity|].
      assert (H : propose [] pref = None) by (apply propose_none_iff; reflexivity).
      rewrite H. reflexivity.
    - right. destruct (propose_some (x :: l) pref) as [p [Hp Hin]]; [discriminate|].
      exists p. rewrite Hp. split; [reflexivity|]. split; [exact Hin|].
      destruct (await incoming) as [a|]; [right | left; auto].
      exists a. split; [reflexivity|].
      destruct (on_answer (x :: l) p a) eqn:Eo;
        try (right; right; split; [intros v0 Hv0; discriminate | reflexivity]).
      destruct nok.
      + left. exists v. auto.
      + right; left. exists v. auto.
  Qed.

  (** first write = the proposal; there is exactly one initialize request *)
  Lemma run_first_write : sup <> [] ->
    exists p rest, propose sup pref = Some p /\ In p sup /\
      trace r = ESend (WInit p) :: rest /\ forall v, ~ In (ESend (WInit v)) rest.
  Proof.
    intro Hne. destruct run_cases as [[H _]|[p [Hp [Hin H]]]]; [contradiction|].
    exists p.
    destruct H as [[_ Hr]|[a [_ [[v [_ [_ Hr]]]|[[v [_ [_ Hr]]]|[_ Hr]]]]]]; rewrite Hr; cbn;
      eexists; (split; [exact Hp|]); (split; [exact Hin|]); (split; [reflexivity|]);
      intros w Hw; cbn in Hw; intuition discriminate.
  Qed.

  Lemma run_success_only_if_offered : forall v, out r = Ok v ->
    In v sup /\ await incoming = Some (well_formed_answer v).
  Proof.
    intros v Hv. destruct run_cases as [[_ Hr]|[p [Hp [Hin H]]]].
    - rewrite Hr in Hv. discriminate.
    - destruct H as [[_ Hr]|[a [Ha [[w [Ho [_ Hr]]]|[[w [_ [_ Hr]]]|[Hno Hr]]]]]];
        rewrite Hr in Hv; cbn in Hv.
      + destruct e; discriminate.
      + inversion Hv; subst w. apply on_answer_ok in Ho. destruct Ho as [Hshape Hacc].
        split; [apply (accepts_in sup p v Hin); exact Hacc | rewrite Ha, Hshape; reflexivity].
      + discriminate.
      + exfalso. apply (Hno v). exact Hv.
  Qed.

  Lemma run_mismatch_raises : forall v, sup <> [] ->
    await incoming = Some (well_formed_answer v) -> ~ In v sup ->
    out r = VersionMismatch /\ count_initialized (trace r) = 0%nat.
  Proof.
    intros v Hne Ha Hnin. destruct run_cases as [[H _]|[p [Hp [Hin H]]]]; [contradiction|].
    assert (Hacc : accepts sup p v = false).
    { destruct (accepts sup p v) eqn:E; [|reflexivity].
      apply (accepts_in sup p v Hin) in E. contradiction. }
    assert (Ho : on_answer sup p (well_formed_answer v) = VersionMismatch).
    { cbn. rewrite Hacc. reflexivity. }
    destruct H as [[Hnone _]|[a [Ha' H]]]; [congruence|].
    rewrite Ha in Ha'. inversion Ha'; subst a.
    destruct H as [[w [Hw _]]|[[w [Hw _]]|[_ Hr]]]; try congruence.
    rewrite Hr, Ho. split; reflexivity.
  Qed.

  Lemma run_supported_answer_succeeds : forall v, sup <> [] ->
    await incoming = Some (well_formed_answer v) -> In v sup -> nok = true ->
    out r = Ok v.
  Proof.
    intros v Hne Ha Hvin Hnok. destruct run_cases as [[H _]|[p [Hp [Hin H]]]]; [contradiction|].
    assert (Ho : on_answer sup p (well_formed_answer v) = Ok v).
    { cbn. replace (accepts sup p v) with true; [reflexivity|].
      symmetry. apply (accepts_in sup p v Hin). exact Hvin. }
    destruct H as [[Hnone _]|[a [Ha' H]]]; [congruence|].
    rewrite Ha in Ha'. inversion Ha'; subst a.
    destruct H as [[w [Hw [_ Hr]]]|[[w [_ [Hf _]]]|[Hno _]]].
    - rewrite Hr. cbn. congruence.
    - congruence.
    - exfalso. apply (Hno v). exact Ho.
  Qed.

  Lemma run_failure_never_sends_initialized :
    (forall v, out r <> Ok v) -> ~ In (ESend WInitialized) (trace r).
  Proof.
    intros Hf Hin. destruct run_cases as [[_ Hr]|[p [_ [_ H]]]].
    - rewrite Hr in Hin. exact Hin.
    - destruct H as [[_ Hr]|[a [_ [[v [_ [_ Hr]]]|[[v [_ [_ Hr]]]|[_ Hr]]]]]]; rewrite Hr in *; cbn in *.
      + intuition discriminate.
      + apply (Hf v). reflexivity.
      + intuition discriminate.
      + intuition discriminate.
  Qed.

  Lemma run_failure_count : (forall v, out r <> Ok v) -> count_initialized (trace r) = 0%nat.
  Proof.
    intros Hf. destruct run_cases as [[_ Hr]|[p [_ [_ H]]]].
    - rewrite Hr. reflexivity.
    - destruct H as [[_ Hr]|[a [_ [[v [_ [_ Hr]]]|[[v [_ [_ Hr]]]|[_ Hr]]]]]]; rewrite Hr in *; cbn in *;
        try reflexivity.
      exfalso. apply (Hf v). reflexivity.
  Qed.

  Lemma run_success_trace : forall v, out r = Ok v ->
    exists p, propose sup pref = Some p /\
      trace r = [ESend (WInit p); ERecv; ESend WInitialized].
  Proof.
    intros v Hv. destruct run_cases as [[_ Hr]|[p [Hp [_ H]]]].
    - rewrite Hr in Hv. discriminate.
    - exists p. split; [exact Hp|].
      destruct H as [[_ Hr]|[a [_ [[w [_ [_ Hr]]]|[[w [_ [_ Hr]]]|[Hno Hr]]]]]]; rewrite Hr in *; cbn in *.
      + destruct e; discriminate.
      + reflexivity.
      + discriminate.
      + exfalso. apply (Hno v). exact Hv.
  Qed.

  Lemma run_silence : sup <> [] -> await incoming = None ->
    out r = match e with EndSilence => Timeout | EndClosed => Closed end.
  Proof.
    intros Hne Hn. destruct run_cases as [[H _]|[p [_ [_ H]]]]; [contradiction|].
    destruct H as [[_ Hr]|[a [Ha _]]]; [rewrite Hr; reflexivity | congruence].
  Qed.

  Lemma run_error_answer : forall code msg, sup <> [] -> await incoming = Some (AError code msg) ->
    (out r = VersionMismatch /\ code = INVALID_PARAMS /\ says_protocol_version msg = true)
    \/ (out r = Retryable code /\ is_retryable_error code = true)
    \/ (out r = NonRetryable code /\ is_retryable_error code = false).
  Proof.
    intros code msg Hne Ha. destruct run_cases as [[H _]|[p [_ [_ H]]]]; [contradiction|].
    destruct H as [[Hn _]|[a [Ha' H]]]; [congruence|].
    rewrite Ha in Ha'. inversion Ha'; subst a.
    destruct H as [[w [Hw _]]|[[w [Hw _]]|[_ Hr]]].
    - apply on_answer_ok in Hw. destruct Hw as [Hw _]. discriminate.
    - apply on_answer_ok in Hw. destruct Hw as [Hw _]. discriminate.
    - rewrite Hr. cbn [out].
      destruct (on_answer_error sup p code msg) as [[H1 [H2 H3]]|[[_ [H2 H3]]|[_ [H2 H3]]]]; rewrite H3; auto.
  Qed.

  Lemma run_malformed_answer : forall a, sup <> [] -> await incoming = Some a ->
    (forall v, a <> well_formed_answer v) -> (forall code msg, a <> AError code msg) ->
    out r = Invalid.
  Proof.
    intros a Hne Ha Hw He. destruct run_cases as [[H _]|[p [_ [_ H]]]]; [contradiction|].
    destruct H as [[Hn _]|[a' [Ha' H]]]; [congruence|].
    rewrite Ha in Ha'. inversion Ha'; subst a'.
    pose proof (on_answer_malformed sup p a Hw He) as Hinv.
    destruct H as [[w [Hw' _]]|[[w [Hw' _]]|[_ Hr]]]; try congruence.
    rewrite Hr. exact Hinv.
  Qed.
End Run.

(** * The tracked client *)

Lemma track_success : forall st v,
  bp_version (track st (Ok v)) = Some v /\
  bp_enabled (track st (Ok v)) = supports_batching (Some v).
Proof. intros. split; reflexivity. Qed.

Lemma track_success_demanded : forall st v b,
  demanded (Some v) = Some b -> bp_enabled (track st (Ok v)) = b.
Proof.
  intros st v b H.
  change (bp_enabled (track st (Ok v))) with (supports_batching (Some v)).
  apply supports_batching_demanded. exact H.
Qed.

Lemma track_failure : forall st o, (forall v, o <> Ok v) -> track st o = st.
Proof. intros st o H. destruct o; try reflexivity. exfalso. apply (H v). reflexivity. Qed.

(** * Reflection: the boolean checker of Spec/C03.v decides the declarative spec *)

Lemma proposed_ok_iff : forall o, proposed_ok o = true <-> Spec_proposed o.
Proof.
  intro o. unfold proposed_ok, Spec_proposed. split.
  - destruct (o_inits o) as [|p [|? ?]]; try discriminate.
    intro H. apply andb_true_iff in H. destruct H as [Hin H]. apply mem_str_In in Hin.
    exists p. split; [reflexivity|]. split; [exact Hin|].
    destruct (o_preferred o) as [[|c q]|].
    + exact I.
    + destruct (mem_str (c :: q) (o_supported o)) eqn:E.
      * apply str_eqb_eq in H. split; [auto|].
        intro Hn. apply mem_str_In in E. contradiction.
      * apply option_str_eqb_eq in H. split; [|auto].
        intro Hi. apply mem_str_In in Hi. congruence.
    + apply option_str_eqb_eq in H. exact H.
  - intros [p [Hi [Hin H]]]. rewrite Hi. apply andb_true_iff.
    split; [apply mem_str_In; exact Hin|].
    destruct (o_preferred o) as [[|c q]|].
    + reflexivity.
    + destruct H as [H1 H2]. destruct (mem_str (c :: q) (o_supported o)) eqn:E.
      * apply str_eqb_eq. apply H1. apply mem_str_In. exact E.
      * apply option_str_eqb_eq. apply H2. apply mem_str_not_In. exact E.
    + apply option_str_eqb_eq. exact H.
Qed.

Lemma success_only_if_offered_ok_iff : forall o,
  success_only_if_offered_ok o = true <-> Spec_success_only_if_offered o.
Proof.
  intro o. unfold success_only_if_offered_ok, Spec_success_only_if_offered. split.
  - intros H v Hv. rewrite Hv in H. destruct (o_answer o) as [w|]; [|discriminate].
    apply andb_true_iff in H. destruct H as [H1 H2].
    apply str_eqb_eq in H1. apply mem_str_In in H2. subst. auto.
  - intro H. destruct (o_outcome o) as [v| |]; try reflexivity.
    destruct (H v eq_refl) as [Ha Hin]. rewrite Ha.
    apply andb_true_iff. split; [apply str_eqb_refl | apply mem_str_In; exact Hin].
Qed.

Lemma other_version_is_mismatch_ok_iff : forall o,
  other_version_is_mismatch_ok o = true <-> Spec_other_version_is_mismatch o.
Proof.
  intro o. unfold other_version_is_mismatch_ok, Spec_other_version_is_mismatch. split.
  - intros H v Ha Hn. rewrite Ha in H. apply orb_true_iff in H. destruct H as [H|H].
    + apply mem_str_In in H. contradiction.
    + destruct (o_outcome o); try discriminate. reflexivity.
  - intro H. destruct (o_answer o) as [v|]; [|reflexivity].
    destruct (mem_str v (o_supported o)) eqn:E; [reflexivity|].
    rewrite (H v eq_refl); [reflexivity|]. apply mem_str_not_In. exact E.
Qed.

Lemma notification_ok_iff : forall o, notification_ok o = true <-> Spec_notification o.
Proof.
  intro o. unfold notification_ok, Spec_notification.
  destruct (o_outcome o); rewrite !andb_true_iff, !Z.eqb_eq; tauto.
Qed.

Lemma tracked_ok_iff : forall o, tracked_ok o = true <-> Spec_tracked o.
Proof.
  intro o. unfold tracked_ok, Spec_tracked, decision_ok. split.
  - intros H v ver mode Hv Ht. rewrite Hv, Ht in H.
    apply andb_true_iff in H. destruct H as [H1 H2]. apply option_str_eqb_eq in H1.
    split; [exact H1|]. intros b Hb. rewrite Hb in H2. apply Bool.eqb_prop in H2. auto.
  - intro H. destruct (o_outcome o) as [v| |]; try reflexivity.
    destruct (o_tracked o) as [[ver mode]|]; [|reflexivity].
    destruct (H v ver mode eq_refl eq_refl) as [H1 H2]. apply andb_true_iff. split.
    + apply option_str_eqb_eq. exact H1.
    + destruct (demanded (Some v)) as [b|]; [|reflexivity].
      rewrite (H2 b eq_refl). apply Bool.eqb_reflx.
Qed.

Lemma c03_ok_iff : forall o, c03_ok o = true <-> Spec_C03 o.
Proof.
  intro o. unfold c03_ok, Spec_C03.
  rewrite !andb_true_iff, proposed_ok_iff, success_only_if_offered_ok_iff,
    other_version_is_mismatch_ok_iff, notification_ok_iff, tracked_ok_iff. tauto.
Qed.

(** * The model meets the specification *)

(** The observation a faithful observer would record of a model run. *)
Definition s_answer_of (incoming : list inmsg) : s_answer :=
  match await incoming with
  | Some (AResult (Some (JStr v)) true) => SVersion v
  | _ => SOther
  end.

Definition s_outcome_of (o : outcome) : s_outcome :=
  match o with
  | Ok v => SOk v
  | VersionMismatch => SMismatch
  | _ => SFailed
  end.

Fixpoint inits_of (t : list event) : list str :=
  match t with
  | [] => []
  | ESend (WInit v) :: t' => v :: inits_of t'
  | _ :: t' => inits_of t'
  end.

(** notifications before / after the point where the answer was taken *)
Fixpoint before_recv (t : list event) : list event :=
  match t with
  | [] => []
  | ERecv :: _ => []
  | x :: t' => x :: before_recv t'
  end.
Fixpoint after_recv (t : list event) : list event :=
  match t with
  | [] => []
  | ERecv :: t' => t'
  | _ :: t' => after_recv t'
  end.

Definition obs_of_run (arg : option (list str)) (pref : option str) (incoming : list inmsg)
           (st : bp) (r : run) : obs :=
  let st' := track st (out r) in
  {| o_supported := effective_supported arg;
     o_preferred := pref;
     o_answer := s_answer_of incoming;
     o_inits := inits_of (trace r);
     o_before := Z.of_nat (count_initialized (before_recv (trace r)));
     o_between := Z.of_nat (count_initialized (after_recv (trace r)));
     o_after := 0;            (* the trace ends when the call ends *)
     o_outcome := s_outcome_of (out r);
     o_tracked := Some (bp_version st', bp_enabled st') |}.

Lemma model_meets_spec : forall arg pref incoming e nok st,
  effective_supported arg <> [] ->
  Spec_C03 (obs_of_run arg pref incoming st (client_init arg pref incoming e nok)).
Proof.
  intros arg pref incoming e nok st Hne.
  set (r := client_init arg pref incoming e nok).
  set (sup := effective_supported arg) in *.
  unfold Spec_C03. split; [|split; [|split; [|split]]].
  - (* proposed *)
    destruct (run_first_write arg pref incoming e nok Hne) as [p [rest [Hp [Hin [Ht Hno]]]]].
    fold r sup in Ht, Hp, Hin. unfold Spec_proposed. cbn [o_inits o_supported o_preferred obs_of_run].
    exists p. fold sup. split; [|split; [exact Hin|]].
    + rewrite Ht. cbn. f_equal.
      assert (Hgen : forall t, (forall v, ~ In (ESend (WInit v)) t) -> inits_of t = []).
      { induction t as [|x t IH]; intro H; [reflexivity|].
        destruct x as [[v|]|]; cbn.
        - exfalso. apply (H v). left. reflexivity.
        - apply IH. intros v Hv. apply (H v). right. exact Hv.
        - apply IH. intros v Hv. apply (H v). right. exact Hv. }
      apply Hgen. exact Hno.
    + destruct pref as [[|c q]|].
      * exact I.
      * split.
        -- intro Hq. rewrite propose_preferred in Hp by (auto; discriminate). congruence.
        -- intro Hq. rewrite propose_head_not_offered in Hp by exact Hq. exact Hp.
      * exact Hp.
  - (* success only if offered *)
    intros v Hv. cbn [o_outcome obs_of_run] in Hv. cbn [o_answer o_supported obs_of_run].
    assert (Hout : out r = Ok v).
    { destruct (out r); cbn in Hv; try discriminate. inversion Hv. reflexivity. }
    destruct (run_success_only_if_offered arg pref incoming e nok v Hout) as [Hin Ha].
    split; [|exact Hin]. unfold s_answer_of. rewrite Ha. reflexivity.
  - (* other version is mismatch *)
    intros v Ha Hn. cbn [o_answer o_supported o_outcome obs_of_run] in *.
    assert (Haw : await incoming = Some (well_formed_answer v)).
    { unfold s_answer_of in Ha. destruct (await incoming) as [[[[w|]|] [|]| |code msg]|];
        try discriminate. inversion Ha. reflexivity. }
    destruct (run_mismatch_raises arg pref incoming e nok v Hne Haw Hn) as [Ho _].
    fold r in Ho. rewrite Ho. reflexivity.
  - (* notification *)
    unfold Spec_notification. cbn [o_outcome o_before o_between o_after obs_of_run].
    destruct (run_cases arg pref incoming e nok) as [[_ Hr]|[p [_ [_ H]]]]; fold r in Hr || idtac.
    + fold r in Hr. rewrite Hr. cbn. auto.
    + fold r in H.
      destruct H as [[_ Hr]|[a [_ [[v [_ [_ Hr]]]|[[v [_ [_ Hr]]]|[Hno Hr]]]]]]; rewrite Hr; cbn.
      * destruct e; cbn; auto.
      * auto.
      * auto.
      * destruct (on_answer (effective_supported arg) p a) eqn:Eo; cbn; auto.
        exfalso. apply (Hno v). reflexivity.
  - (* tracked *)
    intros v ver mode Hv Ht. cbn [o_outcome o_tracked obs_of_run] in *.
    assert (Hout : out r = Ok v).
    { destruct (out r); cbn in Hv; try discriminate Hv. inversion Hv. reflexivity. }
    rewrite Hout in Ht. inversion Ht. split; [reflexivity|].
    intros b Hb. apply (track_success_demanded st v b Hb).
Qed.

(** Reference codec round trip, part 5: the reference instantiation of the
    four codecs (Model/FastJson.v, Section Reference) satisfies the eight
    contracts of [codec_contracts], and a concrete inhabitant (floats = RFC 8259
    float tokens) for the non-vacuity Example. *)
From Coq Require Import Lia ZifyBool.
From Verif.Base Require Import Prelude JsonVal.
From Verif.Model Require Import JsonEnc FastJson.
From Verif.Spec Require Import C17.
From Verif.Proofs Require Import JsonVal JsonEncClean FastJson JsonEncRoundVal.
Open Scope Z_scope.

(** if EVERY float has a control-free text, every value has *)
Lemma float_texts_clean_all {F} (ftext : F -> str) :
  (forall f, clean (ftext f)) -> forall v : json F, float_texts_clean ftext v.
Proof.
  intros Hc. induction v using json_ind'; simpl; auto.
  - apply Hc.
  - induction H; simpl; auto.
  - induction H; simpl; auto.
Qed.

Section RefContracts.
  Variable F : Type.
  Variable ftext_o ftext_s : F -> str.
  Variable fparse : str -> option F.
  Hypothesis clean_o : forall f, clean (ftext_o f).
  Hypothesis clean_s : forall f, clean (ftext_s f).

  (** the domain: well-formed for both float formatters *)
  Definition ref_dom (v : json F) : Prop :=
    wf_value ftext_o fparse v /\ wf_value ftext_s fparse v.

  Theorem ref_codec_contracts :
    codec_contracts (ref_enc_o ftext_o) (ref_enc_s ftext_s) (ref_dec_o fparse) (ref_dec_s fparse)
                    fparse ref_dom.
  Proof.
    constructor.
    - intros i v s [Ho _] H. unfold ref_enc_o in H.
      destruct (fits64 v && Nat.leb (depth v) orjson_max_depth); [|discriminate].
      injection H as <-. apply ref_parse_render. assumption.
    - intros kw v s [_ Hs] H. unfold ref_enc_s in H. injection H as <-.
      apply ref_parse_render. assumption.
    - intros kw v _. unfold ref_enc_s. discriminate.
    - intros i v H. unfold ref_enc_o. rewrite H. reflexivity.
    - intros s v H _ Hf. unfold ref_dec_o. rewrite H, Hf. reflexivity.
    - intros s v H _. exact H.
    - intros v s H. unfold ref_enc_o in H.
      destruct (fits64 v && Nat.leb (depth v) orjson_max_depth); [|discriminate].
      injection H as <-. apply clean_single_line, render_clean, float_texts_clean_all, clean_o.
    - intros kw v s _ H. unfold ref_enc_s in H. injection H as <-.
      apply clean_single_line, render_clean, float_texts_clean_all, clean_s.
  Qed.
End RefContracts.

(** * A concrete inhabitant.  A float is an RFC 8259 number token with a
    fraction or an exponent (what the driver instance uses); the formatter is
    totalised by printing any other token as [0.0]. *)
Definition tokf_ok (t : str) : bool := json_number_ok t && float_text_ok t.
Definition tokf_text (t : str) : str := if tokf_ok t then t else [48; 46; 48].

Lemma num_chars_clean t : forallb is_num_char t = true -> clean t.
Proof.
  induction t as [|c t IH]; [constructor|]. cbn [forallb]. intros H.
  apply andb_true_iff in H. destruct H as [H1 H2]. constructor; [|apply IH; assumption].
  unfold is_num_char, is_digit in H1. lia.
Qed.

Lemma tokf_text_clean t : clean (tokf_text t).
Proof.
  unfold tokf_text, tokf_ok. destruct (json_number_ok t && float_text_ok t) eqn:E.
  - apply andb_true_iff in E. destruct E as [_ E]. unfold float_text_ok in E.
    apply andb_true_iff in E. destruct E as [E _]. apply num_chars_clean. assumption.
  - repeat constructor; lia.
Qed.

Lemma tokf_wf_float t : tokf_ok t = true -> wf_float tokf_text tok_fparse t.
Proof.
  intros H. unfold wf_float, tokf_text, tok_fparse. rewrite H.
  unfold tokf_ok in H. apply andb_true_iff in H. destruct H as [H1 H2].
  rewrite H1, H2. split; reflexivity.
Qed.

Definition tokf_dom : json str -> Prop := ref_dom str tokf_text tokf_text tok_fparse.

Theorem tokf_codec_contracts :
  codec_contracts (ref_enc_o tokf_text) (ref_enc_s tokf_text) (ref_dec_o tok_fparse)
                  (ref_dec_s tok_fparse) tok_fparse tokf_dom.
Proof. apply ref_codec_contracts; apply tokf_text_clean. Qed.

(** an object with two members: key [k, e-acute, U+1F600] mapped to the array
    [1, -2.5e-3, the string a LF b QUOTE, null, true, 2^64-1], and the empty key
    mapped to the empty object *)
Definition sample_value : json str :=
  JObj [([107; 233; 128512],
         JArr [JInt 1; JFloat [45; 50; 46; 53; 101; 45; 51]; JStr [97; 10; 98; 34]; JNull; JBool true;
               JInt 18446744073709551615]);
        ([], JObj [])].

Lemma sample_in_dom : tokf_dom sample_value.
Proof.
  assert (H : wf_value tokf_text tok_fparse sample_value).
  { unfold sample_value. cbn [wf_value fold_right fst snd].
    repeat split; try (apply tokf_wf_float; reflexivity); repeat constructor. }
  split; exact H.
Qed.

Lemma sample_in_domain : in_domain sample_value = true.
Proof. reflexivity. Qed.

(** the contracts are inhabited, by a codec that has floats, on a domain that
    contains a nested value with a float, escapes, a non-BMP character and the
    largest unsigned 64-bit integer; and on that value the wrapper, run with
    the reference codecs, does round-trip under all four backend pairs *)
Theorem contracts_nonvacuous :
  exists (F : Type) enc_o enc_s dec_o dec_s (fparse : str -> option F) (dom : json F -> Prop) (v : json F),
    codec_contracts enc_o enc_s dec_o dec_s fparse dom /\
    dom v /\ in_domain v = true /\ (2 <= depth v)%nat /\
    forall a b, exists s, dumps enc_o enc_s a kw_none v = Some s /\ loads dec_o dec_s b s = Some v.
Proof.
  exists str, (ref_enc_o tokf_text), (ref_enc_s tokf_text), (ref_dec_o tok_fparse),
    (ref_dec_s tok_fparse), tok_fparse, tokf_dom, sample_value.
  split; [exact tokf_codec_contracts|].
  split; [exact sample_in_dom|].
  split; [reflexivity|].
  split; [simpl; lia|].
  intros a b.
  destruct (wrapper_roundtrip _ _ _ _ _ _ _ tokf_codec_contracts a b kw_none sample_value
              sample_in_dom sample_in_domain) as [s [Hs Hl]].
  exists s. split; assumption.
Qed.

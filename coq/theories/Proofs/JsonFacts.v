(** Facts about Base/Json.v: decidable equality is sound and complete. *)
From Coq Require Import Lia.
From Verif.Base Require Import Prelude Json.
Open Scope Z_scope.

Lemma str_eqb_eq : forall a b, str_eqb a b = true <-> a = b.
Proof.
  induction a as [|x a IH]; destruct b as [|y b]; simpl; split; intro H; try congruence; try discriminate.
  - apply andb_true_iff in H. destruct H as [H1 H2]. apply Z.eqb_eq in H1. apply IH in H2. congruence.
  - inversion H; subst. apply andb_true_iff. split. apply Z.eqb_refl. apply IH. reflexivity.
Qed.

Lemma str_eqb_refl : forall a, str_eqb a a = true.
Proof. intro a. apply str_eqb_eq. reflexivity. Qed.

Lemma str_eqb_sym : forall a b, str_eqb a b = str_eqb b a.
Proof.
  intros a b. destruct (str_eqb a b) eqn:E.
  - apply str_eqb_eq in E. subst. symmetry. apply str_eqb_refl.
  - destruct (str_eqb b a) eqn:E'; auto. apply str_eqb_eq in E'. subst. rewrite str_eqb_refl in E. discriminate.
Qed.

Lemma str_eqb_neq : forall a b, str_eqb a b = false <-> a <> b.
Proof.
  intros a b. split; intro H.
  - intro E. apply str_eqb_eq in E. congruence.
  - destruct (str_eqb a b) eqn:E; auto. apply str_eqb_eq in E. contradiction.
Qed.

Section JsonInd.
  Variable P : json -> Prop.
  Hypothesis Hnull : P JNull.
  Hypothesis Hbool : forall b, P (JBool b).
  Hypothesis Hint : forall z, P (JInt z).
  Hypothesis Hfloat : forall t, P (JFloat t).
  Hypothesis Hstr : forall s, P (JStr s).
  Hypothesis Harr : forall l, Forall P l -> P (JArr l).
  Hypothesis Hobj : forall m, Forall (fun kv => P (snd kv)) m -> P (JObj m).

  Fixpoint json_ind' (j : json) : P j :=
    match j with
    | JNull => Hnull
    | JBool b => Hbool b
    | JInt z => Hint z
    | JFloat t => Hfloat t
    | JStr s => Hstr s
    | JArr l => Harr l ((fix go (l : list json) : Forall P l :=
                           match l with
                           | [] => Forall_nil _
                           | x :: l' => Forall_cons _ (json_ind' x) (go l')
                           end) l)
    | JObj m => Hobj m ((fix go (m : list (str * json)) : Forall (fun kv => P (snd kv)) m :=
                           match m with
                           | [] => Forall_nil _
                           | kv :: m' => Forall_cons _ (json_ind' (snd kv)) (go m')
                           end) m)
    end.
End JsonInd.

Lemma json_eqb_eq : forall a b, json_eqb a b = true <-> a = b.
Proof.
  induction a using json_ind'; intros b'; destruct b'; simpl; split; intro E;
    try discriminate; try reflexivity.
  - apply Bool.eqb_prop in E. congruence.
  - inversion E; subst. apply Bool.eqb_reflx.
  - apply Z.eqb_eq in E. congruence.
  - inversion E; subst. apply Z.eqb_refl.
  - apply str_eqb_eq in E. congruence.
  - inversion E; subst. apply str_eqb_refl.
  - apply str_eqb_eq in E. congruence.
  - inversion E; subst. apply str_eqb_refl.
  - (* arrays *)
    f_equal. revert l0 E. induction H as [|x l Hx Hl IH]; intros [|y l0] E; try discriminate; auto.
    apply andb_true_iff in E. destruct E as [E1 E2]. apply Hx in E1. apply IH in E2. congruence.
  - inversion E; subst. clear E. induction H as [|x l Hx Hl IH]; auto.
    apply andb_true_iff. split. apply Hx. reflexivity. apply IH.
  - (* objects *)
    f_equal. revert m0 E. induction H as [|[k x] m Hx Hm IH]; intros [|[k' y] m0] E; try discriminate; auto.
    apply andb_true_iff in E. destruct E as [E12 E3]. apply andb_true_iff in E12. destruct E12 as [E1 E2].
    apply str_eqb_eq in E1. simpl in Hx. apply Hx in E2. apply IH in E3. congruence.
  - inversion E; subst. clear E. induction H as [|[k x] m Hx Hm IH]; auto.
    apply andb_true_iff. split. apply andb_true_iff. split. apply str_eqb_refl. simpl in Hx. apply Hx. reflexivity. apply IH.
Qed.

Lemma json_eqb_null_l : forall x, json_eqb JNull x = true -> is_null x = true.
Proof. destruct x; simpl; auto. Qed.

Lemma mem_json_in : forall j l, mem_json j l = true -> In j l.
Proof.
  induction l as [|x l IH]; simpl; intro H; try discriminate.
  apply orb_true_iff in H. destruct H as [H|H].
  - left. symmetry. apply json_eqb_eq. exact H.
  - right. auto.
Qed.

#!/bin/bash
# Regenerate _CoqProject / Makefile from the files present and build the given
# targets (default: everything).  Full .vo build only; serialised by flock.
set -u
cd "$(dirname "$0")"
exec 9>.lock
flock 9
{ echo "-Q theories Verif"; echo "-arg -w -arg -notation-overridden,-deprecated-hint-without-locality,-deprecated-instance-without-locality"; find theories -name '*.v' ! -name '.*' | LC_ALL=C sort; } > _CoqProject.new
if ! cmp -s _CoqProject.new _CoqProject; then mv _CoqProject.new _CoqProject; coq_makefile -f _CoqProject -o Makefile >/dev/null; else rm _CoqProject.new; fi
[ -f Makefile ] || coq_makefile -f _CoqProject -o Makefile >/dev/null
timeout "${VERIF_MAKE_TIMEOUT:-900}" make -k -j"${VERIF_JOBS:-16}" "$@"

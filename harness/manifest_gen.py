#!/usr/bin/env python3
"""Regenerate /verif/MANIFEST.json from the META table of every built property
harness (harness/cXX.py).  Properties without a harness yet are listed under
not_applicable with the reason 'not built yet'."""
import ast
import json
import os

HERE = os.path.dirname(os.path.abspath(__file__))
VERIF = os.path.dirname(HERE)
ALL = [f"C{i:02d}" for i in range(1, 21)]


def meta_of(pid):
    p = os.path.join(HERE, pid.lower() + ".py")
    if not os.path.exists(p):
        return None
    tree = ast.parse(open(p, encoding="utf-8").read())
    for st in tree.body:
        if isinstance(st, ast.Assign) and len(st.targets) == 1 and getattr(st.targets[0], "id", None) == "META":
            return ast.literal_eval(st.value)
    return None


def main():
    checks, na = [], []
    for pid in ALL:
        m = meta_of(pid)
        if not m:
            na.append({"property_id": pid, "reason": "not claimed yet: the model, theorems and correspondence harness for this "
                                                      "property are not built at this commit (see DESIGN.md section 6 for the plan)"})
            continue
        checks.append({
            "property_id": pid,
            "quick_cmd": f"./check {pid} --tier quick",
            "thorough_cmd": f"./check {pid} --tier thorough",
            "evidence_file": f"/verif/evidence/{pid}.json",
            "replay_cmd_template": f"./check {pid} --replay {{path}}",
            "engine": "coq-proof+correspondence",
            "level_claimed": {"category": "proof", "text": m["level"], "design_ref": m.get("design_ref", f"DESIGN.md section 6 ({pid})")},
            "level_note": m["note"],
            "technique": m["technique"],
        })
    man = {
        "version": 1,
        "setup_cmd": "./check --setup",
        "hooks": {
            "guard": "CHUK_MCP_VERIF",
            "enable": "no hook commits are needed: every seam (anyio.open_process, httpx.AsyncClient, time.time, uuid.uuid4) is "
                      "replaced from the harness side; ./check exports CHUK_MCP_VERIF=1 for uniformity",
            "baseline_off_cmd": "cd /repo && env -u CHUK_MCP_VERIF /venv/bin/python -m pytest -ra -q -p no:cacheprovider --timeout=900 --continue-on-collection-errors",
            "source_commits": [],
            "add_only": True,
        },
        "engines": [{
            "name": "coq-proof+correspondence",
            "path": "/verif/check",
            "serves_properties": [c["property_id"] for c in checks],
            "kind_free_text": "Coq 8.16.1 theorems about Gallina models (coq/theories); models tied to /repo on every run by a fail-closed "
                              "AST translator (Gen/*.v) and by a differential correspondence run: extracted OCaml model (ExtrOcamlBasic) vs "
                              "the real code under /venv/bin/python; the extracted, proved spec checkers judge the implementation's observations",
        }],
        "checks": checks,
        "not_applicable": na,
        "notes": "Every check: translate -> full .vo build -> Print Assumptions under every property theorem -> extraction -> "
                 "correspondence + spec oracle -> verdict.  Known findings: /verif/known_findings.json.",
    }
    with open(os.path.join(VERIF, "MANIFEST.json"), "w", encoding="utf-8") as f:
        json.dump(man, f, indent=1)
        f.write("\n")
    print(f"MANIFEST.json: {len(checks)} checks, {len(na)} not claimed")


if __name__ == "__main__":
    main()

"""C14 — deadlines, cancellation and progress behave the same under any traffic."""
from __future__ import annotations

import lib
import await_common as A
from c01 import mk, KINDS, IDS

META = {
    "level": "Proof: for EVERY arrival history (incl. bursts and floods), every cancellation time, deadline, id and every ordering of "
             "same-instant events, each possible result of the modelled send_message passes the extracted C14 checker: it ends no "
             "later than the deadline; with the token triggered at c it ends no later than c + 0.5 s — as Cancelled with exactly one "
             "cancelled notification unless the response or the deadline came first; a request cancelled before sending is never sent; "
             "the callback log is exactly the matching-token progress notifications that arrived before completion, in order. The "
             "polling interval is regenerated from send_message.py and proved <= the pinned 0.5 s. Tied to the real send_message by "
             "virtual-clock differential runs on a 10 ms grid, callbacks raising at every position.",
    "note": "Trusted: Coq kernel, translator (sub_timeout), extraction, the virtual-clock loop and anyio's cancel scopes / memory streams. "
            "Same-instant events are compared against the model's set of outcomes. The callback's own behaviour is not an input of the "
            "model (a failing callback cannot change the result): the tie runs raising callbacks.",
    "technique": "Coq proof by induction over arrival histories (trace-explanation invariant with latency clause) + virtual-time differential correspondence",
    "design_ref": "DESIGN.md section 6 (C14)",
}
GEN = ["ConstsGen.v", "ErrorsGen.v"]
TARGETS = ["Gen/ConstsGen", "Gen/ErrorsGen", "Model/Await", "Spec/C01", "Spec/C14", "Proofs/Await", "Proofs/AwaitSpec",
           "Proofs/AwaitReadable", "Props/C14"]
TRUSTED = [
    "Coq 8.16.1 kernel (coqc); coqchk in the thorough tier; vm_compute only in the non-vacuity Example",
    "axioms: none (Closed under the global context for every C14 theorem)",
    "translator: sub_timeout (send_message.py) -> Gen/ConstsGen.v (template: one fail_after(sub_timeout), not overridden by send_message)",
    "hand-written model Model/Await.v, tied by the correspondence run",
    "extraction ExtrOcamlBasic only; ocaml/main.ml text<->sexp",
    "modelled, not verified: anyio cancel scopes / memory streams, asyncio timer ordering (virtual loop harness/vloop.py)",
]
ASSUME = ["arrivals are time-ordered; processing a message and running the callback take no virtual time",
          "events at exactly the same instant may be ordered either way (the model returns all possible results)"]


PARAM_SHAPES = (None, {}, {"a": {"b": [1, None, " "]}, "n": None},
                {"_meta": {"traceparent": "00-ab-01", "tenant": 7}, "x": 1},          # the caller's own _meta entries must survive
                {"_meta": {"progressToken": "stale-token", "k": None}, "y": [None]},  # a dict reused from an earlier call
                {"_meta": {}},
                {"n": 2 ** 64, "deep": [{"m": -(2 ** 70)}], "f": 1e300, "z": None})    # integers of any size are given, hence written, exactly


def gen(ctx):
    rng = ctx.rng
    out = []
    # 1. placements of {cancel, response, deadline} on the 10 ms grid around poll boundaries
    window = list(range(-1, 3)) + list(range(47, 54)) + list(range(97, 104)) + [75, 149, 150, 151]
    Ds = [100, 120, 150, 6000]
    step = 1 if (ctx.thorough or ctx.escalated) else 3
    for D in Ds:
        for ci, c in enumerate(window):
            for ri, r in enumerate([None] + window):
                if (ci + ri) % step:
                    continue
                for traffic in ("none", "burst", "flood"):
                    arr = []
                    if traffic == "burst":
                        arr += [(t, ("notif",)) for t in (c - 1, c, c, c + 1) if t > -2]
                    elif traffic == "flood":
                        arr += [(t, ("notif",)) for t in range(1, min(D, 160) + 3)]
                    if r is not None:
                        arr.append((r, ("res", ("me",), 7)))
                    arr.sort(key=lambda x: x[0])
                    out.append({"D": D, "me": "a", "cancel": c, "arrivals": arr, "has_cb": False})
    # 2. deadline under traffic, no token
    for D in (60, 100, 101, 130):
        for traffic in ("none", "flood", "late-answer", "answer-at-deadline"):
            arr = []
            if traffic == "flood":
                arr = [(t, mk(KINDS[t % len(KINDS)][0:2] if False else ("notif",), "a", t)) for t in range(1, D + 5)]
            if traffic == "late-answer":
                arr = [(D + 1, ("res", ("me",), 1))]
            if traffic == "answer-at-deadline":
                arr = [(D - 1, ("notif",)), (D, ("res", ("me",), 1))]
            out.append({"D": D, "me": "a", "cancel": None, "arrivals": arr, "has_cb": False})
    # 2b. degenerate deadlines: a timeout of exactly 0 (and of one tick) is a deadline like any other
    for D in (0, 1):
        for arr in ([], [(-1, ("res", ("me",), 1))], [(0, ("res", ("me",), 1))], [(1, ("res", ("me",), 1))], [(30, ("res", ("me",), 1))],
                    [(2, ("notif",)), (40, ("res", ("me",), 1))]):
            out.append({"D": D, "me": "a", "cancel": None, "arrivals": arr, "has_cb": False})
    # 3. progress streams: matching / foreign tokens, missing fields (val 0), callback raising at each position
    for n in (1, 2, 3, 5):
        for raise_at in [None] + list(range(n)):
            for end in ("res", "err", "timeout", "cancel"):
                arr = []
                t = 3
                for i in range(n):
                    arr.append((t, ("prog", True, i)))       # val 0 = no progress field
                    arr.append((t, ("prog", False, 50 + i)))
                    t += rng.choice((0, 1, 25, 50))
                cancel = None
                if end == "res":
                    arr.append((t, ("res", ("me",), 9)))
                    arr.append((t, ("prog", True, 6)))        # after completion: never handled
                elif end == "err":
                    arr.append((t, ("err", ("me",), -32603, None)))
                elif end == "cancel":
                    cancel = t
                out.append({"D": 400, "me": rng.choice(IDS), "cancel": cancel, "arrivals": arr, "has_cb": True,
                            "cb_raise": set() if raise_at is None else {raise_at}})
                # the same history without a callback: nothing is consumed, nothing is called
                out.append({"D": 400, "me": "a", "cancel": cancel, "arrivals": arr, "has_cb": False})
    # 3b. progress values that are NOT strictly increasing: repeated, decreasing, missing field (0) after others
    for vals in ([1, 1], [2, 1], [1, 0], [4, 4, 4], [1, 2, 2, 3], [3, 2, 1, 0], [0, 0], [5, 1, 5], [6, 0, 6]):
        for spacing in (0, 1, 50):
            arr, t = [], 3
            for v in vals:
                arr.append((t, ("prog", True, v)))
                t += spacing
            arr.append((t, ("res", ("me",), 9)))
            out.append({"D": 800, "me": "a", "cancel": None, "arrivals": arr, "has_cb": True})
    # 3c. the callback is any callable of the documented type Callable[..., Awaitable[None]], not necessarily an `async def`
    for shape in ("lambda", "callable-object", "decorated", "partial"):
        for raise_at in (None, 1):
            arr = [(3, ("prog", True, 1)), (4, ("prog", False, 51)), (30, ("prog", True, 4)), (60, ("prog", True, 5)),
                   (70, ("res", ("me",), 9))]
            out.append({"D": 400, "me": "a", "cancel": None, "arrivals": arr, "has_cb": True, "cb_shape": shape,
                        "cb_raise": set() if raise_at is None else {raise_at}})
    # 3d. WHAT a failing callback raises: any Exception subclass, also the library's own (a callback that forwards the update
    # with a nested send_message fails with the nested request's CancelledError / RetryableError / TimeoutError)
    for exc in ("lib-cancelled", "lib-retryable", "lib-nonretryable", "timeout", "keyerror"):
        for raise_at in (0, 1, 2):
            for cancel in (None, 40):
                arr = [(3, ("prog", True, 1)), (30, ("prog", True, 4)), (60, ("prog", True, 5)), (70, ("res", ("me",), 9))]
                out.append({"D": 400, "me": "a", "cancel": cancel, "arrivals": arr, "has_cb": True, "cb_exc": exc,
                            "cb_raise": {raise_at}})
    # 4. seeded mixtures
    for _ in range(ctx.budget(1500, 40000)):
        D = rng.choice((60, 100, 137, 250, 1000))
        me = rng.choice(IDS)
        L = rng.choice((0, 1, 3, 6, 12, 60))
        hot = [0, 49, 50, 51, 99, 100, 101, D - 1, D, D + 1]
        c = rng.choice([None, rng.choice(hot), rng.randrange(-3, D + 20), rng.randrange(-3, D + 20)])
        if c is not None and rng.random() < 0.3:
            hot.append(c)
            hot.append(c + 50)
        ts = sorted((rng.choice(hot) if rng.random() < 0.5 else rng.randrange(-2, D + 30)) for _ in range(L))
        has_cb = rng.random() < 0.5
        arr = [(t, mk(rng.choice(KINDS), me, i)) for i, t in enumerate(ts)]
        out.append({"D": D, "me": me, "cancel": c, "arrivals": arr, "has_cb": has_cb,
                    "params": rng.choice(PARAM_SHAPES),
                    "cb_raise": {rng.randrange(0, 4)} if has_cb and rng.random() < 0.4 else set()})
    # one cancellation token shared by several requests (a caller cancelling a group): every request owes its own notification
    for nsib in (1, 2):
        for c in (30, 50, 77):
            for arr in ([], [(10, ("notif",))], [(60, ("res", ("me",), 5))]):
                out.append({"D": 300, "me": "a", "cancel": c, "has_cb": False, "siblings": nsib, "arrivals": list(arr)})
    # every params shape under a progress stream: the callback must fire for the token the REQUEST carries
    for shape in PARAM_SHAPES:
        out.append({"D": 200, "me": "a", "cancel": None, "has_cb": True, "params": shape,
                    "arrivals": [(10, ("prog", True, 1)), (20, ("prog", False, 2)), (60, ("prog", True, 3)), (70, ("res", ("me",), 9))]})
    for s in out:
        s.setdefault("params", None)
        s.setdefault("cb_raise", set())
        s["arrivals"] = [(t, m) for t, m in s["arrivals"]]
    return out


def explore(ctx, model, spec):
    scs = gen(ctx)
    for sc in scs:
        ctx.count("cancel:" + ("none" if sc["cancel"] is None else "before-send" if sc["cancel"] < 0 else
                               "on-boundary" if sc["cancel"] % 50 == 0 else "mid-interval"))
        ctx.count("traffic:" + ("none" if not sc["arrivals"] else "flood" if len(sc["arrivals"]) > 50 else "some"))
        ctx.count("callback:" + ("raising" if sc["cb_raise"] else "plain" if sc["has_cb"] else "absent"))
    runs = A.check_scenarios(ctx, scs, model, spec, {"c14", "c01"})
    for sc, obs in runs:
        if obs["out"]:
            ctx.count("outcome:" + obs["out"][0])
    # a failing callback does not disturb the request: same observation with and without the failure
    pairs = [sc for sc in scs if sc["cb_raise"]][: ctx.budget(150, 2000)]
    for sc in pairs:
        plain = dict(sc)
        plain["cb_raise"] = set()
        o1, p1 = A.observe(sc, A.run_scenario(sc))
        o2, p2 = A.observe(plain, A.run_scenario(plain))
        ctx.spec_total += 1
        if o1 != o2:
            ctx.spec_violation("failing-callback-disturbs-request", A.scenario_case(sc), f"with failure {o1}, without {o2}")


async def _blocked_write(D, cancel_at, has_response_at):
    """The peer took the request and then stops reading, and the write stream has no buffer: the cancelled notification cannot
    be handed over.  Whatever else happens, the call must be over by its deadline.  (A watchdog resumes the peer well after the
    deadline so that a call that ignores even cancellation from outside still comes back to be judged.)"""
    import asyncio
    import importlib
    import anyio
    sm = importlib.import_module("chuk_mcp.protocol.messages.send_message")
    in_send, in_recv = anyio.create_memory_object_stream(1000)
    out_send, out_recv = anyio.create_memory_object_stream(0)
    tok = sm.CancellationToken()
    loop = asyncio.get_running_loop()
    t0 = loop.time()
    TICK = A.TICK
    res = {}

    async def peer():
        req = await out_recv.receive()
        if has_response_at is not None:
            await anyio.sleep(max(0.0, t0 + has_response_at * TICK - loop.time()))
            in_send.send_nowait(A.build_message(("res", ("me",), 7), req.id, None))
        await anyio.sleep(max(0.0, t0 + (D + 300) * TICK - loop.time()))
        while True:                     # the watchdog: start reading again
            await out_recv.receive()

    async def canceller():
        await anyio.sleep(cancel_at * TICK)
        tok.cancel()

    async with anyio.create_task_group() as tg:
        tg.start_soon(peer)
        tg.start_soon(canceller)
        try:
            await sm.send_message(in_recv, out_send, "tools/call", None, timeout=D * TICK, message_id="bp", cancellation_token=tok)
            res["out"] = "returned"
        except TimeoutError:
            res["out"] = "timeout"
        except sm.CancelledError:
            res["out"] = "cancelled"
        except Exception as e:          # noqa: BLE001
            res["out"] = "exc:" + type(e).__name__
        res["end"] = round((loop.time() - t0) / TICK, 3)
        tg.cancel_scope.cancel()
    return res


async def _overlap(d_long, d_short, start_short, cancel_short):
    """Two requests outstanding on ONE (read, write) pair, no traffic: each has its OWN deadline, counted from its own call,
    and its own cancellation latency - a long request ahead does not postpone either."""
    import asyncio
    import importlib
    import anyio
    sm = importlib.import_module("chuk_mcp.protocol.messages.send_message")
    in_send, in_recv = anyio.create_memory_object_stream(1000)
    out_send, out_recv = anyio.create_memory_object_stream(1000)
    loop = asyncio.get_running_loop()
    t0 = loop.time()
    TICK = A.TICK
    res = {}
    tok = sm.CancellationToken() if cancel_short is not None else None

    async def call(name, D, delay, token):
        await anyio.sleep(delay * TICK)
        t_call = loop.time()
        try:
            await sm.send_message(in_recv, out_send, "tools/call", None, timeout=D * TICK, message_id=name, cancellation_token=token)
            out = "returned"
        except TimeoutError:
            out = "timeout"
        except sm.CancelledError:
            out = "cancelled"
        except Exception as e:          # noqa: BLE001
            out = "exc:" + type(e).__name__
        res[name] = (out, round((loop.time() - t_call) / TICK, 2))

    async def canceller():
        await anyio.sleep(cancel_short * TICK)
        tok.cancel()

    async with anyio.create_task_group() as tg:
        tg.start_soon(call, "long", d_long, 0, None)
        tg.start_soon(call, "short", d_short, start_short, tok)
        if tok is not None:
            tg.start_soon(canceller)
    return res


def check_overlapping_requests(ctx):
    from vloop import vrun
    for d_long, d_short, start, cancel in ((300, 50, 10, None), (300, 100, 0, None), (200, 60, 75, None), (300, 200, 10, 60),
                                           (300, 200, 10, 35)):
        r = vrun(_overlap, d_long, d_short, start, cancel)
        case = {"two_requests_on_one_pair": True, "long_timeout": d_long, "short_timeout": d_short, "short_starts_at": start,
                "short_cancelled_at": cancel}
        ctx.case(case, nontrivial=True)
        ctx.count("overlap:" + ("cancelled" if cancel is not None else "deadline"))
        out, took = r["short"]
        ctx.spec_total += 1
        limit = d_short if cancel is None else min(d_short, (cancel - start) + 50)
        want = "timeout" if cancel is None else "cancelled"
        if took > limit + 0.5 or out != want:
            ctx.spec_violation("deadline-or-cancellation-postponed-by-another-request-on-the-pair", case,
                               f"the short request ended with {out} {took} ticks after it was issued (limit {limit}); the long one: {r['long']}")
        ctx.spec_total += 1
        if r["long"][1] > d_long + 0.5:
            ctx.spec_violation("ended-after-deadline:two-requests-on-one-pair", case, f"the long request: {r['long']}")


def check_blocked_write(ctx):
    from vloop import vrun
    for D in (100, 120):
        for cancel_at in (1, 20, 49, 50, 51, 99):
            for resp in (None, 60):
                r = vrun(_blocked_write, D, cancel_at, resp)
                case = {"write_stream": "no buffer, peer stops reading after the request", "D": D, "cancel": cancel_at,
                        "response_at": resp}
                ctx.case(case, nontrivial=True)
                ctx.count("blocked-write:" + r["out"])
                ctx.spec_total += 1
                if r["end"] > D + 0.5:
                    ctx.spec_violation("ended-after-deadline:cancelled-notification-could-not-be-written", case,
                                       f"deadline {D} ticks, the call came back at {r['end']} ticks with {r['out']}")


def run(ctx):
    lib.standard_obligations(ctx, GEN, TARGETS)
    spec = lib.Driver("AwaitSpec")
    try:
        model = lib.Driver("Await")
        ctx.oblige("build:driver-model(Await)", True)
    except lib.HarnessError as e:
        model = None
        ctx.oblige("build:driver-model(Await)", False, str(e)[-600:])
    if ctx.broken_obligations:
        ctx.escalated = True
    explore(ctx, model, spec)
    if ctx.corr_mismatch and not ctx.escalated and not ctx.spec_fail:
        ctx.escalated = True
        explore(ctx, model, spec)
    check_blocked_write(ctx)
    check_overlapping_requests(ctx)
    if ctx.thorough:
        lib.coqchk(ctx, "C14")
    ctx.rule = ("real send_message under a virtual clock: placements of cancel x response on the 10 ms grid in windows around t=0, 0.5 s, "
                "1.0 s, 1.5 s x 4 deadlines x traffic {none, burst around the cancel, flood every tick} (every 3rd placement in quick, "
                "all in thorough); deadline under flood / late answer / answer exactly at the deadline; progress streams with "
                "matching/foreign tokens, missing fields and the callback raising at each position, with and without callback; seeded "
                "mixtures; plus with/without-failure pairs; a write stream without buffer whose peer stops reading after the request (the "
                "cancelled notification cannot be written): the deadline still holds. distinct = distinct scenario dicts; non-trivial = has arrivals or a token")
    return lib.finish(ctx, TRUSTED, ASSUME)


def replay(ctx, data):
    _c = data.get("case") or {}
    if _c.get("two_requests_on_one_pair"):
        check_overlapping_requests(ctx)
        for f in ctx.spec_fail:
            print("REPRODUCED", f["class"], f["detail"][:300])
        return 1 if ctx.spec_fail else 0
    if "write_stream" in _c:
        from vloop import vrun
        r = vrun(_blocked_write, _c["D"], _c["cancel"], _c["response_at"])
        print("deadline", _c["D"], "ticks; the call came back at", r["end"], "ticks with", r["out"])
        if r["end"] > _c["D"] + 0.5:
            print("REPRODUCED", data.get("class"))
        return 1 if r["end"] > _c["D"] + 0.5 else 0
    spec = lib.Driver("AwaitSpec")
    sc = A.case_to_scenario(data["case"])
    A.check_scenarios(ctx, [sc], None, spec, {"c14", "c01"})
    for f in ctx.spec_fail:
        print("REPRODUCED", f["class"], f["detail"])
    return 1 if ctx.spec_fail else 0

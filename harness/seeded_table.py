#!/usr/bin/env python3
"""Print the markdown table of seeded property-breaking changes (seeded/*/meta.json) for DESIGN.md section 11."""
import glob
import json
import os
import re

rows = []
for d in sorted(glob.glob("/verif/seeded/*/meta.json")):
    m = json.load(open(d, encoding="utf-8"))
    sid = os.path.basename(os.path.dirname(d))
    oc = m.get("our_check", {})
    classes = []
    for v in oc.get("violation_lines", []):
        x = re.search(r"replay=\S*?(C\d\d-[^ ]+)\.json( no-failing-input-found)?", v)
        if x:
            classes.append(x.group(1).split("-", 1)[1] + (" (no-failing-input-found)" if x.group(2) else ""))
    broken = [re.sub(r".*BROKEN obligation ([^:]+:[^:]+):.*", r"\1", b) for b in oc.get("broken_obligations", [])]
    caught = ("; ".join(classes[:4]) + (" …" if len(classes) > 4 else "")) if oc.get("detected") else "**missed**"
    if not oc.get("detected") and m.get("reported_by_other_checks"):
        caught = "**missed by its own check**; reported by " + ", ".join(m["reported_by_other_checks"])
    if broken:
        caught += " + broken obligations (" + ", ".join(sorted(set(broken))[:2]) + ")"
    note = m.get("note", "")
    summ = (m.get("summary") or "").replace("|", "/").replace("\n", " ")
    needs = (m.get("needs") or "").replace("|", "/").replace("\n", " ")
    rows.append((sid, summ[:260], needs[:220], caught, note[:260]))
print("| seeded change | what it does | needs, to manifest | reported by `./check` as | remark |")
print("|---|---|---|---|---|")
for r in rows:
    print("| " + " | ".join(r) + " |")
print(f"\n{len(rows)} changes; every one compiles and passes the 1273 pinned tests "
      f"(confirmed by `harness/seedtest.sh --suite`), its demo passes on /repo and fails with the change.")

# --inject: rewrite the block between the markers in DESIGN.md
import sys
if "--inject" in sys.argv:
    import io
    lines = ["| seeded change | what it does | needs, to manifest | reported by `./check` as | remark |", "|---|---|---|---|---|"]
    lines += ["| " + " | ".join(r) + " |" for r in rows]
    lines.append("")
    lines.append(f"{len(rows)} changes; detected: {sum(1 for r in rows if '**missed**' not in r[3])}.")
    p = "/verif/DESIGN.md"
    s = open(p, encoding="utf-8").read()
    a, b = "<!-- SEEDED-TABLE-BEGIN -->", "<!-- SEEDED-TABLE-END -->"
    i, j = s.index(a) + len(a), s.index(b)
    open(p, "w", encoding="utf-8").write(s[:i] + "\n" + "\n".join(lines) + "\n" + s[j:])

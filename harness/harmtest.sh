#!/bin/bash
# harmtest.sh <property-id> <dir> [--suite] [extra check ids...]
# A behaviour-preserving change (dir/patch.diff, optional dir/probe.py) is applied in a scratch worktree of /repo; the probe
# must print the same line on both trees; then ./check <id> (and any extra ids) runs against the changed tree: it must stay SILENT.
set -u
PID="$1"; SD="$(readlink -f "$2")"; shift 2
SUITE=""; [ "${1:-}" = "--suite" ] && { SUITE=1; shift; }
WT="/tmp/harmwt-$PID-$$"
git -C /repo worktree add -q --detach "$WT" HEAD || exit 2
export VERIF_WORK="/var/tmp/verif-work/harm-$PID-$$"
trap 'git -C /repo worktree remove --force "$WT" >/dev/null 2>&1; rm -rf "$VERIF_WORK"' EXIT
P="n/a"
[ -f "$SD/probe.py" ] && a="$(cd /var/tmp && PYTHONPATH="$WT/src" PYTHONHASHSEED=0 timeout 300 /venv/bin/python "$SD/probe.py" 2>/dev/null | tail -1 | sha1sum)"
if ! git -C "$WT" apply "$SD/patch.diff"; then echo "RESULT $PID $SD patch-does-not-apply"; exit 3; fi
if [ -f "$SD/probe.py" ]; then
  b="$(cd /var/tmp && PYTHONPATH="$WT/src" PYTHONHASHSEED=0 timeout 300 /venv/bin/python "$SD/probe.py" 2>/dev/null | tail -1 | sha1sum)"
  [ "$a" = "$b" ] && P="identical" || P="DIFFERS"
fi
S="skipped"
if [ -n "$SUITE" ]; then
  S="$(cd "$WT" && PYTHONPATH="$WT/src" /venv/bin/python -m pytest -q -p no:cacheprovider --timeout=900 2>&1 | tail -1)"
fi
mkdir -p "$VERIF_WORK/evidence" "$VERIF_WORK/replays"
( flock 7; rsync -a --exclude .lock /verif/coq /verif/ocaml "$VERIF_WORK/" ) 7>/verif/coq/.lock
for id in "$PID" "$@"; do
  cd /verif && VERIF_REPO="$WT" ./check "$id" > /tmp/harm-check-$$ 2>&1; C=$?
  V="$(grep -c '^VIOLATION' /tmp/harm-check-$$)"
  echo "RESULT $id $SD probe=$P suite=[$S] check_exit=$C violations=$V"
  grep '^VIOLATION\|BROKEN\|DISAGREEMENT\|HARNESS' /tmp/harm-check-$$ | cut -c1-300 | head -8
done
mkdir -p /var/tmp/logs/harm/replays; cp "$VERIF_WORK"/replays/*.json /var/tmp/logs/harm/replays/ 2>/dev/null
rm -f /tmp/harm-check-$$

"""Worker for C02: runs the REAL library's emitters, serialisers and parser under ONE validation back end.

Started twice by harness/c02.py under /venv/bin/python with PYTHONPATH=$VERIF_REPO/src: once as is (Pydantic) and
once with MCP_FORCE_FALLBACK=1.  argv: <case file> <result file>.

For every case it reports what the emitter produced (or that it raised), and for every emitted object
  * the wire forms, serialised exactly as the transports do
      stdio : model_dump_json(exclude_none=True)        (stdio_client.py _stdin_writer; a dict goes through fast_json.dumps)
              decoded the way the stdio reader decodes a line (fast_json.loads)
      post  : model_dump(exclude_none=True) handed to httpx as json=   (http/transport.py, sse/transport.py)
              decoded with json.loads
    and, for the cases flagged "drive", the bytes the three REAL transports put on the wire for that object
    (StdioClient._stdin_writer over a fake child, StreamableHTTPTransport._send_message_internal and
    SSETransport._send_message_via_http over httpx.MockTransport);
  * what the library's own parse_message makes of each wire form: class, kind (the class for the typed envelopes,
    is_request / is_notification / is_response / is_error_response for the unified class), id, method, params,
    result, error (declared attributes only).
It also imports nothing from the harness except fakeproc (the scripted child process).
"""
from __future__ import annotations

import asyncio
import copy
import importlib
import inspect
import json
import logging
import os
import pkgutil
import sys

logging.disable(logging.CRITICAL)
sys.path.insert(0, os.path.dirname(os.path.abspath(__file__)))

import anyio  # noqa: E402
import httpx  # noqa: E402

from chuk_mcp.protocol import mcp_pydantic_base as B  # noqa: E402
from chuk_mcp.protocol import fast_json as FJ  # noqa: E402
from chuk_mcp.protocol.messages import json_rpc_message as J  # noqa: E402

Base = B.McpPydanticBase
MSGS = "chuk_mcp.protocol.messages"


# --------------------------------------------------------------------------- #
# Inventory (introspection)
# --------------------------------------------------------------------------- #
def _params(f):
    out = []
    for p in inspect.signature(f).parameters.values():
        if p.name in ("self", "cls"):
            continue
        out.append({"name": p.name, "required": p.default is inspect._empty and p.kind not in (p.VAR_KEYWORD, p.VAR_POSITIONAL)})
    return out


def discover():
    """Every emitter the package offers, found by walking it (so a new one is picked up)."""
    inv = {"ctor": [], "unified_ctor": [], "helpers": [], "request_handlers": [], "batch_methods": [], "jsonrpc_literal_sites": []}
    for n, f in sorted(vars(J).items()):
        if n.startswith("create_") and inspect.isfunction(f) and f.__module__ == J.__name__:
            inv["ctor"].append({"name": n, "params": _params(f)})
    for n, f in sorted(vars(J.JSONRPCMessage).items()):
        if n.startswith("create_") and isinstance(f, classmethod):
            inv["unified_ctor"].append({"name": n, "params": _params(getattr(J.JSONRPCMessage, n))})
    M = importlib.import_module(MSGS)
    seen = set()
    for mi in pkgutil.walk_packages(M.__path__, M.__name__ + "."):
        mod = importlib.import_module(mi.name)
        for n, f in sorted(vars(mod).items()):
            if not (inspect.iscoroutinefunction(f) and getattr(f, "__module__", None) == mod.__name__):
                continue
            ps = _params(f)
            names = {p["name"] for p in ps}
            if n.startswith("send_") and "write_stream" in names:
                inv["helpers"].append({"name": n, "module": mod.__name__, "params": ps})
            elif n.startswith("handle_") and n.endswith("_request") and (mod.__name__, n) not in seen:
                inv["request_handlers"].append({"name": n, "module": mod.__name__, "params": ps})
            seen.add((mod.__name__, n))
    from chuk_mcp.protocol.features.batching import BatchProcessor
    for n, f in sorted(vars(BatchProcessor).items()):
        if n.startswith("create_") and inspect.isfunction(f):
            inv["batch_methods"].append({"name": n, "params": _params(f)})
    # every place in the package that writes a JSON-RPC object literal (a crude completeness cross-check)
    import ast
    import chuk_mcp
    root = os.path.dirname(chuk_mcp.__file__)
    for dp, _dn, fns in os.walk(root):
        for fn in sorted(fns):
            if not fn.endswith(".py"):
                continue
            path = os.path.join(dp, fn)
            try:
                tree = ast.parse(open(path, encoding="utf-8").read())
            except SyntaxError:
                continue
            k = sum(1 for node in ast.walk(tree) if isinstance(node, ast.Dict)
                    and any(isinstance(x, ast.Constant) and x.value == "jsonrpc" for x in node.keys))
            if k:
                inv["jsonrpc_literal_sites"].append({"file": os.path.relpath(path, root), "dict_literals": k})
    inv["jsonrpc_literal_sites"].sort(key=lambda d: d["file"])
    return inv


# --------------------------------------------------------------------------- #
# Observations
# --------------------------------------------------------------------------- #
def jval(x):
    """A value that is going back to the harness as JSON: only JSON types pass unchanged."""
    if x is None or isinstance(x, (bool, int, str)):
        return x
    if isinstance(x, float):
        if x != x or x in (float("inf"), float("-inf")):
            return {"$nonjson": repr(x)}
        return x
    if isinstance(x, (list, tuple)):
        return [jval(i) for i in x]
    if isinstance(x, dict):
        return {(k if isinstance(k, str) else "$key:" + repr(k)): jval(v) for k, v in x.items()}
    return {"$nonjson": type(x).__name__}


def declared(o):
    t = type(o)
    if B.PYDANTIC_AVAILABLE:
        return set(t.model_fields)
    return set(getattr(t, "__model_fields__", {}))


def kind_of(o):
    n = type(o).__name__
    if n == "JSONRPCRequest":
        return "req"
    if n == "JSONRPCNotification":
        return "notif"
    if n == "JSONRPCResponse":
        return "res"
    if n == "JSONRPCError":
        return "err"
    if n == "JSONRPCMessage":
        # the library's own predicates; a message must satisfy exactly one of request / notification / response
        flags = [bool(o.is_request()), bool(o.is_notification()), bool(o.is_response())]
        if sum(flags) != 1:
            return None
        if flags[0]:
            return "req"
        if flags[1]:
            return "notif"
        return "err" if o.is_error_response() else "res"
    return None


def view_obj(o):
    """The six compared positions of a typed envelope object (declared attributes only)."""
    names = declared(o)

    def g(n):
        return jval(getattr(o, n, None)) if n in names else None
    i = getattr(o, "id", None) if "id" in names else None
    if not (i is None or type(i) is int or type(i) is str):
        i = {"$badid": repr(i)}
    return {"cls": type(o).__name__, "kind": kind_of(o), "id": i, "method": g("method"), "params": g("params"),
            "result": g("result"), "error": g("error")}


def canon_text(v):
    return json.dumps(v, sort_keys=True, ensure_ascii=True)


def parse_view(wire):
    try:
        r = J.parse_message(wire)
    except BaseException as e:  # noqa: BLE001
        if isinstance(e, (KeyboardInterrupt, SystemExit)):
            raise
        return {"raised": type(e).__name__, "msg": str(e)[:120]}
    if isinstance(r, list):
        return {"list": len(r)}
    if not isinstance(r, Base):
        return {"raised": "NotAMessage:" + type(r).__name__}
    return {"view": view_obj(r)}


def httpx_json_bytes(obj):
    return httpx.Request("POST", "http://mcp.test/x", json=obj).content


def wire_forms(o):
    """{name: decoded wire value | {"$fail": exc}} for the transport expressions."""
    out = {}

    def attempt(name, f):
        try:
            out[name] = {"value": jval(f())}
        except BaseException as e:  # noqa: BLE001
            if isinstance(e, (KeyboardInterrupt, SystemExit)):
                raise
            out[name] = {"fail": type(e).__name__ + ": " + str(e)[:100]}
    if isinstance(o, (bytes, bytearray)):
        attempt("stdio-bytes", lambda: FJ.loads(bytes(o).decode("utf-8").strip()))
        return out
    if isinstance(o, dict):
        attempt("stdio", lambda: FJ.loads(FJ.dumps(o)))
        attempt("post", lambda: json.loads(httpx_json_bytes(o)))
        return out
    mdj = getattr(o, "model_dump_json", None)
    if mdj is not None:
        attempt("stdio", lambda: FJ.loads(mdj(exclude_none=True)))
    else:
        attempt("stdio", lambda: FJ.loads(FJ.dumps(o.model_dump(exclude_none=True))))
    attempt("post", lambda: json.loads(httpx_json_bytes(o.model_dump(exclude_none=True))))
    return out


def describe(o, extra_wires=None):
    forms = wire_forms(o)
    for k, v in (extra_wires or {}).items():
        forms[k] = v
    groups = []
    for name, f in forms.items():
        if "fail" in f:
            groups.append({"names": [name], "fail": f["fail"]})
            continue
        t = canon_text(f["value"])
        for g in groups:
            if g.get("text") == t:
                g["names"].append(name)
                break
        else:
            groups.append({"names": [name], "text": t, "value": f["value"]})
    for g in groups:
        if "value" in g:
            g["parsed"] = parse_view(g["value"])
            del g["text"]
    d = {"py": "dict" if isinstance(o, dict) else "bytes" if isinstance(o, (bytes, bytearray)) else type(o).__name__, "wires": groups}
    if isinstance(o, Base):
        d["obj"] = view_obj(o)
    return d


# --------------------------------------------------------------------------- #
# Emitters
# --------------------------------------------------------------------------- #
def resolve(modname, name):
    return getattr(importlib.import_module(modname), name)


def build_arg(a):
    """{"$model": qualified class, "data": wire} -> a typed model; anything else unchanged (deep copy: create_request mutates)."""
    if isinstance(a, dict) and "$model" in a:
        mod, _, cls = a["$model"].rpartition(".")
        return resolve(mod, cls).model_validate(a["data"])
    if isinstance(a, list):
        return [build_arg(x) for x in a]
    return copy.deepcopy(a)


async def em_ctor(c):
    fn = getattr(J.JSONRPCMessage, c["fn"]) if c.get("unified") else getattr(J, c["fn"])
    obj = fn(**{k: build_arg(v) for k, v in c["args"].items()})
    if c.get("direct"):
        # the same fields handed to the message class itself, `jsonrpc` left to its default
        fields = {k: getattr(obj, k) for k in ("id", "method", "params", "result", "error")
                  if getattr(obj, k, None) is not None}
        obj = type(obj)(**fields)
    return [obj]


async def em_helper(c):
    fn = resolve(c["module"], c["fn"])
    kwargs = {k: build_arg(v) for k, v in c.get("kwargs", {}).items()}
    sig = inspect.signature(fn)
    out_send, out_recv = anyio.create_memory_object_stream(100)
    emitted = []
    state = {"raised": None}
    if c.get("cancelled"):
        sm = importlib.import_module(MSGS + ".send_message")
        tok = sm.CancellationToken()
        tok.cancel()
        kwargs["cancellation_token"] = tok
    if c.get("progress"):
        async def cb(*a):
            return None
        kwargs["progress_callback"] = cb
    if "read_stream" in sig.parameters:
        in_send, in_recv = anyio.create_memory_object_stream(100)
        if "timeout" in sig.parameters:
            kwargs.setdefault("timeout", 5.0)

        async def call():
            try:
                await fn(in_recv, out_send, **kwargs)
            except anyio.get_cancelled_exc_class():
                raise
            except BaseException as e:  # noqa: BLE001
                state["raised"] = type(e).__name__
            finally:
                out_send.close()
        async with anyio.create_task_group() as tg:
            tg.start_soon(call)
            with anyio.move_on_after(3.0):
                try:
                    emitted.append(await out_recv.receive())
                except anyio.EndOfStream:
                    pass
            tg.cancel_scope.cancel()
    else:
        try:
            await fn(out_send, **kwargs)
        except BaseException as e:  # noqa: BLE001
            if isinstance(e, (KeyboardInterrupt, SystemExit)):
                raise
            state["raised"] = type(e).__name__
    while True:
        try:
            emitted.append(out_recv.receive_nowait())
        except (anyio.WouldBlock, anyio.EndOfStream, anyio.ClosedResourceError):
            break
    if not emitted and state["raised"]:
        raise _Raised(state["raised"])
    return emitted


class _Raised(Exception):
    pass


_SERVER = {}


def server():
    if _SERVER:
        return _SERVER["srv"]
    from chuk_mcp.server.server import MCPServer
    srv = MCPServer("t")
    ph = srv.protocol_handler

    async def echo(**kw):
        return kw

    async def text(**kw):
        return "line\u2028sep \U0001f600"

    async def boom(**kw):
        raise RuntimeError("boom\u2028\x00")

    async def res():
        return "body\u2029"
    srv.register_tool("echo", echo, {"type": "object"}, "echo")
    srv.register_tool("text", text, {"type": "object", "properties": {"a": {"type": "null"}}}, "t\u2028")
    srv.register_tool("boom", boom, {"type": "object"})
    srv.register_resource("file:///r", res)

    async def x_echo(m, sid):           # the public response builders of the handler, with the caller's payload
        return ph.create_response(m.id, m.params), None

    async def x_raise(m, sid):
        raise ValueError("bad \u2028")

    async def x_error(m, sid):
        return ph.create_error_response(m.id, -32001, "app error"), None
    ph.register_method("x/echo", x_echo)
    ph.register_method("x/raise", x_raise)
    ph.register_method("x/error", x_error)
    _SERVER["srv"] = srv
    _SERVER["session"] = ph.session_manager.create_session({"name": "harness"}, "2025-06-18")
    return srv


async def em_server(c):
    srv = server()
    wire = copy.deepcopy(c["msg"])
    how = c.get("how", "parse")
    if how == "parse":
        msg = J.parse_message(wire)
    else:
        wire.pop("jsonrpc", None)
        msg = J.JSONRPCRequest(**wire) if "id" in wire else J.JSONRPCNotification(**wire)
    r = await srv.protocol_handler.handle_message(msg, _SERVER["session"] if c.get("session") else None)
    resp = r[0] if isinstance(r, tuple) else r
    return [] if resp is None else [resp]


async def em_request_handler(c):
    fn = resolve(c["module"], c["fn"])
    out = await fn(**{k: build_arg(v) for k, v in c["kwargs"].items()})
    return [] if out is None else [out]


async def em_batch(c):
    from chuk_mcp.protocol.features.batching import BatchProcessor
    bp = BatchProcessor(c.get("version"))
    if c["fn"] == "process_message_data":
        def handler(item):
            raise RuntimeError("handler failed \u2028")
        out = bp.process_message_data(copy.deepcopy(c["data"]), handler)
        return out if isinstance(out, list) else ([] if out is None else [out])
    return [getattr(bp, c["fn"])(**copy.deepcopy(c.get("kwargs", {})))]


async def em_elicitation(c):
    E = importlib.import_module("chuk_mcp.protocol.types.elicitation")
    if c["fn"] == "request_user_input":
        sent = []

        class Stop(Exception):
            pass

        async def send(message):
            sent.append(message)
            raise Stop()
        h = E.ElicitationHandler(send)
        try:
            await h.request_user_input(E.ElicitationParams.model_validate(copy.deepcopy(c["data"])), timeout=0.01)
        except Stop:
            pass
        return sent

    async def ui(message, schema, title=None):
        if c.get("fail"):
            raise RuntimeError("no \u2028 input")
        return copy.deepcopy(c.get("answer"))
    cl = E.ElicitationClient(ui)
    return [await cl.handle_elicitation_request(copy.deepcopy(c["msg"]))]


def new_stdio_client():
    from chuk_mcp.transports.stdio.stdio_client import StdioClient
    from chuk_mcp.transports.stdio.parameters import StdioParameters
    return StdioClient(StdioParameters(command="fake-child", args=[]))


async def em_stdio_batch_rejection(c):
    from fakeproc import FakeProcess, patched_open_process
    proc = FakeProcess()
    with patched_open_process(proc):
        client = new_stdio_client()
        async with client:
            client.batch_processor.update_protocol_version(c["version"])
            n0 = len(proc.stdin.writes)
            await client._process_message_data(copy.deepcopy(c["data"]))
            out = list(proc.stdin.writes[n0:])
            proc.stdout.close()
    return out


class _HttpxProxy:
    def __init__(self, client_cls):
        self.AsyncClient = client_cls

    def __getattr__(self, name):
        return getattr(httpx, name)


ORIG_ASYNC_CLIENT = httpx.AsyncClient


async def em_transport_synth(c):
    """The error a transport SYNTHESISES for a request answered by HTTP 500 (what it hands to its own router)."""
    msg = copy.deepcopy(c["msg"])
    routed = []

    def handler(request):
        return httpx.Response(500, content=b"internal \xe2\x80\xa8 failure")
    if c["transport"] == "http":
        import chuk_mcp.transports.http.transport as T
        from chuk_mcp.transports.http.parameters import StreamableHTTPParameters

        class Scripted(ORIG_ASYNC_CLIENT):
            def __init__(self, *a, **kw):
                kw.pop("transport", None)
                super().__init__(*a, transport=httpx.MockTransport(handler), **kw)
        saved = T.httpx
        T.httpx = _HttpxProxy(Scripted)
        try:
            tr = T.StreamableHTTPTransport(StreamableHTTPParameters(url="http://mcp.test/mcp", timeout=5.0))
            orig = tr._route_response

            async def rec(data):
                routed.append(copy.deepcopy(data))
                return await orig(data)
            tr._route_response = rec
            await tr._send_message_internal(msg)
        finally:
            T.httpx = saved
    else:
        import chuk_mcp.transports.sse.transport as T
        from chuk_mcp.transports.sse.parameters import SSEParameters
        tr = T.SSETransport(SSEParameters(url="http://mcp.test", timeout=5.0))
        tr._send_client = ORIG_ASYNC_CLIENT(transport=httpx.MockTransport(handler))
        tr._message_url = "http://mcp.test/messages"
        orig = tr._route_incoming_message

        async def rec(data):
            routed.append(copy.deepcopy(data))
            return await orig(data)
        tr._route_incoming_message = rec
        try:
            await tr._send_message_via_http(msg)
        finally:
            await tr._send_client.aclose()
    return routed


async def em_parse(c):
    return []


EMITTERS = {"ctor": em_ctor, "helper": em_helper, "server": em_server, "request_handler": em_request_handler,
            "batch": em_batch, "elicitation": em_elicitation, "stdio_batch_rejection": em_stdio_batch_rejection,
            "transport_synth": em_transport_synth, "parse": em_parse}


# --------------------------------------------------------------------------- #
# Driving the real transports' outbound paths
# --------------------------------------------------------------------------- #
async def drive_stdio(objs):
    """One write per message through the REAL _stdin_writer; returns per object the bytes written (None: nothing)."""
    from fakeproc import FakeProcess, patched_open_process
    out = []
    proc = FakeProcess()
    with patched_open_process(proc):
        client = new_stdio_client()
        async with client:
            _r, w = client.get_streams()
            for o in objs:
                n0 = len(proc.stdin.writes)
                await w.send(o)
                for _ in range(4000):
                    await anyio.sleep(0)
                    st = client._outgoing_recv.statistics()
                    if st.current_buffer_used == 0 and st.tasks_waiting_receive >= 1:
                        break
                new = proc.stdin.writes[n0:]
                out.append(b"".join(new) if new else None)
            proc.stdout.close()
    return out


async def drive_stdio_text(objs):
    """The same messages handed to the REAL stdio writer as PRE-SERIALISED JSON text the way an application may do it:
    pretty printed (line breaks inside), not ASCII-escaped, LF / CRLF / trailing newline in turn."""
    texts = []
    for k, o in enumerate(objs):
        try:
            if isinstance(o, Base):
                v = json.loads(o.model_dump_json(exclude_none=True))
            elif isinstance(o, dict):
                v = json.loads(json.dumps(o))
            else:
                texts.append(None)
                continue
            t = json.dumps(v, indent=1, ensure_ascii=False)
            texts.append([t, t.replace("\n", "\r\n"), t + "\n"][k % 3])
        except BaseException:  # noqa: BLE001
            texts.append(None)
    sent = [t for t in texts if t is not None]
    got = iter(await drive_stdio(sent)) if sent else iter(())
    return [next(got) if t is not None else None for t in texts]


async def drive_http(objs):
    import chuk_mcp.transports.http.transport as T
    from chuk_mcp.transports.http.parameters import StreamableHTTPParameters
    bodies = []

    def handler(request):
        bodies.append(bytes(request.content))
        return httpx.Response(202, content=b"")

    class Scripted(ORIG_ASYNC_CLIENT):
        def __init__(self, *a, **kw):
            kw.pop("transport", None)
            super().__init__(*a, transport=httpx.MockTransport(handler), **kw)
    saved = T.httpx
    T.httpx = _HttpxProxy(Scripted)
    out = []
    try:
        tr = T.StreamableHTTPTransport(StreamableHTTPParameters(url="http://mcp.test/mcp", timeout=5.0))
        for o in objs:
            n0 = len(bodies)
            await tr._send_message_internal(o)
            out.append(bodies[n0] if len(bodies) > n0 else None)
    finally:
        T.httpx = saved
    return out


async def drive_sse(objs):
    import chuk_mcp.transports.sse.transport as T
    from chuk_mcp.transports.sse.parameters import SSEParameters
    bodies = []

    def handler(request):
        bodies.append(bytes(request.content))
        try:
            i = json.loads(request.content).get("id")
        except Exception:  # noqa: BLE001
            i = None
        if i is None:
            return httpx.Response(202, content=b"")
        return httpx.Response(200, json={"jsonrpc": "2.0", "id": i, "result": {}})
    tr = T.SSETransport(SSEParameters(url="http://mcp.test", timeout=5.0))
    tr._send_client = ORIG_ASYNC_CLIENT(transport=httpx.MockTransport(handler))
    tr._message_url = "http://mcp.test/messages"
    out = []
    try:
        for o in objs:
            n0 = len(bodies)
            await tr._send_message_via_http(o)
            out.append(bodies[n0] if len(bodies) > n0 else None)
    finally:
        await tr._send_client.aclose()
    return out


def decode_bytes(b, how):
    if b is None:
        return {"fail": "nothing written"}
    try:
        if how.startswith("stdio"):
            if not b.endswith(b"\n") or b.count(b"\n") != 1:
                return {"fail": "not exactly one line"}
            return {"value": jval(FJ.loads(b.decode("utf-8").strip()))}
        return {"value": jval(json.loads(b))}
    except BaseException as e:  # noqa: BLE001
        return {"fail": type(e).__name__ + ": " + str(e)[:100]}


# --------------------------------------------------------------------------- #
async def run_all(cases):
    results = []
    pending = []      # (result index, emitted index, object)
    for c in cases:
        r = {"emitted": [], "raised": None}
        objs = []
        dbg = bool(c.get("debug_logging"))
        if dbg:
            # the application runs with DEBUG logging switched on (python -m chuk_mcp --verbose; a root logger at DEBUG):
            # what is LOGGED is not the property's business, what is EMITTED is
            logging.disable(logging.NOTSET)
            _root = logging.getLogger()
            _lvl = _root.level
            _root.setLevel(logging.DEBUG)
            if not any(isinstance(h, logging.NullHandler) for h in _root.handlers):
                _root.addHandler(logging.NullHandler())
        try:
            objs = await EMITTERS[c["em"]](c)
        except _Raised as e:
            r["raised"] = str(e)
        except BaseException as e:  # noqa: BLE001
            if isinstance(e, (KeyboardInterrupt, SystemExit)):
                raise
            r["raised"] = type(e).__name__
            r["raised_msg"] = str(e)[:160]
        finally:
            if dbg:
                _root.setLevel(_lvl)
                logging.disable(logging.CRITICAL)
        r["_objs"] = objs
        if c["em"] == "parse":
            r["parse"] = parse_view(copy.deepcopy(c["wire"]))
        if c.get("drive"):
            for k, o in enumerate(objs):
                if not isinstance(o, (bytes, bytearray)):
                    pending.append((len(results), k, o))
        results.append(r)
    driven = {}
    if pending:
        objs = [p[2] for p in pending]
        for name, fn in (("stdio", drive_stdio), ("stdiotext", drive_stdio_text), ("http", drive_http), ("sse", drive_sse)):
            try:
                outs = await fn(objs)
            except BaseException as e:  # noqa: BLE001
                if isinstance(e, (KeyboardInterrupt, SystemExit)):
                    raise
                outs = [None] * len(objs)
                for p in pending:
                    driven.setdefault((p[0], p[1]), {})[name + "-transport"] = {"fail": "driver: " + type(e).__name__ + ": " + str(e)[:100]}
                continue
            for p, b in zip(pending, outs):
                driven.setdefault((p[0], p[1]), {})[name + "-transport"] = decode_bytes(b, name)
    for i, r in enumerate(results):
        objs = r.pop("_objs")
        for k, o in enumerate(objs):
            r["emitted"].append(describe(o, driven.get((i, k))))
    return results


def main():
    doc = json.load(open(sys.argv[1], encoding="utf-8"))
    if doc.get("mode") == "discover":
        out = {"backend": "pydantic" if B.PYDANTIC_AVAILABLE else "fallback", "inventory": discover()}
    else:
        res = anyio.run(run_all, doc["cases"])
        out = {"backend": "pydantic" if B.PYDANTIC_AVAILABLE else "fallback",
               "forced": os.environ.get("MCP_FORCE_FALLBACK") == "1", "results": res}
    with open(sys.argv[2], "w", encoding="utf-8") as f:
        json.dump(out, f)


if __name__ == "__main__":
    main()

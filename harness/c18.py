"""C18 — concurrent requests on one connection: no cross-talk and no lost responses."""
from __future__ import annotations

import asyncio
import importlib
import itertools

import anyio

import lib
from lib import call, sx
import await_common as A
from vloop import vrun, vsleep_until

META = {
    "level": "Proof + recorded finding. Proved for EVERY number of callers and EVERY delivery log (who dequeued which object, in which "
             "order): a caller that completed holds a response that was delivered to it and bears its own id (no cross-talk; induction "
             "over the log, invariant 'justified'). The second half of the property (no lost responses) is stated in full and REFUTED "
             "on the faithful model by the two-caller witness; the strongest true restriction is proved (a waiter's outcome is the "
             "first answer bearing its id among the objects it dequeued itself), and so is where the finding does NOT reach: under the "
             "stream's FIFO wake-up discipline (Model/ConcurrentFifo.v), answers that come in the order in which the callers wait, "
             "with nothing else on the connection, all reach their callers (C18_in_request_order_nothing_lost, every number of "
             "callers). The real code exhibits the refuting schedule "
             "(known finding 'response-discarded-by-other-waiter'); any other loss or any cross-talk is a VIOLATION. Tie: 2-4 real "
             "send_message tasks on one stream pair under the virtual clock; the actual delivery log is recorded by wrapping receive "
             "streams and replayed through the extracted model.",
    "note": "Trusted: Coq kernel, translator (errors.py classifier), extraction, virtual-clock loop. The model leaves the choice of "
            "which waiter dequeues next open (all logs possible); between poll instants the wake-up order of anyio's memory stream is "
            "modelled as FIFO (fifo_log) and compared with the recorded log; what the poll instants do to the order is observed, not modelled.",
    "technique": "Coq proof by induction over delivery logs; refutation by vm-checked witness; log-replay correspondence under a virtual clock",
    "design_ref": "DESIGN.md section 6 (C18)",
}
GEN = ["ErrorsGen.v"]
TARGETS = ["Gen/ErrorsGen", "Model/Concurrent", "Model/ConcurrentFifo", "Spec/C01", "Spec/C18", "Proofs/Concurrent",
           "Proofs/ConcurrentFifo", "Props/C18"]
TRUSTED = [
    "Coq 8.16.1 kernel (coqc); coqchk in the thorough tier; vm_compute only in the Example",
    "axioms: none (Closed under the global context for every C18 theorem)",
    "translator: errors.py -> Gen/ErrorsGen.v (classifier used by the waiters)",
    "hand-written model Model/Concurrent.v (filter-and-discard waiters over a shared queue), tied by replaying the recorded delivery log",
    "hand-written model Model/ConcurrentFifo.v (the stream's FIFO wake-up discipline between poll instants: who dequeues the next "
    "object), tied by comparing fifo_log with the log recorded on the real anyio stream for every history whose arrivals precede the "
    "first poll instant",
    "extraction ExtrOcamlBasic only; ocaml/main.ml",
    "modelled, not verified: anyio memory-stream wake-up order, asyncio scheduling (virtual loop)",
]
ASSUME = ["caller ids are distinct", "the delivery log is recorded by a wrapper around read_stream.receive() (one wrapper per caller)"]
KNOWN_CLASS = "response-discarded-by-other-waiter"
IN_ORDER_CLASS = "response-discarded-by-other-waiter-although-answers-came-in-request-order"


def pure_in_order(sc):
    """Only answers to the callers are on the connection, one each, in the order in which the requests were sent (callers
    start together, in index order), and none at the very instant at which all waiters re-queue (every 0.5 s = 50 ticks in
    the recorded implementation, where the re-queueing order races with the delivery - part of the recorded finding).  The
    recorded finding does not reach such a history: the waiters queue in request order and every answer meets its own
    addressee at the head."""
    ks = []
    for t, m in sc["arrivals"]:
        if m[0] not in ("res", "err") or m[1][0] != "caller" or t % 50 == 0:
            return False
        if t >= sc["callers"][m[1][1]][1] - 1:
            return False    # an answer after its caller's deadline is dequeued by somebody else by necessity
        ks.append(m[1][1])
    if len(sc["callers"]) > 2 and any(t >= 50 for t, _m in sc["arrivals"]):
        return False        # three or more waiters re-queueing together: their order is not stable in the recorded implementation
    return ks == list(range(len(ks))) and not sc.get("delivery_first")     # nobody is skipped: a waiter ahead of the addressee would take it


class Tap:
    """Per-caller view of the shared receive stream that records what this caller dequeued."""

    def __init__(self, shared, k, log, index):
        self.shared, self.k, self.log, self.index = shared, k, log, index

    async def receive(self):
        m = await self.shared.receive()
        self.log.append((self.k, self.index.get(id(m))))
        return m


async def _scenario(sc):
    sm = importlib.import_module("chuk_mcp.protocol.messages.send_message")
    in_send, in_recv = anyio.create_memory_object_stream(100000)
    out_send, out_recv = anyio.create_memory_object_stream(100000)
    loop = asyncio.get_running_loop()
    t0 = loop.time()
    log, index, keep = [], {}, []
    callers = sc["callers"]
    results = [None] * len(callers)

    async def feeder():
        for n, (t, m) in enumerate(sc["arrivals"]):
            await vsleep_until(t0 + t * A.TICK)
            obj = A.build_message(resolve(m, callers), None, None)
            index[id(obj)] = n
            keep.append(obj)
            in_send.send_nowait(obj)

    async def caller(k):
        cid, D = callers[k][0], callers[k][1]
        kw = {}
        if len(callers[k]) > 2 and callers[k][2] is not None:
            # the application withdraws this request at tick callers[k][2] (from another task)
            kw["cancellation_token"] = tok = sm.CancellationToken()
            loop.call_at(t0 + callers[k][2] * A.TICK, tok.cancel)
        try:
            r = await sm.send_message(Tap(in_recv, k, log, index), out_send, "tools/call", {"k": k},
                                      timeout=D * A.TICK, message_id=cid, **kw)
            results[k] = (("ret", r["tok"]) if isinstance(r, dict) and set(r) == {"tok"} else ("ret-other", repr(r)[:120]),
                          (loop.time() - t0) / A.TICK)
        except sm.RetryableError as e:
            results[k] = (("err", True, e.code), (loop.time() - t0) / A.TICK)
        except sm.NonRetryableError as e:
            results[k] = (("err", False, e.code), (loop.time() - t0) / A.TICK)
        except TimeoutError:
            results[k] = (("timeout",), (loop.time() - t0) / A.TICK)
        except sm.CancelledError:
            results[k] = (("cancelled",), (loop.time() - t0) / A.TICK)

    def deliver(n, m):
        obj = A.build_message(resolve(m, callers), None, None)
        index[id(obj)] = n
        keep.append(obj)
        in_send.send_nowait(obj)

    async with anyio.create_task_group() as tg:
        if sc.get("delivery_first"):
            # every answer is put on the stream by a loop CALLBACK registered before any poll timer exists (what a transport
            # does): an answer due exactly on a poll boundary then completes the pending receive() in the very loop pass in
            # which that poll's deadline is called - delivery first
            for n, (t, m) in enumerate(sc["arrivals"]):
                loop.call_at(t0 + t * A.TICK, deliver, n, m)
        for k in range(len(callers)):
            tg.start_soon(caller, k)
        if not sc.get("delivery_first"):
            tg.start_soon(feeder)
    return results, log


def resolve(m, callers):
    """('res', ('caller', k), tok) -> concrete id"""
    if m[0] in ("res", "err", "req", "batch", "cancelnotif") and m[1][0] == "caller":
        cid = callers[m[1][1]][0]
        return (m[0], ("int" if isinstance(cid, int) else "str", cid)) + tuple(m[2:])
    return m


def gen(ctx):
    rng = ctx.rng
    out = []
    names = ["a", "b", "c", "d"]
    times = [0, 1, 25, 49, 50, 51, 75, 100]
    for n in (2, 3, 4):
        perms = list(itertools.permutations(range(n)))
        for perm in perms:
            for tset in ([1] * n, [50] * n, list(range(1, n + 1)), [49, 50, 51, 52][:n], [10, 60, 110, 160][:n]):
                for notifs in (0, 1, 2):
                    arr = []
                    for pos, k in enumerate(perm):
                        if notifs:
                            # something that answers nobody: a notification, or the null-id error a peer sends when it could
                            # not read SOMEBODY's message (Parse error / Invalid Request)
                            arr.append((tset[pos], ("notif",) if notifs == 1 else ("nullerr",)))
                        arr.append((tset[pos], ("res", ("caller", k), 100 + k)))
                    arr.sort(key=lambda x: x[0])
                    out.append({"callers": [(names[k], 300) for k in range(n)], "arrivals": arr})
                    if any(t % 50 == 0 and t > 0 for t in tset):
                        out.append({"callers": [(names[k], 300) for k in range(n)], "arrivals": arr, "delivery_first": True})
    # ids that differ only in their JSON type ("7" vs 7), and other near-collisions
    for twins in (["7", 7], [7, "7"], ["10", 10, "010"], ["a", "a ", "A"], ["-1", -1]):
        n = len(twins)
        for perm in itertools.permutations(range(n)):
            for tset in ([1] * n, list(range(1, n + 1)), [49, 50, 51][:n]):
                for late in (False, True):
                    arr = [(tset[pos], ("res", ("caller", k), 100 + k)) for pos, k in enumerate(perm)]
                    arr.sort(key=lambda x: x[0])
                    callers = [(twins[k], 300) for k in range(n)]
                    if late:
                        # the first answered caller's deadline has already passed when its answer arrives
                        callers[perm[0]] = (twins[perm[0]], 30)
                        arr = [(t + 40, m) for t, m in arr]
                    out.append({"callers": callers, "arrivals": arr})
    # requests with DIFFERENT timeouts (a 3 s health check beside a 6 s tool call), answered in request order at every moment
    # of the first three seconds: each caller gets its own answer
    for ds in ((600, 300), (300, 600), (300, 100), (100, 6000), (600, 300, 100), (200, 400, 800)):
        for t in range(5, 300, ctx.budget(10, 5)):
            for gap in (0, 3):
                arr = [(t + gap * k, ("res", ("caller", k), 100 + k)) for k in range(len(ds)) if t + gap * k < ds[k] - 2]
                if arr:
                    out.append({"callers": [(names[k], ds[k]) for k in range(len(ds))], "arrivals": arr})
    # the peer issues a request of its own bearing caller a's id, then withdraws it (notifications/cancelled naming that id),
    # then answers both callers: ids are per direction, nobody's request is cancelled
    for t in (3, 20, 45):
        for n in (1, 2, 3):
            cs = [(names[k], 300) for k in range(n)]
            arr = [(t, ("req", ("caller", 0))), (t + 1, ("cancelnotif", ("caller", 0)))] + \
                  [(t + 2 + k, ("res", ("caller", k), 100 + k)) for k in range(n)]
            out.append({"callers": cs, "arrivals": arr})
    # one caller WITHDRAWS its request (cancellation token, triggered from another task); the other callers' answers arrive
    # well after the cancelled call has ended (it ends at its next 0.5 s poll at the latest): they reach their callers
    for cancel_at in (5, 20, 49, 60):
        gone = 50 * (cancel_at // 50 + 1)                   # the poll instant at which the cancelled call is over at the latest
        for t in range(gone + 5, gone + 100, ctx.budget(10, 5)):
            for who in (0, 1):
                cs = [("a", 600), ("b", 600)]
                cs[who] = (cs[who][0], 600, cancel_at)
                out.append({"callers": cs, "arrivals": [(t, ("res", ("caller", 1 - who), 100 + (1 - who)))]})
                # ... also behind a notification (which the only waiter left takes, discards, and waits again)
                out.append({"callers": cs, "arrivals": [(t, ("notif",)), (t + 2, ("res", ("caller", 1 - who), 100 + (1 - who)))]})
            out.append({"callers": [("a", 600, cancel_at), ("b", 600), ("c", 600)],
                        "arrivals": [(t, ("res", ("caller", 1), 101)), (t + 2, ("res", ("caller", 2), 102))]})
    for _ in range(ctx.budget(300, 6000)):
        n = rng.choice((2, 3, 4))
        callers = [(names[k], rng.choice((60, 100, 300))) for k in range(n)]
        arr = []
        for k in rng.sample(range(n), rng.randrange(1, n + 1)):
            kind = rng.choice(("res", "res", "err"))
            t = rng.choice(times + [callers[k][1] - 1, callers[k][1], callers[k][1] + 1])
            arr.append((t, (kind, ("caller", k), 100 + k) if kind == "res" else ("err", ("caller", k), -32603, None)))
        for _j in range(rng.randrange(0, 4)):
            arr.append((rng.choice(times), rng.choice((("notif",), ("nullerr",), ("nullres",), ("res", ("str", "zz-other"), 5),
                                                          ("req", ("caller", rng.randrange(n))),
                                                          # the peer withdraws a request of ITS OWN that bears a caller's id
                                                          ("cancelnotif", ("caller", rng.randrange(n)))))))
        arr.sort(key=lambda x: x[0])
        out.append({"callers": callers, "arrivals": arr})
    return out


def enc_arr(sc):
    callers = sc["callers"]
    return "(" + " ".join(f"({t} {A.enc_msg(resolve(m, callers), None)})" for t, m in sc["arrivals"]) + ")"


def explore(ctx, model, spec):
    scs = gen(ctx)
    rows = []
    for sc in scs:
        results, log = vrun(_scenario, sc)
        rows.append((sc, results, log))
    if model:
        mres = model.run([call(0, "(" + " ".join(A.enc_rid(c[0]) for c in sc["callers"]) + ")",
                               "(" + " ".join(f"({k} {A.enc_msg(resolve(sc['arrivals'][n][1], sc['callers']), None)})"
                                              for k, n in log if n is not None) + ")")
                          for sc, _r, log in rows])
        # the FIFO wake-up model: for histories that are over before the first poll instant (0.5 s = 50 ticks) the recorded
        # log - who dequeued the n-th object - is exactly fifo_log of the arrivals with all callers waiting in request order
        fifo_rows = [(sc, log) for sc, _r, log in rows
                     if sc["arrivals"] and all(t < 50 for t, _m in sc["arrivals"]) and all(c[1] > 50 for c in sc["callers"])
                     and all(len(c) < 3 for c in sc["callers"])]
        fres = model.run([call(1, "(" + " ".join(A.enc_rid(c[0]) for c in sc["callers"]) + ")",
                               "(" + " ".join(A.enc_msg(resolve(m, sc["callers"]), None) for _t, m in sc["arrivals"]) + ")")
                          for sc, _log in fifo_rows])
        for (sc, log), want in zip(fifo_rows, fres):
            ctx.count("fifo-model-compared")
            got = [k for k, _n in log]
            order = [n for _k, n in log]
            if list(want) != got or order != list(range(len(order))):
                ctx.mismatch({"callers": [list(c) for c in sc["callers"]], "arrivals": [[t, list(m)] for t, m in sc["arrivals"]]},
                             {"dequeued_by": got, "objects": order}, {"dequeued_by": list(want)},
                             "who dequeued which object: the recorded log differs from fifo_log (Model/ConcurrentFifo.v)")
    else:
        mres = [None] * len(rows)
    reqs1, reqs2 = [], []
    for sc, results, log in rows:
        outs = [r[0] for r in results]
        cs = "(" + " ".join(f"({A.enc_rid(c[0])} {c[1]} {A.enc_outcome(o if o[0] != 'ret-other' else ('ret', -1))})"
                            for c, o in zip(sc["callers"], outs)) + ")"
        reqs1.append(call(1, enc_arr(sc), cs))
        reqs2.append(call(2, enc_arr(sc), cs))
    s1 = spec.run(reqs1)
    s2 = spec.run(reqs2)
    for (sc, results, log), mr, ok1, lost in zip(rows, mres, s1, s2):
        case = {"callers": [list(c) for c in sc["callers"]], "arrivals": [[t, list(map(lambda x: list(x) if isinstance(x, tuple) else x, m))]
                                                                         for t, m in sc["arrivals"]]}
        if sc.get("delivery_first"):
            case["delivery_first"] = True
        ctx.case(case, nontrivial=len(sc["arrivals"]) > 0)
        ctx.count(f"callers:{len(sc['callers'])}")
        outs = [r[0] for r in results]
        if mr is not None:
            want = [None if o == [] else tuple(o[0]) for o in mr]
            got = []
            for o in outs:
                if o[0] == "ret":
                    got.append((0, o[1]))
                elif o[0] == "err":
                    got.append((1, 1 if o[1] else 0, o[2]))
                elif o[0] in ("timeout", "cancelled"):
                    got.append(None)
                else:
                    got.append(("other",))
            if want != got:
                ctx.mismatch(case, got, want, "per-caller outcomes: replaying the recorded delivery log through the model differs")
        ctx.spec_total += 2
        for k, r in enumerate(results):
            if r[1] > sc["callers"][k][1] + 1e-6:
                ctx.spec_violation("caller-ended-after-its-deadline", case, f"caller {k} ended at {r[1]}")
            if r[0][0] == "ret-other":
                ctx.spec_violation("caller-returned-foreign-object", case, f"caller {k}: {r[0][1]}")
        if not ok1:
            ctx.spec_violation("crosstalk", case, f"a caller was handed a response that does not bear its id: {outs}")
        for k, fine in enumerate(lost):
            if fine:
                continue
            # which waiter dequeued caller k's first answer?
            cid = sc["callers"][k][0]
            first = next((n for n, (t, m) in enumerate(sc["arrivals"])
                          if m[0] in ("res", "err") and resolve(m, sc["callers"])[1] == ("int" if isinstance(cid, int) else "str", cid)), None)
            taker = next((j for j, n in log if n == first), None)
            ctx.count("lost-response")
            tc = sc["callers"][taker] if taker is not None else None
            if taker is not None and taker != k and len(tc) > 2 and tc[2] is not None and sc["arrivals"][first][0] > 50 * (tc[2] // 50 + 1):
                # the taker's request had been withdrawn, and the poll at which a withdrawn call ends had passed: it is no
                # waiter any more - not the recorded finding, which is about PENDING callers
                ctx.spec_violation("response-taken-by-a-caller-whose-request-was-cancelled-earlier", case,
                                   f"caller {k} ({cid}) timed out: its response (arrival #{first}, tick {sc['arrivals'][first][0]}) was "
                                   f"dequeued by caller {taker}, cancelled at tick {tc[2]}")
            elif taker is not None and taker != k:
                ctx.spec_violation(IN_ORDER_CLASS if pure_in_order(sc) else KNOWN_CLASS, case, f"caller {k} ({cid}) timed out: its response (arrival #{first}) was dequeued and "
                                                      f"discarded by caller {taker}")
            elif taker == k:
                ctx.spec_violation("response-dequeued-by-addressee-but-not-returned", case, f"caller {k}: {outs[k]}")
            else:
                ctx.spec_violation("response-never-dequeued-although-sent-in-time", case, f"caller {k}: {outs[k]}")


BAD_MEMBERS = [{"jsonrpc": "2.0", "id": "zz", "error": {"message": "no code"}}, 17, {"jsonrpc": "2.0", "id": "zz"},
               {"jsonrpc": "2.0", "id": "zz", "error": {"code": "x", "message": "m"}}, None, "text"]


async def _stdio_burst(n_callers, burst, order, batch=None):
    """n callers on the real StdioClient's (read, write) pair over a scripted child; the child answers each request
    after writing `burst` unrelated notifications, all in ONE chunk, in the given order of callers."""
    import json as _json
    from fakeproc import FakeProcess, patched_open_process
    from chuk_mcp.transports.stdio.stdio_client import stdio_client
    from chuk_mcp.transports.stdio.parameters import StdioParameters
    sm = importlib.import_module("chuk_mcp.protocol.messages.send_message")
    proc = FakeProcess()
    outs = [None] * n_callers
    with patched_open_process(proc):
        async with stdio_client(StdioParameters(command="fake-child", args=[])) as (r, w):
            async def caller(k):
                try:
                    res = await sm.send_message(r, w, "tools/call", {"k": k}, timeout=4.0, message_id=f"c{k}")
                    outs[k] = ("ret", res.get("tok") if isinstance(res, dict) else None)
                except TimeoutError:
                    outs[k] = ("timeout",)
                except Exception as e:
                    outs[k] = ("exc", type(e).__name__)

            async def child():
                # wait until every request line has reached the child's stdin
                while proc.stdin.data().count(b"\n") < n_callers:
                    await anyio.sleep(0.01)
                chunk = b""
                if batch is not None:
                    # ONE batch array line carries every answer (in caller order), with malformed members among them
                    members = [{"jsonrpc": "2.0", "id": f"c{k}", "result": {"tok": 100 + k}} for k in order]
                    for pos, bad in sorted(batch, key=lambda x: -x[0]):
                        members.insert(pos, BAD_MEMBERS[bad])
                    chunk = (_json.dumps(members) + "\n").encode()
                for k in (order if batch is None else []):
                    for i in range(burst):
                        chunk += (_json.dumps({"jsonrpc": "2.0", "method": "notifications/message",
                                               "params": {"level": "info", "data": i}}) + "\n").encode()
                    chunk += (_json.dumps({"jsonrpc": "2.0", "id": f"c{k}", "result": {"tok": 100 + k}}) + "\n").encode()
                proc.stdout.feed(chunk)

            async with anyio.create_task_group() as tg:
                for k in range(n_callers):
                    tg.start_soon(caller, k)
                tg.start_soon(child)
            proc.stdout.close()
    return outs


def check_transport_bursts(ctx):
    """Nothing is lost in front of the waiters either: a burst of unrelated traffic written ahead of the response
    (more than the 100-slot stream buffer) must not cost a single outstanding request - or callers answered in
    caller order - their response."""
    bursts = [0, 5, 99, 100, 101, 150] + ([250, 1000] if (ctx.thorough or ctx.escalated) else [])
    for n_callers, order in ((1, [0]), (2, [0, 1]), (3, [0, 1, 2])):
        for burst in (bursts if n_callers == 1 else [0]):
            # with several callers, interleaved unrelated traffic rotates the waiters and triggers the KNOWN
            # discard finding (classified above with the recorded delivery log); here only situations in which the
            # unmodified library loses nothing: one outstanding request, or answers in caller order with no traffic
            outs = vrun(_stdio_burst, n_callers, burst, order)
            case = {"via": "StdioClient", "callers": n_callers, "burst_before_each_response": burst, "order": order}
            ctx.case(case, nontrivial=True)
            ctx.count("stdio-burst:" + ("over-buffer" if burst > 100 else "within-buffer"))
            ctx.spec_total += 1
            want = [("ret", 100 + k) for k in range(n_callers)]
            if outs != want:
                lost = [k for k, o in enumerate(outs) if o != want[k]]
                klass = "response-lost-behind-burst-in-transport" if all(outs[k][0] == "timeout" for k in lost) \
                    else "wrong-result-behind-burst-in-transport"
                ctx.spec_violation(klass, case, f"callers {lost} got {[outs[k] for k in lost]}")


async def _auto_id_round(explicit, q_first):
    """Two callers on one pair: E with the caller-chosen id `explicit` (None: E lets the library choose too), Q with a
    library-chosen id.  The peer answers each request with a token naming the caller it read the request from (params.who).
    Returns ({who: outcome}, {who: id on the wire})."""
    sm = importlib.import_module("chuk_mcp.protocol.messages.send_message")
    from chuk_mcp.protocol.messages.json_rpc_message import parse_message
    in_send, in_recv = anyio.create_memory_object_stream(1000)
    out_send, out_recv = anyio.create_memory_object_stream(1000)
    outs, ids = {}, {}

    async def caller(who, mid):
        try:
            r = await sm.send_message(in_recv, out_send, "tools/call", {"who": who}, timeout=1.2, message_id=mid)
            outs[who] = ("ret", r.get("for") if isinstance(r, dict) else None)
        except TimeoutError:
            outs[who] = ("timeout",)
        except Exception as e:                          # noqa: BLE001
            outs[who] = ("exc", type(e).__name__)

    async def peer():
        reqs = {}
        while len(reqs) < 2:
            m = await out_recv.receive()
            reqs[m.params["who"]] = m
            ids[m.params["who"]] = m.id
        await anyio.sleep(0.1)
        for who in (("Q", "E") if q_first else ("E", "Q")):
            in_send.send_nowait(parse_message({"jsonrpc": "2.0", "id": reqs[who].id, "result": {"for": who}}))
            await anyio.sleep(0.05)

    async with anyio.create_task_group() as tg:
        tg.start_soon(peer)
        tg.start_soon(caller, "E", explicit)
        await anyio.sleep(0.01)
        tg.start_soon(caller, "Q", None)
    return outs, ids


def check_auto_id_collisions(ctx):
    """Ids the library chooses must not collide with ids a caller chose for another outstanding request: the id the library
    will hand out next is looked up the way a caller could (from the last two it handed out), used as an EXPLICIT id, and a
    library-chosen request is issued beside it.  Only the cross-talk clause is judged here (a lost response in these orders is
    the recorded discard finding)."""
    seen = []
    for _ in range(2):
        _o, ids = vrun(_auto_id_round, "probe-explicit", False)
        seen.append(ids.get("Q"))
    ctx.extra["library_chosen_ids_sample"] = [str(x)[:40] for x in seen]
    numeric = all(isinstance(x, str) and x.isdigit() for x in seen) or all(isinstance(x, int) and not isinstance(x, bool) for x in seen)
    step = (int(seen[1]) - int(seen[0])) if numeric else 0
    last = seen[-1]
    for rnd in range(6):
        q_first = bool(rnd % 2)
        # the id E picks: the one the library is about to hand out, if that can be told from the last two; else the last one it
        # handed out (re-using it as one's own is legal as well)
        g = (type(last)(int(last) + step)) if (numeric and step in (1, 2) and rnd < 4) else last
        outs, ids = vrun(_auto_id_round, g, q_first)
        case = {"explicit_id_of_E": g, "library_chosen_id_of_Q": str(ids.get("Q")), "answers": "Q first" if q_first else "E first"}
        ctx.case({**case, "round": rnd}, nontrivial=True)
        ctx.count("auto-id:" + ("same-on-the-wire" if ids.get("Q") == ids.get("E") else "distinct-on-the-wire"))
        ctx.spec_total += 1
        bad = [w for w in ("E", "Q") if outs.get(w, ("?",))[0] == "ret" and outs[w][1] != w]
        if bad or ids.get("Q") == ids.get("E"):
            ctx.spec_violation("library-chosen-id-collides-with-an-outstanding-explicit-id", case,
                               f"ids on the wire {ids}; outcomes {outs}")
        if ids.get("Q") is not None:
            last = ids["Q"]


def check_transport_batches(ctx):
    """The answers of all outstanding requests arrive in ONE batch array line (legal while no version >= 2025-06-18 was
    negotiated) that also carries members the parser rejects: every caller still gets its own answer."""
    from chuk_mcp.protocol.messages.json_rpc_message import parse_message

    def rejected(b):
        try:
            parse_message(b)
            return False
        except Exception:                                   # noqa: BLE001
            return True
    # a member the parser ACCEPTS is a foreign response on the shared stream: that rotates the waiters and is the recorded
    # discard finding (classified by explore() with the delivery log), not what is tried here
    usable = [i for i, b in enumerate(BAD_MEMBERS) if rejected(b)]
    ctx.extra["batch_members_rejected_by_parser"] = [BAD_MEMBERS[i] for i in usable]
    for n_callers in (2, 3):
        order = list(range(n_callers))
        shapes = [[]] + [[(pos, bad)] for pos in range(n_callers + 1) for bad in usable] + \
                 [sh for sh in ([(0, 0), (1, 2)], [(0, 1), (n_callers, 4)]) if all(b in usable for _p, b in sh)]
        for batch in shapes:
            outs = vrun(_stdio_burst, n_callers, 0, order, batch)
            case = {"via": "StdioClient", "callers": n_callers, "order": order, "one_batch_line": True,
                    "malformed_members_at": [[p, BAD_MEMBERS[b]] for p, b in batch]}
            ctx.case(case, nontrivial=True)
            ctx.count("stdio-batch:" + ("clean" if not batch else "with-malformed-member"))
            ctx.spec_total += 1
            want = [("ret", 100 + k) for k in range(n_callers)]
            if outs != want:
                lost = [k for k, o in enumerate(outs) if o != want[k]]
                klass = "response-lost-in-batch-line" if all(outs[k][0] == "timeout" for k in lost) else "wrong-result-from-batch-line"
                ctx.spec_violation(klass, case, f"callers {lost} got {[outs[k] for k in lost]}")


def run(ctx):
    lib.standard_obligations(ctx, GEN, TARGETS)
    spec = lib.Driver("C18Spec")
    try:
        model = lib.Driver("C18")
        ctx.oblige("build:driver-model(C18)", True)
    except lib.HarnessError as e:
        model = None
        ctx.oblige("build:driver-model(C18)", False, str(e)[-600:])
    if ctx.broken_obligations:
        ctx.escalated = True
    explore(ctx, model, spec)
    check_transport_bursts(ctx)
    check_transport_batches(ctx)
    check_auto_id_collisions(ctx)
    if ctx.thorough:
        lib.coqchk(ctx, "C18")
    ctx.rule = ("(a) 2-4 real send_message tasks on one stream pair under a virtual clock: every permutation of the answer order x 5 timing "
                "patterns around the 0.5 s poll boundary x with/without interleaved notifications (exhaustive), plus seeded mixtures "
                "with errors, foreign responses, same-id server requests and per-caller deadlines; the recorded delivery log is replayed "
                "through the model; caller ids incl. twins that differ only in JSON type (\"7\" vs 7) with late answers; callers with "
                "different timeouts answered in request order at every 0.1 s (thorough 0.05 s) of the first 3 s - a loss there is "
                "outside the recorded finding; for every history that is over before the first poll instant the recorded log is "
                "compared with fifo_log of Model/ConcurrentFifo.v (count fifo-model-compared); "
                "(b) 1-3 callers through the real StdioClient over a scripted child with bursts of 0..150 (thorough: 1000) unrelated "
                "notifications written ahead of each response in one chunk; (c) 2-3 callers through the real StdioClient whose answers "
                "arrive in ONE batch array line with a malformed member (6 kinds) at every position; (d) a library-chosen id beside an "
                "explicit id guessed from the last two the library handed out; distinct = distinct scenario dicts")
    return lib.finish(ctx, TRUSTED, ASSUME)


def replay(ctx, data):
    spec = lib.Driver("C18Spec")
    c = data["case"]
    if "explicit_id_of_E" in c:
        check_auto_id_collisions(ctx)
        for f in ctx.spec_fail:
            print("REPRODUCED", f["class"], f["detail"][:300])
        return 1 if ctx.spec_fail else 0
    if c.get("via") == "StdioClient":
        batch = None
        if c.get("one_batch_line"):
            batch = [(p_, BAD_MEMBERS.index(b)) for p_, b in c["malformed_members_at"]]
        outs = vrun(_stdio_burst, c["callers"], c.get("burst_before_each_response", 0), c["order"], batch)
        want = [("ret", 100 + k) for k in range(c["callers"])]
        if outs != want:
            ctx.spec_violation("response-lost-behind-burst-in-transport", c, f"{outs}")
            print("REPRODUCED", outs)
        return 1 if outs != want else 0
    sc = {"delivery_first": bool(c.get("delivery_first")), "callers": [tuple(x) for x in c["callers"]],
          "arrivals": [(t, tuple(tuple(x) if isinstance(x, list) else x for x in m)) for t, m in c["arrivals"]]}
    global gen
    gen = lambda _ctx: [sc]   # noqa: E731
    explore(ctx, None, spec)
    for f in ctx.spec_fail:
        print("REPRODUCED", f["class"], f["detail"])
    return 1 if ctx.spec_fail else 0

"""Translator plugin for C09/C10: Gen/SchemaGen.v by REFLECTION over the imported package.

harness/c09_reflect.py is run as a subprocess (Pydantic backend, PYTHONPATH=$VERIF_REPO/src); its JSON
description of every McpPydanticBase subclass is turned into one `schema` term per class.  Classes whose
annotations fall outside the grammar of Base/ValidSchema.v are listed in `unmodelled` (name, reason) and counted
in evidence.  Fail-closed: an unknown hook method, an unknown JSON shape or a reflection error raises.
"""
from __future__ import annotations

import ast
import json
import os
import subprocess
import sys
import textwrap

import translate as T

HERE = os.path.dirname(os.path.abspath(__file__))
PY = "/venv/bin/python"

# Hooks whose body is not a simple template are pinned by the hash of their AST (docstring removed).
PINNED = {
    ("chuk_mcp.protocol.messages.json_rpc_message.JSONRPCError", "model_post_init"): "09652938847a05a8",
    ("chuk_mcp.protocol.messages.json_rpc_message.JSONRPCMessage", "model_post_init"): "876343ae95137dfd",
    ("chuk_mcp.protocol.messages.json_rpc_message.JSONRPCMessage", "model_validate"): "3f70275b6adf88d0",
    ("chuk_mcp.protocol.messages.json_rpc_message.JSONRPCMessage", "model_dump"): "3d0d5ace0667068e",
    ("chuk_mcp.protocol.messages.json_rpc_message.JSONRPCMessage", "model_dump_json"): "fd4fdfa038789b1e",
}
PINNED_HOOK = {
    "chuk_mcp.protocol.messages.json_rpc_message.JSONRPCError": ("HRpcError", "KModelPostInit", {"model_post_init"}),
    "chuk_mcp.protocol.messages.json_rpc_message.JSONRPCMessage":
        ("HRpcMessage", "KModelPostInit", {"model_post_init", "model_validate", "model_dump", "model_dump_json"}),
}

_cache = {}


def reflect(env_extra=None):
    """Run the reflection subprocess once per process and cache the document."""
    key = "doc"
    if key in _cache:
        return _cache[key]
    env = {k: v for k, v in os.environ.items() if k not in ("MCP_FORCE_FALLBACK", "SKIP_JSONRPC_VALIDATION")}
    env["PYTHONPATH"] = os.path.join(T.REPO, "src")
    env["PYTHONHASHSEED"] = "0"
    env["PYTHONDONTWRITEBYTECODE"] = "1"
    p = subprocess.run([PY, os.path.join(HERE, "c09_reflect.py")], stdout=subprocess.PIPE, stderr=subprocess.PIPE,
                       text=True, env=env, timeout=300)
    if p.returncode != 0:
        raise T.TranslateError("reflection failed: " + p.stderr.strip()[-400:])
    try:
        doc = json.loads(p.stdout)
    except ValueError as e:
        raise T.TranslateError(f"reflection output is not JSON: {e}")
    _cache[key] = doc
    return doc


# --------------------------------------------------------------------------- #
def template_hook(qualname, method):
    """__post_init__ hooks of the shapes
         if len(self.F) > N: raise ValueError(...)        -> HMaxLen F N
         if not self.F.startswith(LIT): raise ValueError(...) -> HUriPrefix F LIT
       are read from the AST of the class (source file under $VERIF_REPO)."""
    mod, _, cls = qualname.rpartition(".")
    parts = mod.split(".")
    if parts[0] != "chuk_mcp":
        raise T.TranslateError(f"{qualname}: not a chuk_mcp class")
    path = "/".join(parts[1:]) + ".py"
    tree = T.read(path)
    cdef = None
    for node in ast.walk(tree):
        if isinstance(node, ast.ClassDef) and node.name == cls:
            cdef = node
    if cdef is None:
        raise T.TranslateError(f"class {qualname} not found in {path}")
    fdef = None
    for st in cdef.body:
        if isinstance(st, ast.FunctionDef) and st.name == method:
            fdef = st
    if fdef is None:
        raise T.TranslateError(f"{qualname}.{method} not found")
    body = [st for st in fdef.body if not T.is_docstring(st)]
    if len(body) != 1 or not isinstance(body[0], ast.If) or body[0].orelse:
        raise T.TranslateError(f"{qualname}.{method}: unsupported hook shape", fdef)
    cond, then = body[0].test, body[0].body
    if len(then) != 1 or not isinstance(then[0], ast.Raise):
        raise T.TranslateError(f"{qualname}.{method}: hook body is not a single raise", fdef)

    def self_attr(n):
        if isinstance(n, ast.Attribute) and isinstance(n.value, ast.Name) and n.value.id == "self":
            return n.attr
        return None

    # len(self.F) > N
    if (isinstance(cond, ast.Compare) and len(cond.ops) == 1 and isinstance(cond.ops[0], ast.Gt)
            and isinstance(cond.left, ast.Call) and isinstance(cond.left.func, ast.Name) and cond.left.func.id == "len"
            and len(cond.left.args) == 1 and self_attr(cond.left.args[0])
            and isinstance(cond.comparators[0], ast.Constant) and isinstance(cond.comparators[0].value, int)
            and not isinstance(cond.comparators[0].value, bool)):
        return f"(HMaxLen {T.strlit(self_attr(cond.left.args[0]))} {T.zlit(cond.comparators[0].value)})"
    # not self.F.startswith(LIT)
    if (isinstance(cond, ast.UnaryOp) and isinstance(cond.op, ast.Not) and isinstance(cond.operand, ast.Call)
            and isinstance(cond.operand.func, ast.Attribute) and cond.operand.func.attr == "startswith"
            and self_attr(cond.operand.func.value) and len(cond.operand.args) == 1
            and isinstance(cond.operand.args[0], ast.Constant) and isinstance(cond.operand.args[0].value, str)):
        return f"(HUriPrefix {T.strlit(self_attr(cond.operand.func.value))} {T.strlit(cond.operand.args[0].value)})"
    raise T.TranslateError(f"{qualname}.{method}: unsupported hook condition", cond)


def hook_of(c):
    name, methods = c["name"], c["methods"]
    if not methods:
        return "HNone", "KModelPostInit"
    if name in PINNED_HOOK:
        hook, kind, allowed = PINNED_HOOK[name]
        if set(methods) != allowed:
            raise T.TranslateError(f"{name}: methods {sorted(methods)} differ from the pinned set {sorted(allowed)}")
        for m, h in methods.items():
            if PINNED.get((name, m)) != h:
                raise T.TranslateError(f"{name}.{m}: AST differs from the pinned hook (hash {h})")
        return hook, kind
    if set(methods) == {"__post_init__"}:
        return template_hook(name, "__post_init__"), "KPostInit"
    raise T.TranslateError(f"{name}: cannot classify methods {sorted(methods)}")


# --------------------------------------------------------------------------- #
def jlit(v):
    if v is None:
        return "JNull"
    if isinstance(v, bool):
        return f"(JBool {'true' if v else 'false'})"
    if isinstance(v, int):
        return f"(JInt {T.zlit(v)})"
    if isinstance(v, str):
        return f"(JStr {T.strlit(v)})"
    raise T.TranslateError(f"constant {v!r} outside the grammar")


def tyterm(t):
    k = t[0]
    if k in ("str", "int", "float", "bool", "any"):
        return {"str": "TStr", "int": "TInt", "float": "TFloat", "bool": "TBool", "any": "TAny"}[k]
    if k == "frange":
        return f"(TFloatRange {T.zlit(t[1])} {T.zlit(t[2])})"
    if k == "opt":
        return f"(TOpt {tyterm(t[1])})"
    if k == "union":
        return "(TUnion [" + "; ".join(tyterm(x) for x in t[1]) + "])"
    if k == "list":
        return f"(TList {tyterm(t[1])})"
    if k == "dict":
        return f"(TDict {tyterm(t[1])})"
    if k == "lit":
        return "(TLit [" + "; ".join(jlit(x) for x in t[1]) + "])"
    if k == "model":
        return f"(TModel {T.strlit(t[1])})"
    raise T.TranslateError(f"type expression {t!r} outside the grammar")


def valterm(v):
    k = v[0]
    if k == "J":
        return f"(VJ {jlit(v[1])})"
    if k == "A":
        return "(VArr [" + "; ".join(valterm(x) for x in v[1]) + "])"
    if k == "M":
        return "(VMap [" + "; ".join(f"({T.strlit(a)}, {valterm(b)})" for a, b in v[1]) + "])"
    if k == "O":
        return f"(VModel {T.strlit(v[1])} [" + "; ".join(f"({T.strlit(a)}, {valterm(b)})" for a, b in v[2]) + "])"
    raise T.TranslateError(f"default {v!r} outside the grammar")


def ident(qualname, used):
    base = "s_" + "".join(ch if ch.isalnum() else "_" for ch in qualname.replace("chuk_mcp.", "", 1))
    n = base
    i = 2
    while n in used:
        n = f"{base}_{i}"
        i += 1
    used.add(n)
    return n


def gen_schema() -> str:
    doc = reflect()
    out = ("(* GENERATED by harness/translate_c09.py by reflection over the imported package chuk_mcp -- do not edit *)\n"
           "From Verif.Base Require Import Prelude Json ValidSchema.\nOpen Scope Z_scope.\n\n")
    names, unmod, used = [], [], set()
    for c in doc["classes"]:
        if "unmodelled" in c:
            unmod.append((c["name"], c["unmodelled"]))
            continue
        hook, kind = hook_of(c)
        idn = ident(c["name"], used)
        fields = []
        for f in c["fields"]:
            d = "None" if f["default"] is None else f"(Some {valterm(f['default'])})"
            fields.append(f"    (* {f['py']}{' alias ' + f['wire'] if f['wire'] != f['py'] else ''} *)\n"
                          f"    mkField {T.strlit(f['py'])} {T.strlit(f['wire'])} {tyterm(f['ty'])} {d}")
        out += (f"(* {c['name']} *)\nDefinition {idn} : schema := mkSchema {T.strlit(c['name'])} [\n"
                + ";\n".join(fields) + f"\n  ] {hook} {kind}.\n\n")
        names.append(idn)
    out += "Definition all : list schema := [\n  " + ";\n  ".join(names) + "\n].\n\n"
    out += "(* classes outside the grammar: (name, reason) *)\nDefinition unmodelled : list (str * str) := [\n  "
    out += ";\n  ".join(f"({T.strlit(n)}, {T.strlit(r[:80])})" for n, r in unmod) + "\n].\n"
    if not names:
        raise T.TranslateError("no model class found")
    return out


GEN_FILES = {"SchemaGen.v": gen_schema}

"""C20 — every host entry point launches exactly the server the configuration names."""
from __future__ import annotations

import copy
import json
import os
import shutil
import subprocess
import tempfile
import time

import lib
from lib import sx, call

META = {
    "level": "Proof: for EVERY valid configuration file (any number of servers, any strings, env absent/null/empty/with values, "
             "timeout absent/number/numeric string, extra keys), every name or list of names, every default environment and "
             "every server behaviour, the model of load_config / StdioClient's spawn / get_default_environment / the CLI's "
             "test_server / run_command starts exactly the requested configured servers, in order, each with argv = "
             "command :: args and the configured (or, if absent/empty, the default) environment, each receives initialize, "
             "and the connection count equals the number of servers that answered; the loader returns the 2-tuple "
             "(parameters, timeout) naming exactly what was configured; missing file / invalid JSON / unknown name give "
             "FileNotFoundError / JSONDecodeError / ValueError and launch nothing. Values crossing module boundaries are a "
             "dynamic type, so passing the loader's tuple where parameters are expected is expressible (History/C20_prefix.v "
             "refutes the pre-fix runner). The extracted checkers that judge the implementation are proved equivalent to the "
             "declarative specification. The model is tied to the code by running the three REAL entry points on generated "
             "configuration files with a witness child that records the argv and environment execve handed it.",
    "note": "Trusted: Coq kernel, extraction (ExtrOcamlBasic only), the harness incl. the witness child and /proc. Modelled, not "
            "verified: CPython json/open/float()/dict, Pydantic's validation of StdioParameters, anyio.open_process -> execve, "
            "argparse, send_initialize (C03) and the stdio transport (C05/C06/C16). Domain: strings without NUL / lone "
            "surrogates, env keys non-empty without '=', timeouts that are plain decimal literals of <= 15 significant digits, "
            "no duplicate JSON keys, commands that exist and are executable. SrcJson = 'the file holds this value as UTF-8 JSON "
            "text' whatever the process locale (launching is only exercised under a UTF-8 locale: CPython cannot pass non-ASCII "
            "argv through execve otherwise). Real processes, wall clock: every failing case is re-run once before it is believed.",
    "technique": "Coq proof (case analysis on the JSON shape of a valid configuration, induction over the list of names, "
                 "reflection lemmas for the boolean checkers) over a hand-written model; differential correspondence with "
                 "real child processes",
    "design_ref": "DESIGN.md section 6 (C20)",
}
GEN: list = []
TARGETS = ["Base/Decimal", "Base/HostTypes", "Spec/C20", "Model/Config", "Proofs/Config", "History/C20_prefix", "Props/C20"]

TRUSTED = [
    "Coq 8.16.1 kernel (coqc); coqchk re-check in the thorough tier; vm_compute only in the non-vacuity Example and History/ witness",
    "axioms: none (every C20 theorem prints 'Closed under the global context'); the server's behaviour (answers : command -> bool) "
    "and the host environment are universally quantified arguments, not assumptions",
    "hand-written model Model/Config.v of config.py, StdioClient.__init__/__aenter__ (spawn), environment.py, __main__.test_server, "
    "server_manager.run_command - tied by the correspondence run below",
    "Base/Decimal.v: the exact decimal value a JSON number / numeric string denotes stands for float(x) (exact for <= 15 significant digits)",
    "extraction: ExtrOcamlBasic only (no Extract Constant / Extract Inductive of our own); ocaml/main.ml text<->sexp",
    "harness: generators, harness/c20_worker.py (drives the real entry points; os.system('clear') neutralised), "
    "harness/c20_witness.py (records /proc/self/cmdline and /proc/self/environ next to the path it was started as)",
    "modelled, not verified: CPython (json, open, float, dict, argparse), Pydantic validation of StdioParameters, "
    "anyio.open_process/execve, send_initialize and the stdio transport",
]
ASSUME = [
    "an absent, null or EMPTY env means 'the library's default environment' (what `env or get_default_environment()` does); "
    "specification and model take that environment as an input (universally quantified in the theorems; the real "
    "get_default_environment() of the run in the tie). Model/Config.v also models get_default_environment itself "
    "(default_env); that comparison is reported in the evidence but not judged: which variables are inherited is not part of the property",
    "valid configuration = documented shape, strings the OS can carry (no NUL, no lone surrogate), env keys non-empty without '=', "
    "timeout a plain decimal literal, no duplicate keys, command an existing executable; server names do not start with '-' "
    "(the CLI receives them as `--server NAME`)",
    "a file that is not valid UTF-8 raises UnicodeDecodeError (a ValueError, as json.loads itself does on such bytes): not counted "
    "as the 'invalid JSON' class",
]

HERE = os.path.dirname(os.path.abspath(__file__))
NWORKERS = int(os.environ.get("C20_WORKERS", "8"))
D = "@D@"                      # placeholder for the case directory inside command strings

_orig_load = lib.load_findings


def _load_findings(pid):
    """known_findings.json (shared, maintained by the lead) + findings_C20.json (this property's proposals)."""
    out = _orig_load(pid)
    p = os.path.join(lib.VERIF, "findings_C20.json")
    if pid == "C20" and os.path.exists(p):
        for e in json.load(open(p, encoding="utf-8")).get("findings", []):
            if e.get("property") == pid and e.get("status") == "known":
                out.setdefault(e["class"], e)
    return out


lib.load_findings = _load_findings


# --------------------------------------------------------------------------- #
# sexp codecs (mirror Base/JsonSexp.v and Drv/C20.v)
# --------------------------------------------------------------------------- #
def js_sx(v) -> str:
    if v is None:
        return "(0)"
    if isinstance(v, bool):
        return f"(1 {1 if v else 0})"
    if isinstance(v, int):
        return f"(2 {v})"
    if isinstance(v, float):
        if v.is_integer():
            return f"(2 {int(v)})"
        return f"(3 {sx(repr(v))})"
    if isinstance(v, str):
        return f"(4 {sx(v)})"
    if isinstance(v, list):
        return "(5 (" + " ".join(js_sx(x) for x in v) + "))"
    if isinstance(v, dict):
        return "(6 (" + " ".join(f"({sx(k)} {js_sx(x)})" for k, x in v.items()) + "))"
    raise lib.HarnessError(f"cannot encode {type(v)}")


def sx_src(src):
    if src[0] == "missing":
        return "(0)"
    if src[0] == "badjson":
        return "(1)"
    return "(2 " + js_sx(src[1]) + ")"


def sx_env(d):
    return "(" + " ".join(f"({sx(k)} {sx(v)})" for k, v in d.items()) + ")"


def sx_strs(l):
    return "(" + " ".join(sx(s) for s in l) + ")"


def sx_procs_obs(procs, connected):
    ps = " ".join(f"(({sx_strs(p['argv'])} {sx_env(p['env'])}) {1 if p['init'] else 0})" for p in procs)
    return f"(({ps}) {connected})"


def run_of_sx(r):
    procs = [{"argv": [lib.as_str(a) for a in p[0][0]],
              "env": {lib.as_str(k): lib.as_str(v) for k, v in p[0][1]},
              "init": bool(p[1])} for p in r[0]]
    return {"procs": procs, "connected": r[1]}


CLS_CODE = {"FNF": 0, "JSON": 1, "VAL": 2, "OTHER": 3}
CODE_CLS = {v: k for k, v in CLS_CODE.items()}


def load_obs_sx(ob):
    """implementation's loader observation -> load_obs sexp"""
    if ob["outcome"] == "raise":
        return f"(1 {CLS_CODE[ob['cls']]})"
    if ob["outcome"] != "ok":
        return "(1 3)"
    t = ob["timeout"]
    if t is None:
        ts = "()"
    elif "dec" in t:            # a real number (float, or an int of the same value): judged by value
        ts = f"(({t['dec'][0]} {t['dec'][1]}))"
    else:                       # not a number at all / not finite: nothing the specification could accept
        ts = "((1 999999999))"
    env = "()" if ob["env"] is None else "(" + sx_env(ob["env"]) + ")"
    args = ob["args"] if ob["args"] is not None else []
    return f"(0 ({sx(ob['command'])} {sx_strs(args)} {env}) {ts})"


def load_of_sx(r):
    if r[0] == 1:
        return {"outcome": "raise", "cls": CODE_CLS[r[1]]}
    p = r[1]
    env = lib.as_opt(p[2])
    t = lib.as_opt(r[2])
    return {"outcome": "ok", "command": lib.as_str(p[0]), "args": [lib.as_str(a) for a in p[1]],
            "env": None if env is None else {lib.as_str(k): lib.as_str(v) for k, v in env},
            "timeout": None if t is None else [t[0], t[1]]}


def hex_str(h):
    return bytes.fromhex(h).decode("utf-8", "surrogateescape")


def procs_of_records(recs, bare_map=None):
    """bare_map: resolved path -> configured bare command name, for servers configured by bare name whose executable was
    found where the CONFIGURED PATH says (an executable found anywhere else keeps its full path and so differs)."""
    out = []
    for r in recs:
        env = {}
        for e in r["env"]:
            k, _, v = hex_str(e).partition("=")
            env[k] = v
        argv = [hex_str(a) for a in r["argv"]]
        if bare_map and argv and argv[0] in bare_map:
            argv[0] = bare_map[argv[0]]
        out.append({"argv": argv, "env": env, "init": "initialize" in r["events"],
                    "events": r["events"]})
    return out


# --------------------------------------------------------------------------- #
# generators
# --------------------------------------------------------------------------- #
NAME_POOL = ["a", "sqlite", "srv 1", "sérveur", "名前", 'x"y', "it's", "UPPER", "a.b/c", "😀s", "0", "", "two  spaces",
             "back\\slash", "mcpServers", "command", "tab\tname", "n-dash", "ünï"]
CMD_POOL = ["wit", "w it", "wité", "w'q\"x", "witness-😀", "refuse-1", "refuse é", "w$HOME", "w;x", "-w"]
ARG_POOL = ["", " ", "a b", "--flag=va lue", 'q"uote', "it's", "é", "日本語", "😀", "\\back\\slash\\", "$HOME", "`x`", "*",
            "-", "--", "tab\there", "new\nline", "x" * 300, "%s", "a=b", "'", '"', "\\", " lead", "trail ", " nbsp",
            "é", "‮RTL", "0", "null", "[1]", "{}"]
ENVKEY_POOL = ["A", "PATH", "HOME", "LANG", "LC_ALL", "MY_VAR", "é_key", "with space", "lower", "LOG_LEVEL", "TERM", "USER",
               "a.b", "K9", "日本", "_", "SHELL", "LOGGING_LEVEL", "C20_SECRET", "SERVICE_API_KEY", "AUTH_TOKEN", "DB_PASSWORD"]
ENVVAL_POOL = ["", "1", "v w", "é", "a=b", "()notfunc", "x" * 200, "😀", "/bin:/usr/bin", "ERROR", "C", "en_US.UTF-8", "'q'",
               '"dq"', " ", "multi\nline", "$HOME", "\\"]
TIMEOUT_INT = [0, 1, 5, 30, 120, 3600, 86400, 123456789]
TIMEOUT_FLOAT = [0.5, 2.5, 12.25, 0.001, 1e-05, 30.0, 1.5e+20, 0.1, 99.999]
TIMEOUT_STR = ["30", "2.5", "1e3", "0.25", "-1", "+7", "1E-2", "007", "3.0e+2", "0", "0.0", "10.50", "5e-1"]
EXTRA_SERVER = [("description", "a server"), ("disabled", False), ("cwd", "/tmp"), ("transport", {"type": "stdio"}),
                ("ARGS", ["decoy"]), ("Command", "/decoy"), ("url", None), ("ENV", {"X": "decoy"}), ("Timeout", 1),
                ("arguments", ["decoy"]), ("environment", {"Y": "decoy"}), ("autoApprove", []), ("type", "stdio")]
EXTRA_TOP = [("version", 1), ("globalSettings", {"theme": "dark"}), ("mcpservers", {"a": {"command": "/decoy"}}),
             ("servers", {}), ("$schema", "https://example.invalid/schema.json"), ("comment", None)]
BAD_JSON = ["", " ", "{", "}", '{"mcpServers": {"a": {"command": "x",}}}', "{'mcpServers': {}}", '{mcpServers: {}}',
            '{"mcpServers": {}} trailing', '{"mcpServers": {"a": {"command": "x"}}', "// comment\n{}", "﻿{}",
            '{"a": 1}{"b": 2}', '{"mcpServers": {"a": {"command": "x" "args": []}}}', "[1, 2", '"unterminated',
            '{"mcpServers": {"a": {"command": "\\x41"}}}', "nul", '{"mcpServers": undefined}']


def pick_some(rng, pool, lo, hi):
    n = rng.randint(lo, hi)
    return [rng.choice(pool) for _ in range(n)]


def gen_server(rng, j, dims):
    cmd = rng.choice(CMD_POOL) if rng.random() < 0.8 else "wit"
    sv = {"command": f"{D}/s{j}/{cmd}"}
    dims.append("witness:" + ("refuses" if cmd.startswith("refuse") else "answers"))
    a = rng.random()
    if a < 0.15:
        dims.append("args:absent")
    elif a < 0.3:
        sv["args"] = []
        dims.append("args:empty-list")
    else:
        sv["args"] = pick_some(rng, ARG_POOL, 1, 5)
        dims.append("args:%d" % len(sv["args"]))
        for x in sv["args"]:
            if x == "":
                dims.append("arg:empty-string")
            elif any(ord(c) > 127 for c in x):
                dims.append("arg:unicode")
            elif any(c in x for c in "'\""):
                dims.append("arg:quote")
            elif any(c.isspace() for c in x):
                dims.append("arg:whitespace")
            else:
                dims.append("arg:other")
    e = rng.random()
    if e < 0.2:
        dims.append("env:absent")
    elif e < 0.3:
        sv["env"] = None
        dims.append("env:null")
    elif e < 0.5:
        sv["env"] = {}
        dims.append("env:empty")
    else:
        env = {}
        for k in pick_some(rng, ENVKEY_POOL, 1, 5):
            env[k] = rng.choice(ENVVAL_POOL)
        sv["env"] = env
        dims.append("env:%d-values" % len(env))
    t = rng.random()
    if t < 0.25:
        dims.append("timeout:absent")
    elif t < 0.32:
        sv["timeout"] = None
        dims.append("timeout:null")
    elif t < 0.55:
        sv["timeout"] = rng.choice(TIMEOUT_INT)
        dims.append("timeout:int")
    elif t < 0.78:
        sv["timeout"] = rng.choice(TIMEOUT_FLOAT)
        dims.append("timeout:float")
    else:
        sv["timeout"] = rng.choice(TIMEOUT_STR)
        dims.append("timeout:string-number")
    if rng.random() < 0.5:
        for k, v in rng.sample(EXTRA_SERVER, rng.randint(1, 3)):
            sv[k] = copy.deepcopy(v)
        dims.append("extra-server-keys:yes")
    else:
        dims.append("extra-server-keys:no")
    # a BARE command name: it is to be found on the PATH of the environment the server is CONFIGURED with (that is what the
    # spawn does), not on the host's - where a different executable of the same name sits first
    if rng.random() < 0.12:
        name = "witbare-%d" % j
        sv["command"] = name
        env = dict(sv.get("env") or {})
        env["PATH"] = f"{D}/s{j}:/usr/bin:/bin"
        sv["env"] = env
        dims[:] = [d for d in dims if not d.startswith(("env:", "witness:"))]
        dims += ["env:with-own-PATH", "witness:answers", "command:bare-name"]
    elif rng.random() < 0.08:
        # a server configured QUIET (its own log level says errors only) that is talkative on stderr all the same: launching it
        # and reaching the handshake must not depend on how much it writes there
        sv["command"] = f"{D}/s{j}/chatty-{j}"
        env = dict(sv.get("env") or {})
        env[rng.choice(["LOG_LEVEL", "LOGGING_LEVEL"])] = rng.choice(["ERROR", "critical", "Error", "CRITICAL"])
        sv["env"] = env
        dims[:] = [d for d in dims if not d.startswith(("env:", "witness:"))]
        dims += ["env:quiet-log-level", "witness:answers", "witness:chatty-on-stderr", "command:path"]
    else:
        dims.append("command:path")
    items = list(sv.items())
    rng.shuffle(items)
    return dict(items)


def unknown_names(rng, names):
    out = ["nope"]
    n = rng.choice(names)
    for cand in (n.upper(), n + " ", n[:-1], " " + n, n + n, "mcpServers", "command"):
        if cand not in names and not cand.startswith("-"):
            out.append(cand)
    return out


def gen_valid_case(rng, cid):
    dims = []
    k = rng.randint(1, 4)
    names = rng.sample(NAME_POOL, k)
    dims.append("servers:%d" % k)
    servers = {n: gen_server(rng, j, dims) for j, n in enumerate(names)}
    cfg = {"mcpServers": servers}
    if rng.random() < 0.5:
        for key, v in rng.sample(EXTRA_TOP, rng.randint(1, 2)):
            cfg[key] = copy.deepcopy(v)
        dims.append("extra-top-keys:yes")
    else:
        dims.append("extra-top-keys:no")
    items = list(cfg.items())
    rng.shuffle(items)
    cfg = dict(items)
    ser = {"ensure_ascii": rng.random() < 0.5, "indent": rng.choice([None, None, 2, 4]), "nl": rng.random() < 0.5}
    dims.append("file:" + ("ascii-escapes" if ser["ensure_ascii"] else "raw-utf8"))
    path_kind = rng.choice(["plain", "space-unicode"])
    dims.append("config-path:" + path_kind)
    b = rng.random()
    backend = "fallback" if b < 0.2 else "pydantic"
    loc = "legacy-ascii" if b > 0.88 else "utf-8"
    dims.append("backend:" + backend)
    dims.append("process-locale:" + loc)
    hostenv = {"C20_SECRET": "must-not-leak"}
    h = rng.random()
    if h < 0.3:
        dims.append("hostenv:unchanged")
    else:
        for var, choices in (("TERM", [None, "", "vt100", "xterm-256color"]), ("SHELL", [None, "() { :; }", "/bin/zsh", "()"]),
                             ("USER", [None, "u ser", "üser"]), ("LOGNAME", [None, "lg", ""]), ("HOME", ["/root", "/tmp/h ome"])):
            if rng.random() < 0.6:
                hostenv[var] = rng.choice(choices)
        dims.append("hostenv:patched")
    unk = unknown_names(rng, names)
    loader_names = list(names) + [rng.choice(unk)]
    cli_names = list(names) + [rng.choice(unk)]
    lists = []
    r = rng.random()
    if r < 0.3:
        lists.append(list(names))
        dims.append("runner-names:all-in-order")
    elif r < 0.5:
        lists.append(list(reversed(names)) + [rng.choice(unk)])
        dims.append("runner-names:reversed+unknown")
    elif r < 0.7:
        l = list(names)
        rng.shuffle(l)
        l.insert(rng.randint(0, len(l)), rng.choice(unk))
        lists.append(l)
        dims.append("runner-names:shuffled+unknown-inside")
    elif r < 0.85:
        lists.append([rng.choice(names)])
        dims.append("runner-names:single")
    elif r < 0.93:
        lists.append([rng.choice(unk), rng.choice(unk)])
        dims.append("runner-names:only-unknown")
    else:
        lists.append([])
        dims.append("runner-names:empty")
    if loc == "legacy-ascii":
        # CPython itself cannot pass non-ASCII argv / environment / paths to execve or open() under such a locale, so only
        # the loader (which merely has to READ a UTF-8 JSON file) is exercised there
        path_kind, hostenv, cli_names, lists = "plain", {}, [], []
        dims[:] = [d for d in dims if not d.startswith(("config-path:", "hostenv:", "runner-names:"))]
    # a configuration that REPLACES an earlier one at the same path in the same process (an editor saving the file, a host
    # reloading its configuration): the entry points must launch what the file says NOW
    rewritten = loc == "utf-8" and rng.random() < 0.25
    dims.append("file-history:" + ("rewritten-in-place-after-a-load" if rewritten else "fresh"))
    # the host has used a default environment of its own before (built another server's env from it, in place)
    scribbles = rng.random() < 0.35
    dims.append("host-default-env:" + ("written-into-by-the-host" if scribbles else "untouched"))
    return {"kind": "valid", "id": cid, "config": cfg, "ser": ser, "path_kind": path_kind, "hostenv": hostenv, "backend": backend,
            "locale": loc, "rewritten": rewritten, "host_builds_an_env_from_the_default": scribbles,
            "loader_names": loader_names, "cli_names": cli_names, "runner_lists": lists, "dims": dims}


def gen_error_cases(rng, cid0):
    cases = []
    cid = cid0
    for sub in ("file", "dir"):
        cases.append({"kind": "missing", "sub": sub, "id": cid, "hostenv": {}, "loader_names": ["a", "nope"], "cli_names": ["a"],
                      "runner_lists": [["a", "b"]], "dims": ["source:missing-" + sub], "path_kind": "plain"})
        cid += 1
    for text in BAD_JSON:
        cases.append({"kind": "badjson", "text": text, "id": cid, "hostenv": {}, "loader_names": ["a"], "cli_names": ["a"],
                      "runner_lists": [["a", "x"]], "dims": ["source:invalid-json"], "path_kind": "plain"})
        cid += 1
    # truncations of a real valid file
    base = json.dumps({"mcpServers": {"a": {"command": "/bin/true", "args": ["x"], "env": {"A": "1"}}}})
    for _ in range(4):
        cut = rng.randint(1, len(base) - 1)
        cases.append({"kind": "badjson", "text": base[:cut], "id": cid, "hostenv": {}, "loader_names": ["a"], "cli_names": ["a"],
                      "runner_lists": [["a"]], "dims": ["source:invalid-json-truncated"], "path_kind": "plain"})
        cid += 1
    # valid files that configure no server at all: every name is unknown
    for cfg in ({"mcpServers": {}}, {"mcpServers": {}, "version": 2}):
        cases.append({"kind": "valid", "id": cid, "config": cfg, "ser": {"ensure_ascii": True, "indent": None, "nl": False},
                      "path_kind": "plain", "hostenv": {}, "loader_names": ["a", ""], "cli_names": ["sqlite"],
                      "runner_lists": [["a", "b"]], "dims": ["source:valid-zero-servers"]})
        cid += 1
    return cases


SHAPES_SERVER = [
    {"command": 5}, {"command": ""}, {"command": "x", "args": None}, {"command": "x", "args": "ab"}, {"command": "x", "args": [1]},
    {"command": "x", "args": ["1", 2.5]}, {"command": "x", "env": []}, {"command": "x", "env": {"a": 1}}, {"command": "x", "env": {"a": None}},
    {"command": "x", "env": None, "timeout": None}, {"command": "x", "env": {}, "timeout": True}, {"command": "x", "timeout": []},
    {"command": "x", "timeout": "abc"}, {"command": "x", "timeout": "0x10"}, {"command": "x", "timeout": ""}, {"command": "x", "timeout": "-0"},
    {"command": "x", "timeout": "1e"}, {"command": "x", "timeout": "1.5.2"}, {"command": "x", "timeout": "--1"}, {"command": "x", "timeout": "e5"},
    {"args": []}, {}, [], [1], "s", "", 0, 7, None, True, False, 2.5, {"command": None}, {"command": True}, {"command": ["x"]},
    {"command": "x", "args": {}}, {"command": "x", "args": {"a": "b"}}, {"command": "x", "args": [["a"]]}, {"command": "x", "args": [None]},
    {"command": "x", "args": [True]}, {"command": "x", "env": "s"}, {"command": "x", "env": 0}, {"command": "x", "env": False},
    {"command": "x", "env": {"a": "b", "c": True}}, {"command": "x", "env": {"a": []}}, {"command": "x", "env": {"a": 1.5}},
    {"command": 5, "timeout": "abc"}, {"command": "x", "timeout": {}}, {"command": "x", "timeout": False}, {"command": "x", "timeout": 0},
    {"command": "x", "args": [], "env": {"": "v"}}, {"command": "x y", "args": ["", ""], "env": {"k": ""}, "timeout": "12.50"},
    {"command": "x", "timeout": 1e22}, {"command": "x", "timeout": -3}, {"command": "x", "timeout": "1e-7"}, {"Command": "x"},
    {"command": "x", "args": ["a"], "env": {"A": "b"}, "timeout": 2.5, "other": [1, {"z": None}]},
]
SHAPES_TOP = [[], "x", 5, None, {"mcpServers": []}, {"mcpServers": None}, {"mcpServers": 5}, {"mcpServers": ""}, {},
              {"mcpservers": {"a": {"command": "x"}}}, {"mcpServers": {"b": {"command": "x"}}}, True, 2.5]


def gen_shape_cases(cid0):
    cases = []
    cid = cid0
    for sv in SHAPES_SERVER:
        cases.append({"kind": "shape", "id": cid, "config": {"mcpServers": {"a": sv}}, "loader_names": ["a"],
                      "dims": ["shape:server-entry"], "hostenv": {}, "path_kind": "plain"})
        cid += 1
    for top in SHAPES_TOP:
        cases.append({"kind": "shape", "id": cid, "config": top, "loader_names": ["a"], "dims": ["shape:top-level"],
                      "hostenv": {}, "path_kind": "plain"})
        cid += 1
    return cases


# --------------------------------------------------------------------------- #
# materialise + run
# --------------------------------------------------------------------------- #
def subst(obj, cdir):
    if isinstance(obj, str):
        return obj.replace(D, cdir)
    if isinstance(obj, list):
        return [subst(x, cdir) for x in obj]
    if isinstance(obj, dict):
        return {k: subst(v, cdir) for k, v in obj.items()}
    return obj


def materialise(case, rundir, witness):
    """Create the case directory, the witness links and the configuration file.  Returns the worker job entry and the
    source as the model sees it."""
    cdir = os.path.join(rundir, "c%d" % case["id"])
    os.makedirs(cdir)
    fname = "config.json" if case.get("path_kind") != "space-unicode" else "my cfg é.json"
    path = os.path.join(cdir, fname)
    dirs = []
    if case["kind"] == "missing":
        if case["sub"] == "dir":
            path = os.path.join(cdir, "no-such-dir", "config.json")
        src = ("missing",)
    elif case["kind"] == "badjson":
        with open(path, "w", encoding="utf-8") as f:
            f.write(case["text"])
        src = ("badjson",)
    else:
        cfg = subst(case["config"], cdir)
        if case["kind"] == "valid":
            bare = {}
            for sv in cfg["mcpServers"].values():
                cmd = sv["command"]
                if "/" not in cmd:
                    # bare name: the real one in the first directory of the CONFIGURED PATH, a decoy of the same name in a
                    # directory that comes first on the HOST's PATH
                    real_dir = sv["env"]["PATH"].split(":")[0]
                    decoy_dir = os.path.join(cdir, "decoy")
                    for d in (real_dir, decoy_dir):
                        if d not in dirs:
                            os.makedirs(d, exist_ok=True)
                            dirs.append(d)
                        if not os.path.lexists(os.path.join(d, cmd)):
                            os.symlink(witness, os.path.join(d, cmd))
                    bare[os.path.join(real_dir, cmd)] = cmd
                    continue
                d = os.path.dirname(cmd)
                if d not in dirs:
                    os.makedirs(d, exist_ok=True)
                    dirs.append(d)
                if not os.path.lexists(cmd):
                    os.symlink(witness, cmd)
            case["_bare_map"] = bare
            if bare:
                case = dict(case)
                case["hostenv"] = dict(case.get("hostenv") or {})
                case["hostenv"]["PATH"] = os.path.join(cdir, "decoy") + ":/usr/local/bin:/usr/bin:/bin"
        ser = case.get("ser", {"ensure_ascii": True, "indent": None, "nl": False})
        text = json.dumps(cfg, ensure_ascii=ser["ensure_ascii"], indent=ser["indent"]) + ("\n" if ser["nl"] else "")
        with open(path, "w", encoding="utf-8") as f:
            f.write(text)
        src = ("json", cfg)
        if case.get("rewritten"):
            # the predecessor: same servers and commands, other arguments and environment
            old = copy.deepcopy(cfg)
            for sv in old["mcpServers"].values():
                if isinstance(sv, dict):
                    sv["args"] = ["--stale-generation"]
                    sv["env"] = {"C20_STALE": "1"}
            pre = {"text": json.dumps(old), "final": text, "name": sorted(old["mcpServers"])[0]}
    steps = []
    configured = set(src[1]["mcpServers"]) if case["kind"] == "valid" else set()
    only = case.get("only")          # replay: a single step
    for n in case.get("loader_names", []):
        steps.append({"ep": "loader", "name": n, "launch": n in configured and case.get("locale", "utf-8") == "utf-8"})
    for k, n in enumerate(case.get("cli_names", [])):
        steps.append({"ep": "cli", "name": n, **({"verbose": True} if (k + len(n)) % 2 else {})})   # --verbose changes what is LOGGED only
    for l in case.get("runner_lists", []):
        steps.append({"ep": "runner", "names": l})
    if only is not None:
        steps = [only]
    job = {"id": case["id"], "path": path, "dirs": dirs, "hostenv": case.get("hostenv", {}), "steps": steps,
           "host_builds_an_env_from_the_default": bool(case.get("host_builds_an_env_from_the_default")),
           "backend": case.get("backend", "pydantic"), "locale": case.get("locale", "utf-8")}
    if case["kind"] == "valid" and case.get("rewritten"):
        job["pre"] = pre
    return job, src


def worker_env(backend, loc="utf-8"):
    """A controlled host environment for the worker processes: nothing of the invoking shell's environment reaches
    the code under test (or the evidence) except PATH and HOME."""
    env = {"PATH": os.environ.get("PATH", "/usr/bin:/bin"), "HOME": os.environ.get("HOME", "/root"),
           "TERM": "xterm", "SHELL": "/bin/bash", "USER": "verif", "LOGNAME": "verif",
           "PYTHONPATH": os.path.join(lib.REPO, "src"), "PYTHONHASHSEED": "0", "PYTHONDONTWRITEBYTECODE": "1",
           "C20_HOST_ONLY": "must-not-reach-a-child"}
    if backend == "fallback":
        env["MCP_FORCE_FALLBACK"] = "1"
    if loc == "legacy-ascii":
        # a process whose locale encoding is not UTF-8 (what a Windows code page or a C locale without UTF-8 mode gives)
        env.update({"LC_ALL": "C", "PYTHONUTF8": "0", "PYTHONCOERCECLOCALE": "0"})
    else:
        env.update({"LC_ALL": "C.UTF-8", "PYTHONUTF8": "1"})
    return env


def run_workers(jobs, rundir, tag, nworkers=None):
    """Distribute the jobs over worker processes (one group per validation back end); returns {case id: result}."""
    if not jobs:
        return {}
    total = max(1, min(nworkers or NWORKERS, len(jobs)))
    procs = []
    for backend, loc in (("pydantic", "utf-8"), ("fallback", "utf-8"), ("pydantic", "legacy-ascii")):
        mine_all = [j for j in jobs if (j.get("backend", "pydantic"), j.get("locale", "utf-8")) == (backend, loc)]
        if not mine_all:
            continue
        weight = lambda js: sum(1 + 3 * len(j["steps"]) for j in js)
        nw = max(1, min(len(mine_all), round(total * weight(mine_all) / weight(jobs))))
        mine_all.sort(key=lambda j: -len(j["steps"]))
        for w in range(nw):
            mine = mine_all[w::nw]
            jp = os.path.join(rundir, f"job-{tag}-{backend}-{loc}-{w}.json")
            op = os.path.join(rundir, f"out-{tag}-{backend}-{loc}-{w}.json")
            with open(jp, "w", encoding="utf-8") as f:
                json.dump({"cases": mine}, f)
            p = subprocess.Popen([lib.PY, os.path.join(HERE, "c20_worker.py"), jp, op], env=worker_env(backend, loc), cwd=rundir,
                                 stdin=subprocess.DEVNULL, stdout=subprocess.DEVNULL, stderr=subprocess.DEVNULL)
            procs.append((p, op, len(mine), backend, loc))
    out = {}
    for p, op, n, backend, loc in procs:
        try:
            p.wait(timeout=120 + 60 * n)
        except subprocess.TimeoutExpired:
            p.kill()
            raise lib.HarnessError("C20 worker did not finish")
        if p.returncode != 0 or not os.path.exists(op):
            log = ""
            try:
                log = open(op + ".log").read()[-1500:]
            except OSError:
                pass
            raise lib.HarnessError(f"C20 worker failed rc={p.returncode}: {log}")
        data = json.load(open(op, encoding="utf-8"))
        if data.get("backend") != backend:
            raise lib.HarnessError(f"worker ran under back end {data.get('backend')!r}, wanted {backend!r}")
        if (data.get("encoding", "").lower().replace("-", "") == "utf8") != (loc == "utf-8"):
            raise lib.HarnessError(f"worker ran with locale encoding {data.get('encoding')!r}, wanted {loc}")
        for r in data["results"]:
            out[r["id"]] = r
    return out


# --------------------------------------------------------------------------- #
# judging
# --------------------------------------------------------------------------- #
def refusers_of(src):
    if src[0] != "json" or not isinstance(src[1], dict):
        return []
    out = []
    servers = src[1].get("mcpServers")
    if isinstance(servers, dict):
        for sv in servers.values():
            if isinstance(sv, dict) and isinstance(sv.get("command"), str) and os.path.basename(sv["command"]).startswith("refuse"):
                out.append(sv["command"])
    return out


def compact_case(case, step):
    c = {k: case[k] for k in ("kind", "config", "ser", "path_kind", "hostenv", "text", "sub", "backend", "locale",
                              "host_builds_an_env_from_the_default") if k in case}
    c["step"] = step
    return c


def canon_run(o):
    return {"procs": [{"argv": p["argv"], "env": dict(sorted(p["env"].items())), "init": p["init"]} for p in o["procs"]],
            "connected": o["connected"]}


def canon_load(o):
    if o["outcome"] != "ok":
        return {"outcome": "raise", "cls": o.get("cls", "OTHER")}
    t = o["timeout"]
    if isinstance(t, dict):
        t = t.get("dec") if "dec" in t else ["not-a-number", t.get("bad")]
    return {"outcome": "ok", "command": o["command"], "args": o["args"], "env": dict(sorted((o["env"] or {}).items())),
            "timeout": t}


class Judge:
    """Collects driver requests for a batch of (case, result) pairs, runs the driver once, then evaluates."""

    def __init__(self, drv):
        self.drv = drv
        self.reqs = []
        self.items = []

    def ask(self, line):
        self.reqs.append(line)
        return len(self.reqs) - 1

    def add(self, case, src, res):
        s = sx_src(src)
        host = sx_env(res["host"])
        denv = sx_env(res["denv"])
        ref = sx_strs(refusers_of(src))
        entry = {"case": case, "src": src, "res": res, "steps": [],
                 "q_denv": self.ask(call(4, host)),
                 "q_valid": self.ask(call(12, js_sx(src[1]))) if src[0] == "json" else None}
        for step, ob in zip_steps(case, res):
            it = {"step": step, "ob": ob}
            if ob.get("hang"):
                entry["steps"].append(it)
                continue
            if step["ep"] == "loader":
                it["q_model"] = self.ask(call(1, s, sx(step["name"])))
                it["q_spec"] = self.ask(call(10, s, sx(step["name"]), load_obs_sx(ob)))
                if "launch" in ob:
                    procs = procs_of_records(ob["launch"]["procs"], case.get("_bare_map"))
                    it["run_obs"] = {"procs": procs, "connected": ob["launch"]["connected"]}
                    it["names"] = [step["name"]]
                    it["q_rmodel"] = self.ask(call(2, ref, denv, s, sx(step["name"])))
                    it["q_rspec"] = self.ask(call(11, ref, denv, s, sx_strs(it["names"]),
                                                  sx_procs_obs(procs, ob["launch"]["connected"])))
            elif step["ep"] == "cli":
                procs = procs_of_records(ob["procs"], case.get("_bare_map"))
                conn = 1 if ob["exit"] == 0 else 0
                it["run_obs"] = {"procs": procs, "connected": conn}
                it["names"] = [step["name"]]
                it["q_rmodel"] = self.ask(call(2, ref, denv, s, sx(step["name"])))
                it["q_rspec"] = self.ask(call(11, ref, denv, s, sx_strs(it["names"]), sx_procs_obs(procs, conn)))
            elif step["ep"] == "runner":
                procs = procs_of_records(ob["procs"], case.get("_bare_map"))
                conn = ob["connected"]
                it["run_obs"] = {"procs": procs, "connected": conn}
                it["names"] = list(step["names"])
                it["q_rmodel"] = self.ask(call(3, ref, denv, s, sx_strs(it["names"])))
                it["q_rspec"] = self.ask(call(11, ref, denv, s, sx_strs(it["names"]), sx_procs_obs(procs, conn)))
            # what is configured, for naming the class of a failure
            it["q_exp"] = [self.ask(call(14, s, sx(n))) for n in (it.get("names") or [step.get("name", "")])]
            entry["steps"].append(it)
        self.items.append(entry)

    def evaluate(self, ctx, count=True):
        """Returns {case id: [failure, ...]}; failure = ("spec", klass, case, detail) | ("mismatch", case, impl, model, what)."""
        ans = self.drv.run(self.reqs)
        out = {}
        for entry in self.items:
            case, src, res = entry["case"], entry["src"], entry["res"]
            fails = out.setdefault(case["id"], [])
            m_denv = {lib.as_str(k): lib.as_str(v) for k, v in ans[entry["q_denv"]]}
            if count:
                # which variables the default environment inherits is not the property's business: reported, never judged
                if m_denv != res["denv"]:
                    ctx.count("default-env:model-differs")
                    lst = ctx.extra.setdefault("default_env_model_differences", [])
                    if len(lst) < 3:
                        lst.append({"hostenv": case.get("hostenv", {}), "implementation": res["denv"], "model": m_denv})
                else:
                    ctx.count("default-env:model-agrees")
            if case["kind"] == "valid" and not ans[entry["q_valid"]]:
                raise lib.HarnessError(f"generator produced a configuration the specification does not call valid: {case['config']!r}")
            valid = case["kind"] != "shape"
            for it in entry["steps"]:
                step, ob = it["step"], it["ob"]
                cc = compact_case(case, step)
                ep = step["ep"]
                if count:
                    # the runner on an empty list of names has nothing to do: counted, but not as a non-trivial case
                    ctx.case(cc, nontrivial=not (ep == "runner" and not step["names"]))
                    ctx.count("entry-point:" + ep)
                if ob.get("hang"):
                    fails.append(("spec", f"{ep}-hangs", cc, f"no return within the step timeout; processes seen: {len(ob.get('procs', []))}"))
                    continue
                expected = [lib.as_opt(ans[q]) for q in it["q_exp"]]
                if ep == "loader":
                    m = load_of_sx(ans[it["q_model"]])
                    ci, cm = canon_load(ob), canon_load({**m, "timeout": m.get("timeout")})
                    if count:
                        ctx.count("loader-outcome:" + (ob["outcome"] if ob["outcome"] != "raise" else "raise-" + ob["cls"]))
                    spec_bad = False
                    if valid:
                        if count:
                            ctx.spec_total += 1
                        if not ans[it["q_spec"]]:
                            spec_bad = True
                            fails.append(("spec", loader_class(case, ob, expected[0]), cc,
                                          f"observed {ci}; configured {describe(expected[0])}"))
                    if ci != cm:
                        if valid:
                            if not spec_bad:      # a specification failure is the stronger report of the same step
                                fails.append(("mismatch", cc, ci, cm, "load_config: model != implementation"))
                        elif count:
                            # malformed shapes are outside the property's domain: how the loader treats them may change
                            # freely; the comparison is reported, never judged
                            ctx.count("shape-stream:model-differs")
                            lst = ctx.extra.setdefault("out_of_domain_shape_differences", [])
                            if len(lst) < 5:
                                lst.append({"config": case["config"], "implementation": ci, "model": cm})
                    elif not valid and count:
                        ctx.count("shape-stream:model-agrees")
                if "run_obs" in it:
                    label = "loader+transport" if ep == "loader" else ep
                    if ep == "loader" and count:
                        ctx.case({**cc, "via": "stdio_client"}, nontrivial=True)
                        ctx.count("entry-point:loader+transport")
                    o = canon_run(it["run_obs"])
                    m = canon_run(run_of_sx(ans[it["q_rmodel"]]))
                    if count:
                        ctx.spec_total += 1
                        ctx.count("launches-per-run:%d" % min(len(o["procs"]), 5))
                    # a variable in a launched server's environment is CONFIGURED (somewhere in the file) or INHERITED (the
                    # host's environment holds it with that value at launch): anything else came from nowhere the property
                    # allows - e.g. out of a mapping the host had been handed earlier and had written into
                    pairs = {k for sv in (case.get("config", {}).get("mcpServers", {}) or {}).values() if isinstance(sv, dict)
                             and isinstance(sv.get("env"), dict) for k in sv["env"]}      # by NAME: values hold placeholders here
                    foreign = sorted({k for p_ in it["run_obs"]["procs"] for k, v in p_["env"].items()
                                      if res["host"].get(k) != v and k not in pairs and not k.startswith("C20_WITNESS")
                                      and k not in ("LC_CTYPE", "PWD", "SHLVL", "_", "OLDPWD")})
                    if count:
                        ctx.spec_total += 1
                    if foreign:
                        fails.append(("spec", f"{label}:server-environment-holds-a-variable-neither-configured-nor-inherited", cc,
                                      f"variables {foreign} of a launched server are neither configured in the file nor in the host's "
                                      f"environment with that value"))
                    if ans[it["q_rspec"]]:
                        if o != m:
                            fails.append(("mismatch", cc, o, m, f"{label}: model != implementation"))
                    else:
                        fails.append(("spec", run_class(label, case, it, expected, res["denv"], src), cc,
                                      f"observed {short(o)}; configured {[describe(e) for e in expected]}; default env keys "
                                      f"{sorted(res['denv'])}"))
        return out


def zip_steps(case, res):
    # the worker ran exactly the steps materialise() produced, in order
    steps = []
    only = case.get("only")
    if only is not None:
        steps = [only]
    else:
        configured = set(case["config"]["mcpServers"]) if case["kind"] == "valid" else set()
        for n in case.get("loader_names", []):
            steps.append({"ep": "loader", "name": n, "launch": n in configured and case.get("locale", "utf-8") == "utf-8"})
        for k, n in enumerate(case.get("cli_names", [])):
            steps.append({"ep": "cli", "name": n, **({"verbose": True} if (k + len(n)) % 2 else {})})
        for l in case.get("runner_lists", []):
            steps.append({"ep": "runner", "names": l})
    if len(steps) != len(res["steps"]):
        raise lib.HarnessError("worker returned a different number of steps")
    return zip(steps, res["steps"])


def describe(e):
    if e is None:
        return None
    t = lib.as_opt(e[3])
    return {"command": lib.as_str(e[0]), "args": [lib.as_str(a) for a in e[1]],
            "env": {lib.as_str(k): lib.as_str(v) for k, v in e[2]}, "timeout": None if t is None else [t[0], t[1]]}


def short(o):
    s = json.dumps(o, ensure_ascii=True)
    return s if len(s) < 1500 else s[:1500] + "..."


def is_mojibake(observed, expected):
    """the observed strings are the expected ones with their UTF-8 bytes decoded through an 8-bit code page"""
    flat = lambda l: [x for it in l for x in (it if isinstance(it, (tuple, list)) else (it,))]
    o, x = flat(observed), flat(expected)
    if o == x or len(o) != len(x):
        return False
    for enc in ("latin-1", "cp1252"):
        try:
            if all(a == b or a.encode(enc).decode("utf-8") == b for a, b in zip(o, x)):
                return True
        except (UnicodeError, AttributeError):
            continue
    return False


def loader_class(case, ob, exp):
    if case["kind"] == "missing":
        return "missing-file-not-FileNotFoundError"
    if case["kind"] == "badjson":
        return "invalid-json-not-JSONDecodeError"
    e = describe(exp)
    if e is None:
        return "unknown-server-name-not-ValueError"
    if ob["outcome"] == "raise":
        if ob.get("type") in ("UnicodeDecodeError", "UnicodeEncodeError"):
            return "config-file-read-with-locale-encoding"
        return "loader-raises-on-valid-config"
    if ob["outcome"] == "ok" and is_mojibake([ob["command"]] + list(ob["args"] or []) + sorted((ob["env"] or {}).items()),
                                             [e["command"]] + e["args"] + sorted(e["env"].items())):
        return "config-file-read-with-locale-encoding"
    if ob["outcome"] != "ok":
        return "loader-does-not-return-parameters-and-timeout"
    if ob["command"] != e["command"]:
        return "loader-command-differs"
    if ob["args"] != e["args"]:
        return "loader-args-differ"
    if (ob["env"] or {}) != e["env"]:
        return "loader-env-differs"
    return "loader-timeout-differs"


def run_class(label, case, it, expected, denv, src):
    exp = [describe(e) for e in expected if e is not None]
    procs = it["run_obs"]["procs"]
    if case["kind"] in ("missing", "badjson") or not exp:
        if procs:
            return f"{label}-launches-on-configuration-error"
        return f"{label}-reports-connection-on-configuration-error"
    if not procs:
        return f"{label}-launches-nothing"
    if len(procs) != len(exp):
        return f"{label}-launch-count-differs"
    for p, e in zip(procs, exp):
        if p["argv"][:1] != [e["command"]]:
            return f"{label}-command-differs"
        if p["argv"] != [e["command"]] + e["args"]:
            return f"{label}-args-differ"
        want = e["env"] if e["env"] else denv
        if p["env"] != want:
            return f"{label}-configured-env-differs" if e["env"] else f"{label}-default-env-differs"
    for p in procs:
        if not p["init"]:
            return f"{label}-no-initialize-sent"
    ref = set(refusers_of(src))
    want_conn = sum(1 for e in exp if e["command"] not in ref)
    if it["run_obs"]["connected"] != want_conn:
        return f"{label}-connection-count-differs"
    return f"{label}-spec-failure-unclassified"


# --------------------------------------------------------------------------- #
def make_rundir():
    base = "/var/tmp" if os.path.isdir("/var/tmp") else tempfile.gettempdir()
    rundir = tempfile.mkdtemp(prefix="verif-c20-", dir=base)
    witness = os.path.join(rundir, "witness.py")
    shutil.copy(os.path.join(HERE, "c20_witness.py"), witness)
    os.chmod(witness, 0o755)
    return rundir, witness


def run_batch(ctx, drv, cases, rundir, witness, tag, count=True, nworkers=None):
    mats = {}
    jobs = []
    for c in cases:
        job, src = materialise(c, rundir, witness)
        mats[c["id"]] = src
        jobs.append(job)
    results = run_workers(jobs, rundir, tag, nworkers)
    j = Judge(drv)
    for c in cases:
        if c["id"] not in results:
            raise lib.HarnessError(f"no result for case {c['id']}")
        j.add(c, mats[c["id"]], results[c["id"]])
    fails = j.evaluate(ctx, count=count)
    stragglers = sum(r.get("stragglers", 0) for r in results.values())
    return fails, stragglers


def shrink_failures(ctx, drv, rundir, witness):
    """Delta-debugging, one level: for the first failing case of every class try the same step on the file reduced to a
    single server (and a single name); keep the smallest variant that still fails with the same class."""
    seen = {}
    for i, f in enumerate(ctx.spec_fail):
        seen.setdefault(f["class"], i)
    cands = []
    for klass, i in seen.items():
        case = ctx.spec_fail[i]["case"]
        if case.get("kind") != "valid" or not isinstance(case.get("config"), dict):
            continue
        servers = case["config"].get("mcpServers", {})
        if len(servers) <= 1:
            continue
        step = case["step"]
        names = step.get("names", [step.get("name")])
        for n in dict.fromkeys(names):
            if n not in servers:
                continue
            small = {"kind": "valid", "id": 20_000_000 + len(cands), "config": {"mcpServers": {n: servers[n]}},
                     "ser": case["ser"], "path_kind": "plain", "hostenv": case.get("hostenv", {}), "dims": [],
                     "backend": case.get("backend", "pydantic"), "locale": case.get("locale", "utf-8"),
                     "only": ({"ep": "runner", "names": [n]} if step["ep"] == "runner" else {**step, "name": n})}
            cands.append((klass, i, small))
    if not cands:
        return
    fails, _ = run_batch(ctx, drv, [c for _k, _i, c in cands[:40]], rundir, witness, "shrink", count=False, nworkers=4)
    done = set()
    for klass, i, small in cands[:40]:
        if klass in done:
            continue
        for f in fails.get(small["id"], []):
            if f[0] == "spec" and f[1] == klass:
                ctx.spec_fail[i] = {"class": klass, "case": f[2], "detail": f[3] + "  [shrunk from a larger generated case]"}
                done.add(klass)
                break


def record(ctx, fails):
    for f in fails:
        if f[0] == "spec":
            ctx.spec_violation(f[1], f[2], f[3])
        else:
            ctx.mismatch(f[1], f[2], f[3], f[4])


REQUIRED_BUCKETS = ["backend:pydantic", "backend:fallback", "process-locale:utf-8", "process-locale:legacy-ascii", "servers:1", "servers:4", "args:absent", "args:empty-list", "arg:empty-string", "arg:unicode", "arg:quote",
                    "arg:whitespace", "env:absent", "env:null", "env:empty", "timeout:absent", "timeout:int", "timeout:float",
                    "timeout:string-number", "extra-server-keys:yes", "extra-top-keys:yes", "file:raw-utf8", "file:ascii-escapes",
                    "witness:answers", "witness:refuses", "witness:chatty-on-stderr", "hostenv:patched", "source:missing-file", "source:invalid-json",
                    "source:valid-zero-servers", "entry-point:loader", "entry-point:cli", "entry-point:runner",
                    "entry-point:loader+transport", "loader-outcome:raise-FNF", "loader-outcome:raise-JSON", "loader-outcome:raise-VAL",
                    "loader-outcome:ok", "file-history:rewritten-in-place-after-a-load", "file-history:fresh", "command:bare-name", "command:path"]


def explore(ctx, drv):
    rng = ctx.rng
    n_valid = ctx.budget(200, 2500)
    cases = [gen_valid_case(rng, i) for i in range(n_valid)]
    cases += gen_error_cases(rng, len(cases))
    cases += gen_shape_cases(len(cases))
    for c in cases:
        for d in c["dims"]:
            ctx.count(d)
    rundir, witness = make_rundir()
    try:
        t0 = time.time()
        fails, stragglers = run_batch(ctx, drv, cases, rundir, witness, "p1")
        ctx.extra["first_pass_wall_s"] = round(time.time() - t0, 1)
        bad = [c for c in cases if fails.get(c["id"])]
        flakes = 0
        confirmed = 0
        retried = 0
        # Wall-clock observations: a failing case is re-run once (fresh directories) before it is
        # believed.  The first 24 are always re-run; if (nearly) all of them fail again the failure is systematic and the
        # remaining first-pass failures are believed as they are, otherwise every one of them is re-run too.
        todo = list(bad)
        first = True
        while todo:
            chunk, todo = (todo[:24], todo[24:]) if first else (todo, [])
            retry = []
            for c in chunk:
                c2 = copy.deepcopy(c)
                c2["id"] = 10_000_000 + retried
                retried += 1
                retry.append((c, c2))
            fails2, s2 = run_batch(ctx, drv, [c2 for _c, c2 in retry], rundir, witness, "p2-%d" % retried, count=False,
                                   nworkers=4)
            stragglers += s2
            n_conf = 0
            for c, c2 in retry:
                f2 = fails2.get(c2["id"], [])
                if f2:
                    n_conf += 1
                    record(ctx, f2)
                else:
                    flakes += 1
            confirmed += n_conf
            if first and todo and n_conf * 10 >= len(chunk) * 9:
                for c in todo:
                    record(ctx, fails[c["id"]])
                confirmed += len(todo)
                todo = []
            first = False
        shrink_failures(ctx, drv, rundir, witness)
        ctx.extra["retried_cases"] = len(bad)
        ctx.extra["flakes_not_reproduced"] = flakes
        ctx.extra["children_left_behind_by_entry_points"] = stragglers
        if flakes > max(3, len(cases) // 20):
            raise lib.HarnessError(f"{flakes} cases failed once and passed on retry: the environment is too unstable to judge")
    finally:
        shutil.rmtree(rundir, ignore_errors=True)
    missing = [b for b in REQUIRED_BUCKETS if not ctx.hist.get(b)]
    if missing and not ctx.spec_fail and not ctx.corr_mismatch:
        raise lib.HarnessError(f"generator dimensions that never occurred: {missing}")


def run(ctx):
    lib.standard_obligations(ctx, GEN, TARGETS)
    drv = lib.Driver("C20")
    if ctx.broken_obligations:
        ctx.escalated = True
    explore(ctx, drv)
    if ctx.corr_mismatch and not ctx.escalated and not ctx.spec_fail:
        ctx.escalated = True
        explore(ctx, drv)
    if ctx.thorough:
        lib.coqchk(ctx, "C20")
    ctx.rule = ("seeded configuration files per the property's quantifier: 1..4 servers; names/commands/args/env from pools with "
                "spaces, quotes, Unicode (BMP + astral, combining, RTL), empty strings, shell metacharacters, 300-char strings; args "
                "absent/[]/1..5; env absent/null/{}/1..5 values; timeout absent/null/int/float/string-number; extra and decoy keys "
                "(Command, ARGS, mcpservers ...); file written with \\u escapes or raw UTF-8, compact or indented; config path plain or "
                "with space+Unicode; host environment patched (TERM/SHELL/USER/LOGNAME/HOME unset, empty, '()...' values); validation back "
                "end Pydantic or fallback (20%); process locale UTF-8 or legacy ASCII (12%, loader only) - x the "
                "loader (every configured name + an unknown one; what it returns is also launched through the library's "
                "stdio_client + send_initialize), the CLI main() (--config F --server NAME, every configured name + an unknown "
                "one) and run_command (one list of distinct names: all / reversed+unknown / shuffled+unknown inside / single / only unknown / "
                "empty); witness children that answer or refuse initialize. Malformed classes: missing file (2), invalid JSON "
                "(22 texts incl. truncations), unknown name (in every valid case + zero-server files). Loader-only shape stream "
                "(70 malformed shapes) for the model tie. One counted case = one run of one entry point on one (file, name(s)); "
                "distinct = distinct (file content, host patch, step); non-trivial = every run except the runner on an empty name list; "
                "all counted cases call the real code")
    return lib.finish(ctx, TRUSTED, ASSUME)


def replay(ctx, data):
    drv = lib.Driver("C20")
    case = dict(data.get("case", {}))
    if "step" not in case:
        print("replay file does not hold a C20 case")
        return 0
    case["only"] = case.pop("step")
    case["id"] = 0
    case.setdefault("dims", [])
    rundir, witness = make_rundir()
    try:
        fails, _ = run_batch(ctx, drv, [case], rundir, witness, "r", count=False)
    finally:
        shutil.rmtree(rundir, ignore_errors=True)
    fl = fails.get(0, [])
    for f in fl:
        print("REPRODUCED", json.dumps(f, default=str, ensure_ascii=True)[:1500])
    spec = [f for f in fl if f[0] == "spec"]
    record(ctx, fl)
    return 1 if spec or fl else 0

"""C01 — a request completes only with the response that bears its own id."""
from __future__ import annotations

import itertools

import lib
import await_common as A

META = {
    "level": "Proof: for EVERY finite arrival history (results, errors, same-id server requests, other-id responses, notifications, "
             "progress, batch lists; arbitrary arrival times), every id shape, deadline and every ordering of same-instant events, each "
             "possible result of the modelled send_message passes the extracted C01 checker: it returns/raises the payload of the FIRST "
             "response bearing its id iff that response arrives before the deadline, times out at the deadline otherwise, and writes "
             "exactly the one request (master lemma loop_explained: every result is explained by a split of the history into a "
             "processed non-decisive prefix and an unprocessed suffix; induction over the history). The model is tied to the real "
             "send_message by virtual-clock differential runs; the polling interval and the error classifier are regenerated from source.",
    "note": "Trusted: Coq kernel; translator for sub_timeout and errors.py; extraction (ExtrOcamlBasic only); the virtual-clock loop "
            "(harness/vloop.py) and anyio's memory streams behaving as a FIFO that neither loses nor duplicates an item; same-instant "
            "events are compared against the model's SET of outcomes. Results are JSON objects (a null result returns the whole envelope, noted in DESIGN).",
    "technique": "Coq proof by induction over arrival histories (trace-explanation invariant) + virtual-time differential correspondence",
    "design_ref": "DESIGN.md section 6 (C01)",
}
GEN = ["ConstsGen.v", "ErrorsGen.v"]
TARGETS = ["Gen/ConstsGen", "Gen/ErrorsGen", "Model/Await", "Spec/C01", "Proofs/Await", "Proofs/AwaitSpec",
           "Proofs/AwaitReadable", "Props/C01"]
TRUSTED = [
    "Coq 8.16.1 kernel (coqc); coqchk in the thorough tier; vm_compute only in the non-vacuity Example",
    "axioms: none (Closed under the global context for every C01 theorem)",
    "translator: sub_timeout (send_message.py) -> Gen/ConstsGen.v, error sets/classifier (errors.py) -> Gen/ErrorsGen.v",
    "hand-written model Model/Await.v of send_message/_await_response/_process_response, tied by the correspondence run",
    "extraction ExtrOcamlBasic only; ocaml/main.ml text<->sexp",
    "modelled, not verified: anyio memory streams / cancel scopes / asyncio timer ordering (virtual loop harness/vloop.py)",
]
ASSUME = [
    "arrivals are time-ordered (the queue is FIFO); processing a message takes no virtual time",
    "events at exactly the same instant may be ordered either way: the model returns all possible results",
    "message payloads are opaque tokens; results are JSON objects",
]

# ("twin",) = the same digits under the other JSON type (int for a digit-string id)
KINDS = [("res", ("me",)), ("err", ("me",)), ("req", ("me",)), ("res", ("str", "zz-other")), ("err", ("str", "zz-other")),
         ("res", ("twin",)), ("notif",), ("nullerr",), ("nullres",), ("cancelnotif", ("me",)), ("prog", True), ("prog", False), ("batch", ("me",)), ("req", ("str", "zz-other"))]
IDS = ["a", "123", None, "req-é中", "0", "-5"]


def is_digits(me):
    return bool(me) and me.lstrip("-").isdigit() and str(int(me)) == me


def mk(kind, me, n):
    k = kind[0]
    if k == "cancelnotif":
        return ("cancelnotif", kind[1])
    if k in ("res", "err", "req", "batch"):
        ids = kind[1]
        if ids[0] == "twin":
            ids = ("int", int(me)) if is_digits(me) else ("str", (me or "x") + " ")
        if k == "res":
            return ("res", ids, 100 + n)
        if k == "err":
            return ("err", ids, [-32601, -32603, -32000, 7, -32001][n % 5], None if n % 2 else {"d": n})
        if k == "req":
            return ("req", ids)
        return ("batch", ids)
    if k in ("notif", "nullerr", "nullres"):
        return (k,)
    return ("prog", kind[1], n % 7)


PARAM_SHAPES = (None, {}, {"a": {"b": [1, None, " "]}, "n": None},
                {"_meta": {"traceparent": "00-ab-01", "tenant": 7}, "x": 1},          # the caller's own _meta entries must survive
                {"_meta": {"progressToken": "stale-token", "k": None}, "y": [None]},  # a dict reused from an earlier call
                {"_meta": {}},
                {"n": 2 ** 64, "deep": [{"m": -(2 ** 70)}], "f": 1e300, "z": None})    # integers of any size are given, hence written, exactly


def gen(ctx):
    rng = ctx.rng
    out = []
    for D in (100, 120):
        times = sorted({-1, 0, 1, 49, 50, 51, 75, 99, 100, 101, D - 1, D, D + 1})
        for me in IDS:
            for kind in KINDS:
                for t in times:
                    out.append({"D": D, "me": me, "arrivals": [(t, mk(kind, me, 1))]})
        for (t1, t2) in itertools.combinations_with_replacement(times, 2):
            for k1, k2 in itertools.product(KINDS, KINDS[:3]):
                me = rng.choice(IDS)
                out.append({"D": D, "me": me, "arrivals": [(t1, mk(k1, me, 1)), (t2, mk(k2, me, 2))]})
    # degenerate deadlines: a timeout of exactly 0 / of one tick; what arrives later does not complete the request
    for D in (0, 1):
        for me in ("a", None):
            for arr in ([], [(-1, ("res", ("me",), 1))], [(0, ("res", ("me",), 1))], [(1, ("res", ("me",), 1))],
                        [(30, ("res", ("me",), 1))], [(2, ("notif",)), (40, ("err", ("me",), -32601, None))]):
                out.append({"D": D, "me": me, "arrivals": arr})
    for _ in range(ctx.budget(1200, 40000)):
        D = rng.choice((60, 100, 137, 250, 6000))
        me = rng.choice(IDS)
        L = rng.choice((3, 4, 5, 8, 12, 40))
        hot = [0, 49, 50, 51, 99, 100, 101, D - 1, D, D + 1]
        ts = sorted((rng.choice(hot) if rng.random() < 0.5 else rng.randrange(-2, D + 30)) for _ in range(L))
        out.append({"D": D, "me": me, "arrivals": [(t, mk(rng.choice(KINDS), me, i)) for i, t in enumerate(ts)],
                    "params": rng.choice(PARAM_SHAPES)})
    # every params shape, with and without a progress callback (the token is written into params._meta), a matching progress
    # notification and the answer
    for shape in PARAM_SHAPES:
        for has_cb in (False, True):
            for me in ("a", None):
                out.append({"D": 100, "me": me, "params": shape, "has_cb": has_cb,
                            "arrivals": [(10, ("prog", True, 3)), (20, ("res", ("me",), 4))]})
    # the same instant, the other order: arrivals exactly on a poll boundary delivered just BEFORE the poll's deadline fires
    for s in [dict(x) for x in out if x["arrivals"] and len(x["arrivals"]) <= 2
              and any(t > 0 and t % 50 == 0 for t, _m in x["arrivals"])]:
        s["feeder_first"] = True
        out.append(s)
    for s in out:
        s.setdefault("has_cb", any(m[0] == "prog" for _t, m in s["arrivals"]) and rng.random() < 0.7)
        s.setdefault("cancel", None)
        s.setdefault("params", None)
    return out


def explore(ctx, model, spec):
    scs = gen(ctx)
    for sc in scs:
        for _t, m in sc["arrivals"]:
            ctx.count("kind:" + m[0] + (":" + m[1][0] if m[0] in ("res", "err", "req", "batch") else ""))
        ctx.count("len:" + str(min(len(sc["arrivals"]), 9)))
        ctx.count("id:" + ("uuid" if sc["me"] is None else "digits" if is_digits(sc["me"]) else "string"))
    runs = A.check_scenarios(ctx, scs, model, spec, {"c01"})
    for sc, obs in runs:
        if obs["out"]:
            ctx.count("outcome:" + obs["out"][0])


def run(ctx):
    lib.standard_obligations(ctx, GEN, TARGETS)
    spec = lib.Driver("AwaitSpec")
    try:
        model = lib.Driver("Await")
        ctx.oblige("build:driver-model(Await)", True)
    except lib.HarnessError as e:
        model = None
        ctx.oblige("build:driver-model(Await)", False, str(e)[-600:])
    if ctx.broken_obligations:
        ctx.escalated = True
    explore(ctx, model, spec)
    if ctx.corr_mismatch and not ctx.escalated and not ctx.spec_fail:
        ctx.escalated = True
        explore(ctx, model, spec)
    if ctx.thorough:
        lib.coqchk(ctx, "C01")
    ctx.rule = ("real send_message under a virtual clock: every message kind (13, incl. same-id server request, int twin of a digit id, "
                "batch list holding a matching response, null-id error response, id-less result) x 13 arrival times around the 0.5 s boundaries and the deadline x 6 id shapes "
                "(length 1, exhaustive), all ordered time pairs x kind pairs (length 2), seeded histories up to length 40; "
                "distinct = distinct scenario dicts, non-trivial = at least one arrival")
    return lib.finish(ctx, TRUSTED, ASSUME)


def replay(ctx, data):
    spec = lib.Driver("AwaitSpec")
    sc = A.case_to_scenario(data["case"])
    A.check_scenarios(ctx, [sc], None, spec, {"c01"})
    for f in ctx.spec_fail:
        print("REPRODUCED", f["class"], f["detail"])
    return 1 if ctx.spec_fail else 0

"""Child processes for the C16 tie: one small, stdlib-only script per behaviour.

usage: c16_child.py <mode> <logfile> <delay-seconds>

Readiness is signalled on stdout as the JSON-RPC notification `notifications/ready` (after every
signal disposition has been installed).  Every result the child writes is appended to <logfile> as
`W <tok>` immediately before the write to stdout - the harness uses it as ground truth for "a result the
child wrote before it died" (a request the child never got to, or died on, has no line).
"""
import json
import os
import select
import signal
import sys
import time

mode = sys.argv[1]
logpath = sys.argv[2]
delay = float(sys.argv[3]) if len(sys.argv) > 3 else 0.0

_log = os.open(logpath, os.O_WRONLY | os.O_CREAT | os.O_APPEND, 0o600)


def note(text):
    os.write(_log, (text + "\n").encode())


def out(obj):
    os.write(1, (json.dumps(obj) + "\n").encode())


def ready():
    out({"jsonrpc": "2.0", "method": "notifications/ready", "params": {"pid": os.getpid()}})


def sleep_forever():
    # short sleeps: a Python-level signal handler (mode term_slow) only runs when the interpreter gets
    # control back; a signal landing just before one long blocking call would be seen an hour later
    while True:
        time.sleep(0.02)


def serve(exit_on=None, on_eof="exit", eof_delay=0.0):
    """Answer every request except method 'hang'.  exit_on: 'recv' (die on the first request, before
    answering) | 'sent' (die after answering the first request) | None."""
    buf = b""
    while True:
        try:
            if not select.select([0], [], [], 0.02)[0]:    # bounded wait, same reason as in sleep_forever
                continue
            chunk = os.read(0, 65536)
        except OSError:
            chunk = b""
        if not chunk:
            if on_eof == "exit":
                if eof_delay:
                    time.sleep(eof_delay)
                os._exit(0)
            sleep_forever()
        buf += chunk
        while b"\n" in buf:
            line, buf = buf.split(b"\n", 1)
            try:
                m = json.loads(line)
            except Exception:
                continue
            if not (isinstance(m, dict) and "id" in m and "method" in m):
                continue
            if m["method"] == "hang":
                continue
            if exit_on == "recv":
                os._exit(3)
            tok = (m.get("params") or {}).get("tok", 0)
            # logged just BEFORE the write: the client may leave (and SIGTERM us) the instant it has the answer,
            # i.e. before a log line written after the write would exist
            note("W %d" % tok)
            try:
                out({"jsonrpc": "2.0", "id": m["id"], "result": {"tok": tok}})
            except OSError:
                pass
            if exit_on == "sent":
                os._exit(3)


def ignore_term():
    signal.signal(signal.SIGTERM, signal.SIG_IGN)


if mode == "exit_start":          # dies before saying anything
    os._exit(3)
elif mode == "well":
    ready()
    serve()
elif mode == "exit_ready":        # step 0 of the conversation
    ready()
    os._exit(3)
elif mode == "exit_recv":         # step 1: got the request, dies before answering
    ready()
    serve(exit_on="recv")
elif mode == "exit_sent":         # step 2: answered, then dies
    ready()
    serve(exit_on="sent")
elif mode == "ignore_term":
    ignore_term()
    ready()
    serve(on_eof="stay")
elif mode == "term_slow":         # SIGTERM handler that needs <delay> to finish; ignores EOF
    def _on_term(_s, _f):
        note("T")
        time.sleep(delay)
        os._exit(0)
    signal.signal(signal.SIGTERM, _on_term)
    ready()
    serve(on_eof="stay")
elif mode == "eof_only":          # ignores SIGTERM but exits <delay> after EOF on stdin
    ignore_term()
    ready()
    serve(on_eof="exit", eof_delay=delay)
elif mode == "never_reads":
    ready()
    sleep_forever()
elif mode == "never_reads_ign":
    ignore_term()
    ready()
    sleep_forever()
elif mode in ("floods", "floods_ign"):
    if mode == "floods_ign":
        ignore_term()
    ready()
    junk = (json.dumps({"jsonrpc": "2.0", "method": "notifications/flood", "params": {"x": "y" * 200}}) + "\n").encode() * 64
    while True:
        os.write(1, junk)
elif mode == "closes_stdout":
    ready()
    os.close(1)
    serve()
elif mode == "closes_stdin":
    ready()
    os.close(0)
    sleep_forever()
elif mode == "closes_both_ign":
    ignore_term()
    ready()
    os.close(0)
    os.close(1)
    sleep_forever()
elif mode == "slow_start":        # not ready (default dispositions, not reading) for <delay>
    time.sleep(delay)
    ready()
    serve()
else:
    os._exit(97)

"""C17 — JSON encoding is backend-independent and always a single NDJSON frame."""
from __future__ import annotations

import ast
import json as stdjson
import json
import anyio
import math
import os
import pickle
import struct
import subprocess
import sys

import lib
from lib import sx, call

META = {
    "level": "Proof: (1) the wrapper logic of fast_json.dumps/loads (orjson first, ANY exception falls back to stdlib json with the "
             "caller's kwargs; HAS_ORJSON fixed at import) round-trips every in-domain value under all four (encoder backend, decoder "
             "backend) pairs, decodes backend-independently and emits no 0x0A/0x0D without indent - for ALL values, under eight explicit "
             "contracts on the four codecs; (2) a concrete reference codec (compact/spaced separators, raw-UTF-8 and \\uXXXX+surrogate-pair "
             "escaping, strict RFC 8259 recursive-descent decoder, strict UTF-8) is proved to emit no byte < 0x20 - hence no raw line "
             "break - for every value and every policy (JsonEnc_no_control_byte, JsonEnc_single_frame); (3) the reference decoder "
             "inverts the reference encoder for every policy and every well-formed value (strings/keys Unicode scalar values, each float's "
             "text a float token that the float reader gives back, integers unbounded), on texts and on UTF-8 bytes, with the fuel bound "
             "size v <= length text made explicit (JsonEnc_roundtrip_fuel, JsonEnc_roundtrip, JsonEnc_roundtrip_bytes); (4) the reference "
             "instantiation of the four codecs satisfies the eight contracts whenever no float text has a character < 0x20 "
             "(C17_reference_codec_satisfies_contracts), and a concrete instance with RFC 8259 float tokens inhabits them on a nested "
             "sample value (C17_nonvacuous). NOT proved, TESTED on every run: that the REAL orjson / json codecs satisfy the contracts "
             "(the reference instantiation of the wrapper is compared byte-for-byte with the real fast_json in worker processes with and "
             "without orjson importable, and the contracts are tested against the raw orjson / json codecs).",
    "note": "Partial by nature: orjson and the stdlib json codec are opaque C/Rust code; the proof covers chuk-mcp's wrapper and the "
            "reference codec, the contracts linking them to the real codecs are empirical (tested on the generated values and on mutated "
            "texts each run). Floats are opaque (formatter/reader are oracles); domain = lone-surrogate-free strings, finite floats, "
            "integers in [-2^63, 2^64-1], nesting within both backends' recursion limits (exercised to depth 300/600), unique keys.",
    "technique": "Coq proof (structural induction over a nested JSON value type, fuelled recursive-descent parser, lia with div/mod) + "
                 "differential correspondence against worker processes (orjson visible / hidden by a stub on PYTHONPATH)",
    "design_ref": "DESIGN.md section 6 (C17)",
}
GEN: list = []
TARGETS = ["Base/JsonVal", "Model/JsonEnc", "Model/FastJson", "Spec/C17", "Proofs/JsonVal", "Proofs/JsonEncClean",
           "Proofs/FastJson", "Proofs/JsonEncRoundUtf8", "Proofs/JsonEncRoundInt", "Proofs/JsonEncRoundStr",
           "Proofs/JsonEncRoundVal", "Proofs/JsonEncRoundContracts", "Props/C17"]

TRUSTED = [
    "Coq 8.16.1 kernel (coqc); coqchk re-check in the thorough tier; no vm_compute/native_compute in the C17 theorems",
    "axioms: none (every C17 / JsonEnc theorem prints 'Closed under the global context')",
    "oracles (universally quantified Section variables): the four codecs enc_o/enc_s/dec_o/dec_s constrained by the record "
    "codec_contracts; the float formatter ftext and float reader fparse; the value domain dom",
    "hand-written model of fast_json.dumps/loads (Model/FastJson.v) and the reference codec (Model/JsonEnc.v), tied by the "
    "correspondence run below (byte-for-byte on every generated value, both backends, two kwargs sets)",
    "extraction: ExtrOcamlBasic only; ocaml/main.ml text<->sexp; harness/c17_worker.py + the orjson-hiding stub harness/c17_noorjson",
    "modelled, not verified: orjson (Rust), CPython's json C accelerator, str.encode/bytes.decode, float repr / strtod",
]
ASSUME = [
    "domain of the property: JSON values whose integers lie in [-2^63, 2^64-1]; strings/keys are sequences of Unicode scalar values "
    "(no lone surrogates); floats finite; object keys unique; nesting depth within both backends' limits (orjson dumps 254, orjson "
    "loads 1024, CPython recursion limit 1000) - the tie exercises depth <= 300 (quick) / 600 (thorough)",
    "'compact encoding' = a dumps call without indent (the only form the transports use for framing); indent=2 output (server tool "
    "results) is multi-line by request and is only checked to round-trip",
    "values above 2^64-1 / below -2^63 are outside the domain: behaviour is recorded in evidence (out_of_domain), never an alarm",
]

HERE = os.path.dirname(os.path.abspath(__file__))
STUB = os.path.join(HERE, "c17_noorjson")
WORKER = os.path.join(HERE, "c17_worker.py")
# keyword sets the library itself passes to fast_json.dumps: none (transports), the fallback back end's model_dump_json
# (indent=None, separators, default=str - an EXPLICIT indent=None must stay compact), an explicit indent=None, and the one
# pretty-printing call (server.py: indent=2), which is the only form allowed to span several lines
KWSETS = [{}, {"separators": (",", ":")}, {"indent": None, "separators": (",", ":"), "default": str}, {"indent": None},
          {"indent": 2}]
KWNAMES = ["default", "compact-separators", "model-dump-json", "indent-none", "indent2"]
BACKENDS = ["orjson", "stdlib"]
INT_MIN, INT_MAX = -2 ** 63, 2 ** 64 - 1

sys.setrecursionlimit(20000)   # the harness's own recursive converters walk deep values


# --------------------------------------------------------------------------- #
# Python value <-> sexp
# --------------------------------------------------------------------------- #
def f_bits(f: float) -> str:
    return str(struct.unpack("<Q", struct.pack("<d", f))[0])


def f_repr(f: float) -> str:          # the stdlib encoder's float formatter (json uses float.__repr__)
    return sx(float.__repr__(f))


def orjson_ftext(f: float) -> str:    # orjson's float formatter, used as an ORACLE on the bare float
    import orjson
    return orjson.dumps(f).decode("utf-8")


def f_orjson(f: float) -> str:
    return sx(orjson_ftext(f))


def f_tok2(f: float) -> str:
    return "(" + f_orjson(f) + " " + f_repr(f) + ")"


def sx_val(v, fl, sort=False) -> str:
    if v is None:
        return "(0)"
    if v is True:
        return "(1 1)"
    if v is False:
        return "(1 0)"
    if isinstance(v, int):
        return f"(2 {v})"
    if isinstance(v, float):
        return f"(3 {fl(v)})"
    if isinstance(v, str):
        return "(4 " + sx(v) + ")"
    if isinstance(v, (list, tuple)):
        return "(5 (" + " ".join([sx_val(x, fl, sort) for x in v]) + "))"
    if isinstance(v, dict):
        items = list(v.items())
        if sort:
            items.sort(key=lambda kv: [ord(c) for c in kv[0]] if isinstance(kv[0], str) else [])
        return "(6 (" + " ".join(["(" + sx(k) + " " + sx_val(x, fl, sort) + ")" for k, x in items]) + "))"
    raise lib.HarnessError(f"not a JSON value: {type(v)}")


def canon(v) -> str:
    """Type-strict canonical form (bool/int/float kept apart, floats by bit pattern, members sorted by key)."""
    return sx_val(v, f_bits, sort=True)


def from_model(p):
    """json(token) result of the model driver -> python value (float(token))."""
    t = p[0]
    if t == 0:
        return None
    if t == 1:
        return bool(p[1])
    if t == 2:
        return p[1]
    if t == 3:
        return float(lib.as_str(p[1]))
    if t == 4:
        return lib.as_str(p[1])
    if t == 5:
        return [from_model(x) for x in p[1]]
    if t == 6:
        return {lib.as_str(k): from_model(x) for k, x in p[1]}
    raise lib.HarnessError(f"bad model value {p!r}")


def walk(v):
    yield v
    if isinstance(v, (list, tuple)):
        for x in v:
            yield from walk(x)
    elif isinstance(v, dict):
        for k, x in v.items():
            yield k
            yield from walk(x)


def vdepth(v) -> int:
    d = 0
    stack = [(v, 0)]
    while stack:
        x, k = stack.pop()
        if isinstance(x, (list, tuple)):
            d = max(d, k + 1)
            stack.extend((y, k + 1) for y in x)
        elif isinstance(x, dict):
            d = max(d, k + 1)
            stack.extend((y, k + 1) for y in x.values())
    return d


def in_domain_py(v) -> bool:
    return all(INT_MIN <= x <= INT_MAX for x in walk(v) if isinstance(x, int) and not isinstance(x, bool))


def features(v):
    fs = set()
    for x in walk(v):
        if isinstance(x, bool) or x is None:
            fs.add("const")
        elif isinstance(x, int):
            if not (INT_MIN <= x <= INT_MAX):
                fs.add("int-beyond-64-bit")
            elif x > 2 ** 63 - 1:
                fs.add("int-2^63..2^64-1")
            elif abs(x) > 2 ** 53:
                fs.add("int-beyond-2^53")
            else:
                fs.add("int-small")
        elif isinstance(x, float):
            if x == 0 and math.copysign(1, x) < 0:
                fs.add("float-neg-zero")
            elif x != 0 and abs(x) < 2.3e-308:
                fs.add("float-denormal")
            elif abs(x) >= 1e300:
                fs.add("float-huge")
            else:
                fs.add("float")
        elif isinstance(x, str):
            if x == "":
                fs.add("str-empty")
            for c in x:
                o = ord(c)
                if o in (10, 13):
                    fs.add("str-CR/LF")
                elif o < 32:
                    fs.add("str-C0-control")
                elif o in (0x85, 0x2028, 0x2029):
                    fs.add("str-unicode-line-separator")
                elif o in (34, 92):
                    fs.add("str-quote/backslash")
                elif o > 0xFFFF:
                    fs.add("str-astral")
                elif o > 0x7E:
                    fs.add("str-non-ascii-bmp")
                else:
                    fs.add("str-ascii")
        elif isinstance(x, (list, tuple)):
            fs.add("array-empty" if not x else "array")
        elif isinstance(x, dict):
            fs.add("object-empty" if not x else "object")
            if any(any(ord(c) > 0x7E for c in k) for k in x):
                fs.add("key-non-ascii")
    d = vdepth(v)
    if d > 254:
        fs.add("depth>254")
    return fs


PRIMARY = ["int-beyond-64-bit", "depth>254", "int-2^63..2^64-1", "int-beyond-2^53", "str-CR/LF", "str-unicode-line-separator",
           "str-C0-control", "str-astral", "str-non-ascii-bmp", "key-non-ascii", "str-quote/backslash", "float-neg-zero",
           "float-denormal", "float-huge", "float", "array-empty", "object-empty", "str-empty", "const", "int-small", "str-ascii",
           "object", "array"]


def primary_feature(v) -> str:
    fs = features(v)
    for p in PRIMARY:
        if p in fs:
            return p
    return "other"


# --------------------------------------------------------------------------- #
# Generators
# --------------------------------------------------------------------------- #
INTS_IN = [0, -1, 1, 2 ** 53, 2 ** 53 + 1, 2 ** 63 - 1, 2 ** 63, 2 ** 64 - 1, -2 ** 63, -(2 ** 53) - 1, 10, 1234567890123]
INTS_OUT = [2 ** 64, -2 ** 63 - 1, 10 ** 30, -10 ** 30, 2 ** 64 + 1]
FLOATS = [-0.0, 0.0, 1e308, 5e-324, 1.5, 0.1, 1e16, 1e-7, 2.2250738585072014e-308, 1.7976931348623157e308,
          -1e-5, 123456789012345680.0, 1e22, 1e21, -2.5e-10, 1e15, 100.0, 18446744073709551616.0]
CONSTS = [None, True, False]
STRS = (["", "a"] + [chr(i) for i in range(32)] +
        ["\x7f", "\x85", "\u2028", "\u2029", "\uffff", "\U00010000", "\U0010ffff", '"', "\\", "/", "\xe9", "\ud7ff",
         "\ue000", "\ufeff", "\xa0", "\x80", "\u07ff", "\u0800", "a\nb\r\nc", '\u2028"\\\x00\U0001f600\xe9', "</script>",
         "\\u0041", "\\n", "null", "1e5", " ", "\t \n"])
KEYS = ["", "a", "\xe9", "\n", "\u2028", "\U0001f600", '"', "\\", "\x00", "k k", "\u65e5\u672c", "\r"]
EMPTY = [[], {}]
ATOMS = CONSTS + INTS_IN + FLOATS + STRS + EMPTY
SMALL = [None, True, 0, -1, 2 ** 53 + 1, 2 ** 63, 2 ** 64 - 1, -2 ** 63, -0.0, 5e-324, "", "\n", "\r", "\u2028", "\U00010000",
         '"\\', [], {}]


def gen_grammar(ctx):
    """Bounded-exhaustive grammar to depth 3 (atoms = depth 1)."""
    small = ATOMS if (ctx.thorough or ctx.escalated) else SMALL
    lvl1 = list(ATOMS)
    lvl2 = [[a] for a in ATOMS]
    lvl2 += [{k: a} for k in ("k", "\xe9", "\n") for a in ATOMS]
    lvl2 += [{k: 0} for k in KEYS]
    lvl2 += [[a, b] for a in small for b in small]
    lvl2 += [{"a": a, "\u2028": b} for a in SMALL for b in SMALL]
    lvl2 += [{k1: 1, k2: "x"} for k1 in KEYS for k2 in KEYS if k1 != k2]
    lvl3 = [[x] for x in lvl2 if not (isinstance(x, list) and len(x) == 2 and small is ATOMS)]
    lvl3 += [{"k": x} for x in lvl2 if not (isinstance(x, list) and len(x) == 2 and small is ATOMS)]
    rep2 = ([[a] for a in SMALL] + [{"\xe9": a} for a in SMALL])
    lvl3 += [[x, y] for x in rep2 for y in rep2]
    lvl3 += [{"a": x, "\n": y} for x in rep2[::2] for y in rep2[1::2]]
    lvl3 += [[a, x, b] for a in SMALL[:6] for x in rep2[::3] for b in SMALL[6:12]]
    out_dom = []
    for z in INTS_OUT:
        out_dom += [z, [z], {"k": z}, [0, z], [[z]], {"a": [z, 2 ** 64 - 1]}, [z, "\n", 1.5]]
    return lvl1 + lvl2 + lvl3, out_dom


CP_CLASSES = [
    (0x20, 0x7E), (0x20, 0x7E), (0x00, 0x1F), (0x7F, 0xA0), (0xA0, 0x7FF), (0x800, 0xD7FF), (0xE000, 0xFFFF),
    (0x10000, 0x10FFFF), (0x2028, 0x2029), (0x22, 0x22), (0x5C, 0x5C), (0x0A, 0x0A), (0x0D, 0x0D),
]


def rand_str(rng, maxlen=6):
    n = rng.choice((0, 1, 1, 2, 3, maxlen))
    out = []
    for _ in range(n):
        lo, hi = rng.choice(CP_CLASSES)
        out.append(chr(rng.randint(lo, hi)))
    return "".join(out)


def rand_int(rng):
    k = rng.randrange(6)
    if k == 0:
        return rng.randint(-1000, 1000)
    if k == 1:
        return rng.choice((2 ** 53, 2 ** 63, 2 ** 64 - 1, -2 ** 63, 2 ** 63 - 1, 2 ** 31, 2 ** 32)) + rng.randint(-3, 0)
    if k == 2:
        return rng.randint(2 ** 63, 2 ** 64 - 1)
    if k == 3:
        return rng.randint(-2 ** 63, -2 ** 62)
    if k == 4:
        return rng.randint(2 ** 53, 2 ** 63)
    return rng.randint(-2 ** 63, 2 ** 64 - 1)


def rand_float(rng):
    k = rng.randrange(4)
    if k == 0:
        while True:
            f = struct.unpack("<d", struct.pack("<Q", rng.getrandbits(64)))[0]
            if math.isfinite(f):
                return f
    if k == 1:
        return rng.choice(FLOATS)
    if k == 2:
        return rng.choice((1, -1)) * rng.random() * 10.0 ** rng.randint(-320, 300)
    return float(rng.randint(-10 ** 6, 10 ** 6)) / rng.choice((1, 2, 10, 1000, 3))


def rand_value(rng, depth):
    k = rng.randrange(10)
    if depth <= 0 or k < 5:
        a = rng.randrange(6)
        if a == 0:
            return rng.choice(CONSTS)
        if a in (1, 2):
            return rand_int(rng)
        if a == 3:
            return rand_float(rng)
        return rand_str(rng)
    if k < 8:
        return [rand_value(rng, depth - 1) for _ in range(rng.randrange(0, 5))]
    d = {}
    for _ in range(rng.randrange(0, 4)):
        d[rand_str(rng, 3) if rng.random() < 0.7 else rng.choice(KEYS)] = rand_value(rng, depth - 1)
    return d


def nest(n, leaf, kind):
    v = leaf
    for i in range(n):
        if kind == "array" or (kind == "mixed" and i % 2):
            v = [v]
        elif kind == "wide":
            v = [i, v, "\n"]
        else:
            v = {"k" if i % 3 else "\u2028": v}
    return v


def gen_deep(ctx):
    depths = [253, 254, 255, 256, 300] + ([400, 600] if ctx.thorough else [])
    out = []
    for d in depths:
        for kind in ("array", "object", "mixed", "wide"):
            for leaf in (1, [], 2 ** 64 - 1, "\r\n\u2029"):
                out.append(nest(d, leaf, kind))
    return out


# --------------------------------------------------------------------------- #
# Workers (the real fast_json with / without orjson importable)
# --------------------------------------------------------------------------- #
def run_worker(backend, req):
    env = dict(os.environ)
    src = os.path.join(lib.REPO, "src")
    env["PYTHONPATH"] = (STUB + os.pathsep + src) if backend == "stdlib" else src
    env["PYTHONHASHSEED"] = "0"
    env["PYTHONDONTWRITEBYTECODE"] = "1"
    p = subprocess.run([lib.PY, WORKER], input=pickle.dumps(req, protocol=4), stdout=subprocess.PIPE,
                       stderr=subprocess.PIPE, env=env, timeout=1500)
    if p.returncode != 0:
        raise lib.HarnessError(f"C17 worker ({backend}) failed rc={p.returncode}: {p.stderr.decode(errors='replace')[-600:]}")
    out = pickle.loads(p.stdout)
    want = backend == "orjson"
    if out["has_orjson"] != want or out["orjson_importable"] != want:
        raise lib.HarnessError(f"C17 worker meant to run the {backend} backend reports HAS_ORJSON={out['has_orjson']} "
                               f"(orjson importable: {out['orjson_importable']})")
    if not os.path.abspath(out["fast_json_file"]).startswith(os.path.abspath(lib.REPO) + os.sep):
        raise lib.HarnessError(f"worker imported fast_json from {out['fast_json_file']}, not from {lib.REPO}")
    return out


# --------------------------------------------------------------------------- #
# The exploration
# --------------------------------------------------------------------------- #
def contract(ctx, name, ok, case=None, impl=None, model=None):
    cc = ctx.extra.setdefault("contract_checks", {})
    e = cc.setdefault(name, {"checked": 0, "failed": 0})
    e["checked"] += 1
    if not ok:
        e["failed"] += 1
        if e["failed"] <= 3:
            ctx.mismatch(case, impl, model, f"contract {name} does not hold of the real codec")


def short(v, n=300):
    r = repr(v)
    return r if len(r) <= n else r[:n] + f"...<{len(r)} chars>"


def explore(ctx, model, spec, values, out_dom):
    import orjson
    allv = [(v, True) for v in values] + [(v, False) for v in out_dom]
    vals = [v for v, _ in allv]
    # ---- 1. real dumps in both workers ------------------------------------
    wd = {b: run_worker(b, {"dumps": vals, "kwsets": KWSETS}) for b in BACKENDS}
    for b in BACKENDS:
        if not wd[b]["alias_ok"]:
            ctx.notes.append(f"fast_json.JSONDecodeError is not json.JSONDecodeError in the {b} worker")
    ctx.extra["workers"] = {b: {"HAS_ORJSON": wd[b]["has_orjson"], "fast_json": wd[b]["fast_json_file"]} for b in BACKENDS}
    # distinct texts per value
    texts_of = []
    all_texts = {}
    for i, v in enumerate(vals):
        row = {}
        for b in BACKENDS:
            for k, kwname in enumerate(KWNAMES):
                st, t = wd[b]["dumps"][i][k]
                row[(b, kwname)] = t if st == "ok" else None
                if st == "ok":
                    all_texts.setdefault(t, len(all_texts))
        texts_of.append(row)
    text_list = list(all_texts)
    # ---- 2. real loads of every text in both workers ----------------------
    wl = {b: run_worker(b, {"loads": text_list, "kwsets": KWSETS})["loads"] for b in BACKENDS}
    # ---- 3. model: the wrapper instantiated with the reference codecs ------
    if model:
        req = []
        for v, _dom in allv:
            s2 = sx_val(v, f_tok2)
            for has in (1, 0):
                for compact in (0, 1):
                    req.append(call(4, str(has), str(compact), s2))
        mres = model.run(req)
        mit = iter(mres)
        req2 = [call(5, str(has), sx(t)) for t in text_list for has in (1, 0)]
        mloads = model.run(req2)
        mfd = model.run([call(6, sx_val(v, f_repr)) for v in vals])
    # ---- 4. per value: correspondence, contracts, spec --------------------
    spec_req = []
    spec_meta = []
    frame_req = []
    frame_meta = []
    ood = ctx.extra.setdefault("out_of_domain", {})
    for i, (v, dom) in enumerate(allv):
        case = {"value": repr(v)}
        feat = primary_feature(v)
        ctx.case(case, nontrivial=True)
        ctx.count("feature:" + feat)
        ctx.count("depth:" + (str(vdepth(v)) if vdepth(v) <= 3 else ("4-9" if vdepth(v) < 10 else "deep>=253")))
        ctx.count("domain:" + ("in" if dom else "out-of-64-bit"))
        if dom != in_domain_py(v):
            raise lib.HarnessError("generator put a value in the wrong domain class")
        row = texts_of[i]
        # --- model vs real wrapper, byte for byte (calls without indent)
        if model:
            fits, mdepth = bool(mfd[i][0]), mfd[i][1]
            if fits != dom or mdepth != vdepth(v):
                ctx.mismatch(case, [dom, vdepth(v)], [fits, mdepth], "fits64/depth: model != harness")
            for b in BACKENDS:
                for kwname in KWNAMES[:2]:
                    m = lib.as_opt(next(mit))
                    mt = None if m is None else lib.as_str(m)
                    if mt != row[(b, kwname)]:
                        ctx.mismatch({**case, "backend": b, "kwargs": kwname}, short(row[(b, kwname)]), short(mt),
                                     "fast_json.dumps: reference instantiation of the wrapper != implementation (text)")
        # --- contracts on the raw codecs (parent process, orjson importable)
        try:
            raw_o = orjson.dumps(v, option=0).decode("utf-8")
        except Exception:   # noqa: BLE001
            raw_o = None
        if not dom:
            contract(ctx, "enc_o_unfit: orjson refuses ints beyond 64 bits", raw_o is None, case, short(raw_o), None)
        if dom and vdepth(v) <= 254:
            contract(ctx, "orjson encodes every in-domain value of depth<=254", raw_o is not None, case, None, "text")
        raw_s = {}
        for kw, kwname in zip(KWSETS, KWNAMES):
            try:
                raw_s[kwname] = stdjson.dumps(v, **kw)
            except Exception as e:   # noqa: BLE001
                raw_s[kwname] = None
            contract(ctx, "enc_s_total: stdlib encodes every value of the domain", raw_s[kwname] is not None, case, None, "text")
        for name, t in [("enc_o", raw_o)] + [("enc_s/" + k, t) for k, t in raw_s.items()]:
            if t is None:
                continue
            if not name.endswith("indent2"):
                contract(ctx, "enc_*_single: no CR/LF in a raw codec's text without indent", "\n" not in t and "\r" not in t,
                         {**case, "codec": name}, short(t), "single line")
        # --- the implementation's observations
        obs = []        # (label, decoded-or-None, failure kind)
        for (b, kwname), t in row.items():
            if t is None:
                obs.append((f"enc={b}/{kwname}", None, "dumps-raises"))
                continue
            ti = all_texts[t]
            for db in BACKENDS:
                for form, (st, val) in zip(("str", "bytes"), wl[db][ti]):
                    label = f"enc={b}/{kwname},dec={db}/{form}"
                    if st != "ok":
                        obs.append((label, None, "loads-raises"))
                    else:
                        obs.append((label, val, None))
            if kwname != "indent2":
                frame_req.append(call(12, sx(t.encode("utf-8", "surrogatepass"))))
                frame_meta.append((case, b, kwname, feat, t))
        if dom:
            sv = canon(v)
            spec_req.append(call(13, sv, "(" + " ".join("()" if d is None and k else "(" + canon(d) + ")" for _l, d, k in obs) + ")"))
            spec_meta.append((case, v, obs, feat))
        else:
            # outside the 64-bit window: record, never alarm
            summary = []
            for label, d, k in obs:
                if "indent2" in label or "/bytes" in label:
                    continue
                summary.append(label + ":" + (k or ("same" if canon(d) == canon(v) else "differs:" + type(d).__name__)))
            key = "; ".join(sorted(set(s.replace("/default", "").replace("/compact-separators", "").replace("/str", "")
                                       for s in summary)))
            ood[key] = ood.get(key, 0) + 1
    # --- contracts on the raw decoders + reference decoder on every real text
    owner = {}
    for i, row in enumerate(texts_of):
        for _k, t in row.items():
            if t is not None:
                owner.setdefault(t, i)
    for ti, t in enumerate(text_list):
        v, dom = allv[owner[t]]
        case = {"value": repr(v), "text": short(t)}
        cv = canon(v)
        try:
            do = ("ok", orjson.loads(t))
        except Exception as e:   # noqa: BLE001
            do = ("exc", type(e).__name__)
        try:
            ds = ("ok", stdjson.loads(t))
        except Exception as e:   # noqa: BLE001
            ds = ("exc", type(e).__name__)
        contract(ctx, "dec_s_agrees: json.loads(text) = value", ds[0] == "ok" and canon(ds[1]) == cv, case, short(ds), short(v))
        if dom:
            contract(ctx, "dec_o_agrees: orjson.loads(text) = value (64-bit values)", do[0] == "ok" and canon(do[1]) == cv,
                     case, short(do), short(v))
        if model:
            for has, b in ((1, "orjson"), (0, "stdlib")):
                m = lib.as_opt(mloads[2 * ti + (0 if has else 1)])
                mv = None if m is None else from_model(m)
                if has and not dom:
                    continue            # ref_dec_o is unspecified outside 64 bits
                ok = m is not None and canon(mv) == cv
                contract(ctx, "enc_*_sound: ref_parse(real text) = value", ok, {**case, "has_orjson": bool(has)}, short(v), short(mv))
                st, val = wl[b][ti][0]
                if ok and not (st == "ok" and canon(val) == canon(mv)):
                    ctx.mismatch({**case, "backend": b}, short(val), short(mv),
                                 "fast_json.loads: reference instantiation of the wrapper != implementation (value)")
    # --- spec oracle on the implementation's observations
    for (case, v, obs, feat), ok in zip(spec_meta, spec.run(spec_req)):
        ctx.spec_total += 1
        if ok:
            continue
        cv = canon(v)
        for label, d, k in obs:
            if k is None and canon(d) == cv:
                continue
            kind = k or "value-differs"
            lab = label.replace("/str", "").replace("/default", "")
            ctx.spec_violation(f"{kind}:{lab}:{feat}", {**case, "pair": label},
                               f"{label}: {kind}; decoded {short(d, 120)} from value {short(v, 120)}")
            break
        else:
            raise lib.HarnessError("spec checker rejected an observation the harness cannot fault: " + short(v))
    for (case, b, kwname, feat, t), ok in zip(frame_meta, spec.run(frame_req)):
        ctx.spec_total += 1
        if not ok:
            ctx.spec_violation(f"line-break-in-dumps-output:{b}/{kwname}", {**case, "backend": b, "kwargs": kwname},
                               f"fast_json.dumps under the {b} backend returned {short(t, 160)} (raw CR/LF inside one frame)")
    return text_list


MUT_ALPHABET = list(' \t\n\r,:[]{}"\\/0123456789-+.eEuabfnrtxNI') + ["\u2028", "\x00", "\x7f", "\xe9", "\U0001f600"]
HAND_TEXTS = ['01', '-0', '-', '1.', '.5', '1e5', '1E+05', '1e', '1.0e-2', '-0.0', '[1,]', '[,1]', '{"a":1,}', '{"a" 1}', '[1 2]',
              ' [ 1 , 2 ] ', '\t{"a"\n:\r1}\n', '"\\u0041"', '"\\u00e9"', '"\\ud83d\\ude00"', '"\\ud83d"', '"\\ude00"',
              '"\\ud83dx"', '"\\uD83D\\uDE00"', '"\\/"', '"\\x41"', '"\\u12"', '"\t"', '"\x7f"', '"\u2028"', 'nul', 'nulll',
              'true false', 'NaN', 'Infinity', '-Infinity', '', ' ', '[]', '{}', '[[]]', '{"":{}}', '"', '"\\"', '"\\\\"',
              '{"a":1,"a":2}', '1 ', ' 1', '+1', '0x10', '1_000', '18446744073709551615', '-9223372036854775808', '0e0', '0.0',
              '1e308', '2.5E-3', '[1e5,-0,0.5]', '\ufeff1', '[1]\n', '"\\b\\f\\n\\r\\t"', '{"k":[{"k":[]}]}', "'a'", '[1.5.2]', '1e+-5',
              '--1', '1-1', '"\\u0000"', '{1:2}', '[true,false,null]', 'tru', '"a" "b"', '[1,2', '{"a":', '9' * 19, '9' * 20]


def explore_decoder_contract(ctx, model, text_pool):
    """dec_*_agrees beyond encoder outputs: on hand-written and mutated texts, whenever the reference parser accepts a text
    as an in-domain value, both raw decoders must return that value."""
    import orjson
    if not model:
        return
    rng = ctx.rng
    texts = list(HAND_TEXTS)
    pool = [t for t in text_pool if len(t) < 200]
    for _ in range(ctx.budget(4000, 60000)):
        s = list(rng.choice(pool))
        for _k in range(rng.randrange(1, 4)):
            op = rng.randrange(3)
            pos = rng.randrange(0, len(s) + 1)
            if op == 0 and s:
                del s[min(pos, len(s) - 1)]
            elif op == 1:
                s.insert(pos, rng.choice(MUT_ALPHABET))
            elif s:
                s[min(pos, len(s) - 1)] = rng.choice(MUT_ALPHABET)
        texts.append("".join(s))
    res = model.run([call(2, sx(t)) for t in texts])
    stats = ctx.extra.setdefault("decoder_contract_texts", {"texts": 0, "ref_accepts": 0, "ref_rejects_both_reject": 0,
                                                             "ref_rejects_orjson_accepts": 0, "ref_rejects_stdlib_accepts": 0,
                                                             "skipped_non_finite_or_out_of_domain": 0})
    for t, r in zip(texts, res):
        stats["texts"] += 1
        m = lib.as_opt(r)
        try:
            do = ("ok", orjson.loads(t))
        except Exception as e:   # noqa: BLE001
            do = ("exc", type(e).__name__)
        try:
            ds = ("ok", stdjson.loads(t))
        except Exception as e:   # noqa: BLE001
            ds = ("exc", type(e).__name__)
        if m is None:
            if do[0] == "ok":
                stats["ref_rejects_orjson_accepts"] += 1
            if ds[0] == "ok":
                stats["ref_rejects_stdlib_accepts"] += 1
            if do[0] != "ok" and ds[0] != "ok":
                stats["ref_rejects_both_reject"] += 1
            continue
        try:
            mv = from_model(m)
        except (ValueError, OverflowError):
            stats["skipped_non_finite_or_out_of_domain"] += 1
            continue
        floats_ok = all(math.isfinite(x) for x in walk(mv) if isinstance(x, float))
        dup = has_duplicate_keys(m)
        if not floats_ok or not in_domain_py(mv) or dup or vdepth(mv) > 250:
            stats["skipped_non_finite_or_out_of_domain"] += 1
            continue
        stats["ref_accepts"] += 1
        ctx.count("decoder-contract:ref-accepts")
        case = {"text": t}
        contract(ctx, "dec_o_agrees on hand-written/mutated texts", do[0] == "ok" and canon(do[1]) == canon(mv), case, short(do), short(mv))
        contract(ctx, "dec_s_agrees on hand-written/mutated texts", ds[0] == "ok" and canon(ds[1]) == canon(mv), case, short(ds), short(mv))


def has_duplicate_keys(p):
    t = p[0]
    if t == 5:
        return any(has_duplicate_keys(x) for x in p[1])
    if t == 6:
        ks = [tuple(k) for k, _x in p[1]]
        return len(set(ks)) != len(ks) or any(has_duplicate_keys(x) for _k, x in p[1])
    return False


def float_contracts(ctx, model, values):
    """The float formatter / reader hypotheses of JsonEnc_roundtrip (wf_float) on every float the run uses."""
    if not model:
        return
    fl = sorted({struct.pack("<d", x) for v in values for x in walk(v) if isinstance(x, float)})
    fl = [struct.unpack("<d", b)[0] for b in fl]
    toks = [(f, name, txt) for f in fl for name, txt in (("orjson", orjson_ftext(f)), ("stdlib", float.__repr__(f)))]
    res = model.run([call(2, sx(txt)) for _f, _n, txt in toks])
    for (f, name, txt), r in zip(toks, res):
        m = lib.as_opt(r)
        ok = (m is not None and m[0] == 3 and lib.as_str(m[1]) == txt and float(txt) == f
              and math.copysign(1, float(txt)) == math.copysign(1, f) and all(ord(c) >= 32 for c in txt))
        contract(ctx, f"wf_float: {name} float text is a non-integer JSON number that reads back as the same double", ok,
                 {"float": repr(f), "formatter": name}, txt, short(m))
    ctx.extra["distinct_floats"] = len(fl)


def invalid_text_probe(ctx):
    bad = ["", "nul", "[1,", '{"a"}', "\x00", "NaN", "[1]]", b"\xff", '"\t"', "01"]
    res = {b: run_worker(b, {"invalid": bad, "kwsets": KWSETS})["invalid"] for b in BACKENDS}
    ctx.extra["invalid_text_error_class"] = {repr(t): {b: list(res[b][i]) for b in BACKENDS} for i, t in enumerate(bad)}


def very_deep_probe(ctx):
    """Values nested beyond orjson's DECODER limit (1024) and beyond what can be pickled: built, encoded, decoded and measured
    inside the workers.  Judged directly against the property: whatever a backend encoded must decode to the same value
    (same depth, same leaf) under each backend, in one NDJSON frame."""
    deep = [(kind, d, leaf) for d in (900, 1024, 1025, 1100) for kind in ("array", "object", "mixed") for leaf in (1, "\u2028")]
    first = {b: run_worker(b, {"deep": deep, "kwsets": KWSETS})["deep"] for b in BACKENDS}
    cross_req = {b: [r.get("text") for r in first[b] if r.get("enc") == "ok"] for b in BACKENDS}
    other = {"orjson": "stdlib", "stdlib": "orjson"}
    cross = {b: run_worker(other[b], {"deep_loads": cross_req[b], "kwsets": KWSETS})["deep_loads"] for b in BACKENDS}
    for b in BACKENDS:
        ci = iter(cross[b])
        for (kind, d, leaf), r in zip(deep, first[b]):
            case = {"value": f"{kind} nested {d} deep around {leaf!r}", "backend": b, "kwargs": "default"}
            ctx.case(case, nontrivial=True)
            ctx.count("very-deep:" + str(d))
            if r.get("enc") != "ok":
                ctx.count("very-deep-not-encodable:" + b)      # no backend-made text: nothing to demand
                continue
            ctx.spec_total += 1
            if "\n" in r["text"] or "\r" in r["text"]:
                ctx.spec_violation(f"line-break-in-dumps-output:{b}/very-deep", case, "raw line break in a compact encoding")
            for where, rr in ((b, r), (other[b], next(ci))):
                ctx.spec_total += 1
                if rr.get("dec") != "ok":
                    ctx.spec_violation(f"valid-deep-json-not-decoded:enc={b},dec={where}", case,
                                       f"{b} encoded it ({len(r['text'])} chars), {where} answered {rr.get('dec')}")
                elif rr["depth"] != d or rr["leaf"] != leaf:
                    ctx.spec_violation(f"roundtrip-differs:very-deep:enc={b},dec={where}", case,
                                       f"depth {rr['depth']} leaf {rr['leaf']!r}, expected {d} / {leaf!r}")


async def _reader_frames(lines):
    """Every line (bytes, without terminator) goes through the REAL stdio reader, alone in its own chunk; returns per line the
    canonical forms of what the reader delivered."""
    from fakeproc import FakeProcess, patched_open_process
    from chuk_mcp.transports.stdio.stdio_client import StdioClient
    from chuk_mcp.transports.stdio.parameters import StdioParameters
    out = []
    proc = FakeProcess()
    with patched_open_process(proc):
        client = StdioClient(StdioParameters(command="fake-child", args=[]))
        async with client:
            for ln in lines:
                proc.stdout.feed(ln + b"\n")
                with anyio.move_on_after(5):
                    await proc.stdout.drained()
                got = []
                while True:
                    try:
                        m = client._incoming_recv.receive_nowait()
                    except anyio.WouldBlock:
                        break
                    got.append(json.dumps(m.model_dump(exclude_none=True), sort_keys=True))
                out.append(got)
            proc.stdout.close()
    return out


def frames_through_the_reader(ctx):
    """'every encoded message is exactly one NDJSON frame' - as the library's OWN stdio reader frames it: each compact encoding
    (both back ends) of a message whose strings / keys hold U+0085, U+2028, U+2029, CR/LF escapes, astral characters is handed
    to the real reader followed by one LF and must come out as exactly one message, the same one."""
    import chuk_mcp.protocol.fast_json as FJ
    texts = ["a\u2028b", "\u2029", "x\u0085y", "line\nbreak", "cr\rlf", "\U0001F600", "plain", "\u2028\u2029\u0085", ""]
    msgs = []
    for i, t in enumerate(texts):
        msgs.append({"jsonrpc": "2.0", "id": f"f{i}", "result": {"s": t, "k" + t: [t, {"n": None}]}})
        msgs.append({"jsonrpc": "2.0", "method": "notifications/x", "params": {"s": t}})
    lines, meta = [], []
    saved = FJ.HAS_ORJSON
    try:
        for backend in ([True, False] if saved else [False]):
            FJ.HAS_ORJSON = backend
            for m in msgs:
                lines.append(FJ.dumps(m).encode("utf-8"))
                meta.append(("orjson" if backend else "stdlib", m))
    finally:
        FJ.HAS_ORJSON = saved
    got = anyio.run(_reader_frames, lines)
    for (backend, m), ln, g in zip(meta, lines, got):
        case = {"backend": backend, "message": m, "line": ln.decode("utf-8")}
        ctx.case(case, nontrivial=True)
        ctx.count("reader-frame:" + backend)
        ctx.spec_total += 1
        want = json.dumps(m, sort_keys=True)
        if g != [want]:
            ctx.spec_violation(f"encoding-is-not-one-frame-for-the-stdio-reader:{backend}", case,
                               f"the reader delivered {len(g)} message(s) for this one line" + ("" if not g else f": {g[0][:200]}"))


def frames_through_the_event_stream(ctx):
    """'decoding what either backend encoded gives back the value' - also when the encoding travels as ONE event of a legacy
    SSE stream whose bytes the network cuts wherever it likes, inside a multi-byte character included (the orjson back end
    writes non-ASCII as raw UTF-8, the stdlib back end as \\uXXXX escapes: both must come back as the same value)."""
    import c12
    import chuk_mcp.protocol.fast_json as FJ
    texts = ["é", "a\u2028b", "\U0001F600", "żółć 日本語 😀", "x" * 30 + "€"]
    msgs = [{"jsonrpc": "2.0", "method": "notifications/message", "params": {"level": "info", "data": t, "k": i}} for i, t in enumerate(texts)]
    frames = []
    saved = FJ.HAS_ORJSON
    try:
        for backend in ([True, False] if saved else [False]):
            FJ.HAS_ORJSON = backend
            for m in msgs:
                frames.append(("orjson" if backend else "stdlib", m, FJ.dumps(m).encode("utf-8")))
    finally:
        FJ.HAS_ORJSON = saved

    async def run_all():
        out = []
        for backend, m, body in frames:
            ev = b"event: message\ndata: " + body + b"\n\n"
            inner = [i for i in range(1, len(ev)) if ev[i] & 0xC0 == 0x80]          # positions INSIDE a multi-byte character
            cuts = (inner[:6] + inner[-6:]) if inner else [len(ev) // 2]
            for c in sorted(set(cuts)):
                o = await c12.parse_real([ev[:c], ev[c:]])
                out.append((backend, m, c, [a[1] for a in o["acts"] if a[0] == 1]))
        return out
    for backend, m, c, datas in anyio.run(run_all):
        case = {"backend": backend, "message": m, "event_cut_at_byte": c}
        ctx.case(case, nontrivial=True)
        ctx.count("event-stream-frame:" + backend)
        ctx.spec_total += 1
        try:
            got = [json.loads(d) for d in datas]
        except Exception as e:                                  # noqa: BLE001
            got = ["<undecodable: %s>" % type(e).__name__]
        if got != [m]:
            ctx.spec_violation(f"encoding-does-not-decode-to-itself-over-the-event-stream:{backend}", case,
                               f"the event-stream reader handed on {json.dumps(got, ensure_ascii=True)[:300]}")


def decoding_is_fresh(ctx):
    """'decoding what either backend encoded gives back the value' - every time: the same text decoded again after the first
    result was written into gives the value again, not the written-into object (both back ends, str and bytes)."""
    import chuk_mcp.protocol.fast_json as FJ

    def scribble(v):
        if isinstance(v, dict):
            for x in list(v.values()):
                scribble(x)
            v["$scribbled"] = 1
        elif isinstance(v, list):
            for x in v:
                scribble(x)
            v.append("$scribbled")
    texts = ["{}", "[]", '{"a":[]}', '{"a":{"b":[1]}}', "[[],{}]", '{"jsonrpc":"2.0","method":"notifications/x","params":{"data":[]}}',
             '{"jsonrpc":"2.0","id":1,"result":{}}', '[1,[2,[3]]]', '{"k":"' + "x" * 200 + '","l":[]}']
    saved = FJ.HAS_ORJSON
    try:
        for backend in ([True, False] if saved else [False]):
            FJ.HAS_ORJSON = backend
            for t in texts:
                for form in ("str", "bytes"):
                    arg = t if form == "str" else t.encode()
                    first = FJ.loads(arg)
                    scribble(first)
                    again = FJ.loads(arg)
                    case = {"decode_twice": t, "as": form, "backend": "orjson" if backend else "stdlib"}
                    ctx.case(case, nontrivial=True)
                    ctx.count("decode-twice:" + case["backend"])
                    ctx.spec_total += 1
                    if again != stdjson.loads(t):
                        ctx.spec_violation("second-decoding-gives-the-object-written-into:" + case["backend"], case,
                                           f"second decoding of {t[:80]!r} gave {stdjson.dumps(again)[:160]}")
    finally:
        FJ.HAS_ORJSON = saved


def other_encoders(ctx):
    """Whatever else fast_json offers for encoding (names containing 'dumps' besides dumps itself) is held to the same two
    demands, generically: under both back ends the same JSON value in the same frame shape, and a frame shape - type of the
    result, terminating line feed or not, no raw line break inside - that depends on the keyword arguments only, never on the
    VALUE (values orjson encodes itself and values it refuses and leaves to the standard library alike)."""
    vals = [{"a": 1}, [1, "x", None], {"n": 2 ** 64}, {"n": -(2 ** 63) - 1}, {"n": 10 ** 30}, {"s": "é\u2028\n"}, {"f": 1.5},
            {"k": {"k": []}}, ("$deep", "array", 300), ("$deep", "object", 300), ("$deep", "mixed", 260), {"jsonrpc": "2.0", "id": 1, "method": "m"}]
    docs = {b: run_worker(b, {"encoder_values": vals, "kwsets": []}) for b in BACKENDS}
    names = sorted(set().union(*[set(d.get("encoders", {})) for d in docs.values()]))
    ctx.extra["other_encoders_of_fast_json"] = names
    for n in names:
        for kw in sorted(set().union(*[set(d["encoders"].get(n, {})) for d in docs.values()])):
            rows = {b: docs[b]["encoders"].get(n, {}).get(kw) for b in BACKENDS}
            for i, v in enumerate(vals):
                case = {"encoder": n, "kwargs": kw, "value": repr(v)[:120]}
                ctx.case(case, nontrivial=True)
                ctx.count("other-encoder:" + n)
                obs = {b: rows[b][i] if rows[b] is not None else ("absent",) for b in BACKENDS}
                ok = [o for o in obs.values() if o[0] == "ok"]
                ctx.spec_total += 1
                if len(ok) == len(BACKENDS) and len({o[1:] for o in ok}) > 1:
                    ctx.spec_violation(f"{n}:back-ends-differ", case, repr(obs)[:400])
                for b, o in obs.items():
                    if o[0] == "ok" and (o[3] or o[4].startswith("undecodable")):
                        ctx.spec_violation(f"{n}:not-one-frame:{b}", case, repr(o)[:300])
            for b in BACKENDS:
                shapes = {(o[1], o[2]) for o in (rows[b] or []) if o[0] == "ok"}
                ctx.spec_total += 1
                if len(shapes) > 1:
                    first = next(i for i, o in enumerate(rows[b]) if o[0] == "ok" and (o[1], o[2]) != (rows[b][0][1], rows[b][0][2])) \
                        if rows[b][0][0] == "ok" else 0
                    ctx.spec_violation(f"{n}:frame-shape-depends-on-the-value:{b}",
                                       {"encoder": n, "kwargs": kw, "value": repr(vals[first])[:120], "backend": b},
                                       f"(result type, ends with a line feed) over the values: {sorted(shapes)}")


def run(ctx):
    lib.standard_obligations(ctx, GEN, TARGETS)
    spec = lib.Driver("C17Spec")
    try:
        model = lib.Driver("C17")
        ctx.oblige("build:driver-model(C17)", True)
    except lib.HarnessError as e:
        model = None
        ctx.oblige("build:driver-model(C17)", False, str(e)[-600:])
    if ctx.broken_obligations:
        ctx.escalated = True

    def go():
        values, out_dom = gen_grammar(ctx)
        n_grammar = len(values)
        rng = ctx.rng
        seeded = [rand_value(rng, rng.randrange(1, 7)) for _ in range(ctx.budget(1500, 25000))]
        seeded_in = [v for v in seeded if in_domain_py(v)]
        deep = gen_deep(ctx)
        allin = values + seeded_in + deep
        texts = explore(ctx, model, spec, allin, out_dom)
        float_contracts(ctx, model, allin)
        explore_decoder_contract(ctx, model, texts)
        ctx.extra["grammar_values"] = n_grammar
        ctx.extra["seeded_values"] = len(seeded_in)
        ctx.extra["deep_values"] = len(deep)
        ctx.extra["out_of_domain_values"] = len(out_dom)

    go()
    if ctx.corr_mismatch and not ctx.escalated and not ctx.spec_fail:
        ctx.escalated = True
        go()
    invalid_text_probe(ctx)
    very_deep_probe(ctx)
    frames_through_the_reader(ctx)
    decoding_is_fresh(ctx)
    frames_through_the_event_stream(ctx)
    other_encoders(ctx)
    ctx.exhaustive = False
    if ctx.thorough:
        lib.coqchk(ctx, "C17")
    ctx.rule = ("values: bounded-exhaustive grammar to depth 3 over the property's atoms (consts, 12 boundary ints in [-2^63,2^64-1], "
                "18 floats incl. -0.0/1e308/5e-324, 60 strings: every C0 control, U+007F/0085/2028/2029/FFFF/10000/10FFFF, quote, "
                "backslash; 12 keys incl. non-ASCII; [] {}), all atoms at depth 1, all [a] / {k:a}, pairs over a reduced atom set "
                "(all atoms when thorough), depth-3 wrappers of every depth-2 value; seeded random values to depth 6; deep chains "
                "(array/object/mixed/wide) at depths 253-256, 300 (400, 600 thorough); out-of-domain integers recorded separately. "
                "each value: fast_json.dumps in an orjson worker and a stdlib worker (orjson hidden by a stub on PYTHONPATH, HAS_ORJSON "
                "verified) x kwargs {none, compact separators, indent=2}; every distinct text loaded in both workers as str and bytes; "
                "spec oracle = extracted backend_independent_ok / single_frame_ok on these observations; model = wrapper instantiated "
                "with the reference codecs, compared byte-for-byte; contracts tested on the raw codecs and on mutated texts; compact "
                "encodings (both back ends) of messages carrying U+0085/2028/2029, escaped CR/LF and astral characters are each handed to "
                "the REAL stdio reader as one line and must come out as exactly that one message. "
                "distinct = distinct values; every case exercises both backends")
    return lib.finish(ctx, TRUSTED, ASSUME)


def replay(ctx, data):
    _c = data.get("case", {})
    if isinstance(_c, dict) and "event_cut_at_byte" in _c:
        frames_through_the_event_stream(ctx)
        for f in ctx.spec_fail:
            print("REPRODUCED", f["class"], f["detail"][:200])
        return 1 if ctx.spec_fail else 0
    if isinstance(_c, dict) and "encoder" in _c:
        other_encoders(ctx)
        for f in ctx.spec_fail:
            print("REPRODUCED", f["class"], f["detail"][:200])
        return 1 if ctx.spec_fail else 0
    if isinstance(_c, dict) and "decode_twice" in _c:
        decoding_is_fresh(ctx)
        for f in ctx.spec_fail:
            print("REPRODUCED", f["class"], f["detail"][:200])
        return 1 if ctx.spec_fail else 0
    if isinstance(_c, dict) and "line" in _c and "message" in _c:
        got = anyio.run(_reader_frames, [_c["line"].encode("utf-8")])[0]
        want = json.dumps(_c["message"], sort_keys=True)
        print("the real stdio reader delivered", len(got), "message(s) for the one line")
        if got != [want]:
            print("REPRODUCED", data.get("class"))
        return 1 if got != [want] else 0
    spec = lib.Driver("C17Spec")
    v = ast.literal_eval(data["case"]["value"])
    dom = in_domain_py(v)
    explore(ctx, None, spec, [v] if dom else [], [] if dom else [v])
    for f in ctx.spec_fail:
        print("REPRODUCED", f["class"], f["detail"][:300])
    return 1 if ctx.spec_fail else 0

"""Virtual-clock asyncio event loop.

`time()` is virtual; when the loop would block in select() waiting for the next
timer, the clock jumps to that timer instead of sleeping.  Real file
descriptors are still polled (non-blocking) so sockets/pipes keep working, but
code that only uses timers and in-memory streams runs a 60 s timeout in
microseconds, deterministically.

Usage:
    from vloop import vrun
    result = vrun(main, arg1, arg2)        # like anyio.run(main, arg1, arg2) on a virtual clock
    # inside: asyncio.get_running_loop().time() / anyio.current_time() are virtual seconds starting at 0.0
"""
from __future__ import annotations

import asyncio
import selectors

import anyio


class _VSelector(selectors.DefaultSelector):
    def __init__(self, loop_ref):
        super().__init__()
        self._loop_ref = loop_ref

    def select(self, timeout=None):
        # Poll real fds without blocking; if nothing is ready, jump the clock.
        ready = super().select(0)
        if ready:
            return ready
        loop = self._loop_ref[0]
        if timeout is None:
            # nothing scheduled and nothing ready: would block forever -> let a watchdog decide
            if loop is not None:
                loop._v_idle_spins += 1
                if loop._v_idle_spins > 200000:
                    raise RuntimeError("virtual loop: deadlock (no timers, no ready I/O)")
            return super().select(0.0005)
        if loop is not None:
            loop._v_idle_spins = 0
            if timeout > 0:
                loop._v_now += timeout
        return []


class VirtualLoop(asyncio.SelectorEventLoop):
    def __init__(self):
        self._v_now = 0.0
        self._v_idle_spins = 0
        ref = [None]
        super().__init__(_VSelector(ref))
        ref[0] = self
        # asyncio rounds timers with clock resolution; keep it tiny and exact
        self._clock_resolution = 1e-9

    def time(self):
        return self._v_now


def vrun(fn, *args):
    """Run `fn(*args)` (an async function) to completion on a fresh virtual-clock loop via anyio."""
    return anyio.run(fn, *args, backend="asyncio", backend_options={"loop_factory": VirtualLoop})


async def vsleep_until(t: float):
    """Sleep until virtual time t (no-op if already past)."""
    now = asyncio.get_running_loop().time()
    if t > now:
        await asyncio.sleep(t - now)

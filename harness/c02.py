"""C02 - everything emitted is valid JSON-RPC 2.0 and survives the library's own parser."""
from __future__ import annotations

import copy
import itertools
import json
import os
import subprocess
import tempfile

import lib
from lib import sx, call
from c09 import js_sx as _js_sx, sx_js, jeq, first_diff, sort_json

META = {
    "level": "Proof (Coq): for ALL ids (integer / string), methods, params objects, results, codes, messages and data, every envelope "
             "constructor of json_rpc_message.py (module-level create_* incl. the progress-token variant, result=None -> {}, data "
             "omitted when None; the four JSONRPCMessage classmethods) yields an object whose exclude_none dump is valid JSON-RPC 2.0 "
             "(grammar pinned in Spec/C02.v from the property text, checker proved to decide the declarative grammar), says what the "
             "caller asked for, carries exactly one of result/error, and is parsed back by the model of parse_message (unified class "
             "first, then field presence, both validation back ends) to the same kind, id WITH its JSON type, method, params, result "
             "and error; the recursive serialiser is the identity on every JSON value (induction over json, nested nulls survive); "
             "parse_message round-trips EVERY valid wire form except a null-id error response (refuted at full strength: the batch "
             "rejection error of features/batching.py parses to an object of no kind - known finding). Tied to the code on every "
             "run: emitters enumerated by introspection (create_*, classmethods, every send_* helper, request handlers, "
             "ProtocolHandler/MCPServer outputs, batching, elicitation, transport-synthesised errors) are run under Pydantic AND the "
             "fallback, serialised exactly as the three transports do (and through the real transports), parsed by the real "
             "parse_message; the extracted grammar / round-trip / fidelity checkers judge the implementation's output and the "
             "model's constructors and parser are compared with the real ones case by case.",
    "note": "Trusted: Coq kernel; extraction (ExtrOcamlBasic) + ocaml/main.ml; the hand-written model Model/Envelope.v of the envelope "
            "classes' validators (Pydantic semantics on the modelled domain: id absent/null/int/str, method absent/null/str, jsonrpc "
            "absent/str), of model_dump(exclude_none=True) and of parse_message, tied by the two-worker correspondence run; the "
            "worker (harness/c02_worker.py) to report what the real objects hold. Modelled, not verified: Pydantic, the fallback "
            "base class, the JSON codecs (C17), httpx's json= encoding. Batches (JSON arrays) and extra members are outside the model.",
    "technique": "Coq proof (case analysis over the grammar, induction over json) + extracted specification checkers applied to the "
                 "implementation + two-process (Pydantic / fallback) differential correspondence",
    "design_ref": "DESIGN.md section 6 (C02)",
}
GEN = ["EnvelopeKindGen.v"]
TARGETS = ["Base/Json", "Base/Envelope", "Base/JsonSexp", "Spec/C02", "Model/Envelope", "Proofs/JsonFacts", "Proofs/Envelope", "Gen/EnvelopeKindGen", "Proofs/EnvelopeKind",
           "Drv/C02", "History/C02_prefix", "Props/C02"]
PID = "C02"

TRUSTED = [
    "Coq 8.16.1 kernel (coqc); coqchk re-check in the thorough tier; vm_compute only in the two refutation witnesses",
    "axioms: none (every C02 theorem prints 'Closed under the global context')",
    "hand-written model Model/Envelope.v (validators of the four typed envelope classes and of the unified JSONRPCMessage, "
    "create_* constructors, model_dump(exclude_none=True), parse_message, create_batch_rejection_error), tied by the correspondence run",
    "specification Spec/C02.v: JSON-RPC 2.0 grammar as worded by the property text (params, when present, an object; a null id only on "
    "an error response), view_of_wire, round-trip and fidelity predicates; checkers proved equivalent to the declarative predicates",
    "extraction: ExtrOcamlBasic only; ocaml/main.ml text<->sexp",
    "harness/c02_worker.py reports class / kind / declared attributes of real objects and the decoded wire forms; fakeproc + "
    "httpx.MockTransport are the only seams (no hook in /repo)",
    "modelled, not verified: Pydantic, the fallback base class, orjson/json (C17), httpx json= encoding, CPython",
]
ASSUME = [
    "ids range over integers (bool excluded) and strings, codes over integers, methods/messages over strings, params over JSON "
    "objects, results/data over JSON values without NaN/Infinity and without lone surrogates (not JSON text)",
    "numbers are compared as JSON numbers (1.0 == 1); ids are compared WITH their JSON type",
    "an emitter called outside its annotated types (id=None, bool code) is outside the property",
]

_orig_load = lib.load_findings


def _load_findings(pid):
    """known_findings.json (shared, maintained by the lead) + findings_C02.json (this property's proposals)."""
    out = _orig_load(pid)
    p = os.path.join(lib.VERIF, "findings_C02.json")
    if pid == PID and os.path.exists(p):
        for e in json.load(open(p, encoding="utf-8")).get("findings", []):
            if e.get("property") == pid and e.get("status") == "known":
                out.setdefault(e["class"], e)
    return out


lib.load_findings = _load_findings

RPC = "chuk_mcp.protocol.messages.json_rpc_message"
MSGS = "chuk_mcp.protocol.messages"
KIND = {"req": 0, "notif": 1, "res": 2, "err": 3}
KIND_R = {v: k for k, v in KIND.items()}
DEFECTS = ["not-an-object", "bad-version", "method-not-a-string", "request-carries-result-or-error", "params-not-an-object",
           "request-id-not-string-or-integer", "response-carries-params", "neither-result-nor-error", "both-result-and-error",
           "response-without-id", "response-id-not-string-or-integer", "error-object-malformed"]
CLS_NAMES = ["JSONRPCRequest", "JSONRPCNotification", "JSONRPCResponse", "JSONRPCError", "JSONRPCMessage"]
CTOR_CODE = {("create_request", False): 0, ("create_notification", False): 2, ("create_response", False): 3,
             ("create_error_response", False): 4, ("create_request", True): 5, ("create_notification", True): 6,
             ("create_response", True): 7, ("create_error_response", True): 8}

# --------------------------------------------------------------------------- #
# Value generators (the quantifier of the property)
# --------------------------------------------------------------------------- #
LS, PS, ASTRAL = "\u2028", "\u2029", "\U0001f600"
ATOMS = [None, True, 0, -1, 2 ** 63, 2 ** 64 - 1, 2 ** 64, -(2 ** 63) - 1, 10 ** 30, 1.5, "", "a", " ", LS, ASTRAL, [], {}]
IDS = [0, 1, -1, 42, 2 ** 31 - 1, 2 ** 53 + 1, 2 ** 63, 2 ** 64 - 1, 2 ** 63 + 12345, -(2 ** 63), "", "a", "req-1", "123", "-5", "0", "007",
       "42", "1.5", "18446744073709551615", "\u00e9", LS, ASTRAL, "null", "true"]
METHODS = ["m", "", "tools/call", "notifications/x", "a" + LS + "b", ASTRAL]
STRS = ["", "x", "hello world", "h\u00e9llo \u2603", "123", LS + PS, ASTRAL + "z", "\x00\x1f\n\t\"\\", "null"]
CODES = [-32700, -32600, -32601, -32602, -32603, -32000, 0, 1, -1, 2 ** 31, 2 ** 63, 2 ** 64 - 1, -(2 ** 63)]


def depth2_values():
    """Bounded-exhaustive JSON to depth 2 over ATOMS (single-child containers at every level + a few wide ones)."""
    v1 = list(ATOMS) + [[a] for a in ATOMS] + [{"k": a} for a in ATOMS]
    inner = v1[len(ATOMS):]
    v2 = v1 + [[x] for x in inner] + [{"k": x} for x in inner]
    v2 += [[None, None], [None, 0, None], {"a": None, "b": None}, {"": None}, {LS: LS, ASTRAL: [ASTRAL, None]},
           {"k": [None, {"k": None}], "n": None}, [[], {}, [[]], [{}]], {"k": {}, "l": [], "m": {"n": {}}}]
    return v2


def deep_value(rng, depth=0, maxd=5):
    r = rng.random()
    if depth >= maxd or r < 0.35:
        k = rng.randrange(9)
        if k == 0:
            return None
        if k == 1:
            return rng.choice([True, False])
        if k == 2:
            return rng.choice([0, -1, 1, 2 ** 31, 2 ** 53 + 1, 2 ** 63 - 1, 2 ** 63, 2 ** 64 - 1, -(2 ** 63), 2 ** 64, -(2 ** 63) - 1, 10 ** 30, rng.randrange(-2 ** 63, 2 ** 64)])
        if k == 3:
            return rng.choice([1.5, -2.25, 1e300, 5e-324, 0.1, -0.0, 3.0, 1e16])
        if k == 4:
            return rng.choice(STRS)
        if k == 5:
            return "".join(rng.choice(["a", " ", LS, PS, ASTRAL, "\x00", "\x7f", "\u00e9", "\ud7ff", "\ue000", "\uffff", "\\", '"', "\n"])
                           for _ in range(rng.randrange(6)))
        if k == 6:
            return []
        if k == 7:
            return {}
        return None
    if r < 0.65:
        return [deep_value(rng, depth + 1, maxd) for _ in range(rng.randrange(4))]
    keys = rng.sample(["a", "b", "", "_meta", "progressToken", "k" + LS, ASTRAL, "id", "jsonrpc", "result", "error", "null"], rng.randrange(4))
    return {k: deep_value(rng, depth + 1, maxd) for k in keys}


def jdepth(v):
    if isinstance(v, list):
        return 1 + max([jdepth(x) for x in v], default=0)
    if isinstance(v, dict):
        return 1 + max([jdepth(x) for x in v.values()], default=0)
    return 0


def has_nested_null(v, top=True):
    if v is None:
        return not top
    if isinstance(v, list):
        return any(has_nested_null(x, False) for x in v)
    if isinstance(v, dict):
        return any(has_nested_null(x, False) for x in v.values())
    return False


class Values:
    def __init__(self, ctx):
        rng = ctx.rng
        self.rng = rng
        self.any = depth2_values()
        n_deep = ctx.budget(60, 1500)
        self.deep = [deep_value(rng) for _ in range(n_deep)]
        self.objs = [{"p": v} for v in self.any] + [{}, {"a": None, "b": [None]}, {"_meta": {"x": None}}, {"_meta": {}},
                                                      {"": "", LS: LS}] + \
                    [({"d": v} if not isinstance(v, dict) else v) for v in self.deep]
        self.results = self.any + self.deep
        self._i = 0

    def rot(self, seq):
        self._i += 1
        return seq[self._i % len(seq)]


# --------------------------------------------------------------------------- #
# Cases
# --------------------------------------------------------------------------- #
HELPER_KW = {
    "ref": {"type": "ref/prompt", "name": "p"}, "argument": {"name": "a", "value": "v"}, "level": "info",
    "name": "n", "arguments": {}, "uri": "file:///x", "messages": [{"role": "user", "content": {"type": "text", "text": "hi"}}],
    "max_tokens": 10, "method": "m", "progress_token": "tok", "progress": 0.5, "request_id": "r1",
}
SKIP_PARAMS = {"read_stream", "write_stream", "timeout", "cancellation_token", "progress_callback", "client"}


def expected_params_with_token(params, tok):
    p = copy.deepcopy(params) if params is not None else {}
    if "_meta" not in p:
        p["_meta"] = {}
    if not isinstance(p["_meta"], dict):
        return "$raises"
    p["_meta"]["progressToken"] = tok
    return p


def ctor_intent(fn, a):
    """What the caller of a known constructor asked for ("$wire": not determined by the arguments)."""
    i = a.get("id", "$wire")
    if i is None:
        i = "$wire"        # uuid4
    if fn == "create_request":
        p = a.get("params")
        if a.get("progress_token") is not None:
            p = expected_params_with_token(p, a["progress_token"])
            if p == "$raises":
                return "$raises"
        return {"kind": "req", "id": i, "method": a["method"], "params": p, "result": None, "error": None}
    if fn == "create_notification":
        return {"kind": "notif", "id": None, "method": a["method"], "params": a.get("params"), "result": None, "error": None}
    if fn == "create_response":
        r = a.get("result")
        return {"kind": "res", "id": i, "method": None, "params": None, "result": {} if r is None else r, "error": None}
    if fn == "create_error_response":
        e = {"code": a["code"], "message": a["message"]}
        if a.get("data") is not None:
            e["data"] = a["data"]
        return {"kind": "err", "id": i, "method": None, "params": None, "result": None, "error": e}
    return None


def gen_cases(ctx, inv):
    V = Values(ctx)
    rng = ctx.rng
    cases = []

    def add(c, intent=None, family=None):
        c["family"] = family or c["em"]
        if intent is not None:
            c["intent"] = intent
        cases.append(c)

    skipped = []
    # ---- A/B: constructors -------------------------------------------------
    for unified, key in ((False, "ctor"), (True, "unified_ctor")):
        for d in inv[key]:
            fn = d["name"]
            names = [p["name"] for p in d["params"]]
            known = {"method", "params", "id", "progress_token", "result", "code", "message", "data"}
            unknown = [p["name"] for p in d["params"] if p["required"] and p["name"] not in known]
            if unknown:
                skipped.append(f"{'JSONRPCMessage.' if unified else ''}{fn}: no recipe for {unknown}")
                continue
            fam = ("JSONRPCMessage." if unified else "") + fn

            def mk(**over):
                a = {}
                if "method" in names:
                    a["method"] = over.get("method", V.rot(METHODS))
                if "params" in names:
                    a["params"] = over.get("params", None)
                if "id" in names:
                    a["id"] = over.get("id", V.rot(IDS))
                if "progress_token" in names and "progress_token" in over:
                    a["progress_token"] = over["progress_token"]
                if "result" in names:
                    a["result"] = over.get("result", None)
                if "code" in names:
                    a["code"] = over.get("code", V.rot(CODES))
                if "message" in names:
                    a["message"] = over.get("message", V.rot(STRS))
                if "data" in names:
                    a["data"] = over.get("data", None)
                c = {"em": "ctor", "fn": fn, "unified": unified, "args": a}
                add(c, ctor_intent(fn, a), fam)
                if "progress_token" not in a and next(_DIRECT_TICK) % 3 == 0:
                    # the same message built by calling the message CLASS with its fields and WITHOUT `jsonrpc=` (the member
                    # has a default in every class): what leaves a transport still says "jsonrpc": "2.0"
                    add({"em": "ctor", "fn": fn, "unified": unified, "args": a, "direct": True}, ctor_intent(fn, a),
                        fam + ":class-called-without-jsonrpc")
                return c
            # every payload (rotating ids / methods), every id (three payload shapes), every method
            if "params" in names:
                for p in V.objs:
                    mk(params=p)
                mk(params=None)
            if "result" in names:
                for r in (V.results if not unified else [x for x in V.results if isinstance(x, dict) or x is None]):
                    mk(result=r)
                mk(result=None)
            if "data" in names:
                for r in V.results:
                    mk(data=r)
            if "id" in names:
                for i in IDS:
                    for k in range(3):
                        mk(id=i, params=V.rot(V.objs), result=V.rot([x for x in V.results if isinstance(x, dict)]), data=V.rot(V.results))
                if not any(p["name"] == "id" and p["required"] for p in d["params"]):
                    mk(id=None)
            if "method" in names:
                for m in METHODS:
                    mk(method=m)
            if "code" in names:
                for cd in CODES:
                    mk(code=cd)
                for s in STRS:
                    mk(message=s)
            if "progress_token" in names:
                for tok in IDS:
                    mk(progress_token=tok, params=V.rot(V.objs))
                for p in (None, {}, {"_meta": {}}, {"_meta": {"progressToken": "old", "x": None}, "z": None}, {"_meta": None},
                          {"_meta": [1]}, {"_meta": "s"}, {"a": {"_meta": 1}}):
                    mk(progress_token="t", params=p)
    # ---- C: every send_* helper with a capturing write stream ------------------
    for d in inv["helpers"]:
        fn, mod = d["name"], d["module"]
        names = [p["name"] for p in d["params"]]
        missing = [p["name"] for p in d["params"] if p["required"] and p["name"] not in SKIP_PARAMS and p["name"] not in HELPER_KW]
        if missing:
            skipped.append(f"{mod}.{fn}: no recipe for {missing}")
            continue
        base = {p["name"]: HELPER_KW[p["name"]] for p in d["params"] if p["required"] and p["name"] not in SKIP_PARAMS}
        fam = fn

        def hk(kw, intent=None, **flags):
            c = {"em": "helper", "fn": fn, "module": mod, "kwargs": kw, **flags}
            add(c, intent, fam)
        hk(dict(base), None, base=True)
        if fn == "send_message":
            for p in V.objs:
                i = V.rot(IDS)
                hk({**base, "method": V.rot(METHODS), "params": p, "message_id": i},
                   {"kind": "req", "id": i if i else "$wire", "method": "$wire", "params": p, "result": None, "error": None})
            for i in IDS:
                hk({**base, "params": None, "message_id": i},
                   {"kind": "req", "id": i if i else "$wire", "method": "m", "params": None, "result": None, "error": None})
                hk({**base, "params": {"a": None}, "message_id": i}, None, cancelled=True)
                hk({**base, "params": V.rot(V.objs[:20]), "message_id": i}, None, progress=True)
            continue
        for pn in names:
            if pn == "arguments":
                for p in V.objs:
                    nm = V.rot(STRS)
                    intent = None
                    if fn == "send_tools_call":
                        intent = {"kind": "req", "id": "$wire", "method": "tools/call", "params": {"name": nm, "arguments": p},
                                  "result": None, "error": None}
                    hk({**base, "name": nm, "arguments": p} if "name" in names else {**base, "arguments": p}, intent)
                # arguments as tools really get them - credentials among them, nested - with the application's logging at
                # DEBUG and at its default: the emitted request carries the arguments GIVEN
                for p in CREDENTIAL_ARGS:
                    for dbg in (False, True):
                        nm = V.rot(STRS)
                        intent = None
                        if fn == "send_tools_call":
                            intent = {"kind": "req", "id": "$wire", "method": "tools/call", "params": {"name": nm, "arguments": p},
                                      "result": None, "error": None}
                        hk({**base, "name": nm, "arguments": copy.deepcopy(p)} if "name" in names else {**base, "arguments": copy.deepcopy(p)},
                           intent, **({"debug_logging": True} if dbg else {}))
            elif pn in ("name", "uri", "cursor", "reason", "message", "preferred_version"):
                for s in STRS:
                    hk({**base, pn: s})
            elif pn in ("progress_token", "request_id"):
                for i in IDS:
                    hk({**base, pn: i})
            elif pn in ("progress", "total"):
                for x in (0, 1, 0.5, 1e300, 2 ** 63, -1.5):
                    hk({**base, pn: x})
            elif pn == "supported_versions":
                hk({**base, pn: ["2025-06-18", "2024-11-05"]})
    # ---- request handlers (handle_*_request builders) ---------------------------
    for d in inv["request_handlers"]:
        if d["name"] == "handle_roots_list_request":
            for i in IDS:
                for roots in ([], [{"uri": "file:///a", "name": "n" + LS}], [{"uri": "file:///" + ASTRAL}, {"uri": "file:///b", "name": ""}]):
                    add({"em": "request_handler", "fn": d["name"], "module": d["module"],
                         "kwargs": {"roots": [{"$model": d["module"] + ".Root", "data": r} for r in roots], "request_id": i}},
                        {"kind": "res", "id": i, "method": None, "params": None, "result": "$wire", "error": None}, d["name"])
        else:
            skipped.append(f"{d['module']}.{d['name']}: no recipe")
    # ---- D: the server handler ---------------------------------------------------
    def srv(msg, how, intent, session=False):
        add({"em": "server", "msg": msg, "how": how, "session": session}, intent,
            "server:" + (msg["method"] if "method" in msg else "<response-shaped input>"))
    for i in IDS:
        for how in ("parse", "specific"):
            res = {"kind": "res", "id": i, "method": None, "params": None, "result": "$wire", "error": None}
            err = {"kind": "err", "id": i, "method": None, "params": None, "result": None, "error": "$wire"}
            srv({"jsonrpc": "2.0", "id": i, "method": "ping"}, how, res)
            srv({"jsonrpc": "2.0", "id": i, "method": "initialize", "params": {"protocolVersion": "2025-06-18", "clientInfo": {"name": "c" + LS}}}, how, res)
            srv({"jsonrpc": "2.0", "id": i, "method": "notifications/initialized"}, how, res)
            srv({"jsonrpc": "2.0", "id": i, "method": "tools/list"}, how, res, session=True)
            srv({"jsonrpc": "2.0", "id": i, "method": "resources/list"}, how, res)
            srv({"jsonrpc": "2.0", "id": i, "method": "resources/read", "params": {"uri": "file:///r"}}, how, res)
            srv({"jsonrpc": "2.0", "id": i, "method": "resources/read", "params": {"uri": "file:///nope" + LS}}, how, err)
            srv({"jsonrpc": "2.0", "id": i, "method": "tools/call", "params": {"name": "text", "arguments": {}}}, how, res)
            srv({"jsonrpc": "2.0", "id": i, "method": "tools/call", "params": {"name": "boom", "arguments": {"a": None}}}, how, err)
            srv({"jsonrpc": "2.0", "id": i, "method": "tools/call", "params": {"name": "nope" + ASTRAL}}, how, err)
            srv({"jsonrpc": "2.0", "id": i, "method": "no/such" + LS}, how, err)
            srv({"jsonrpc": "2.0", "id": i, "method": "x/raise"}, how, err)
            srv({"jsonrpc": "2.0", "id": i, "method": "x/error"}, how, err)
            srv({"jsonrpc": "2.0", "id": i, "method": "x/echo"}, how, {**res, "result": {}})
        srv({"jsonrpc": "2.0", "id": i, "result": {"r": None}}, "parse", {"kind": "err", "id": i, "method": None, "params": None,
                                                                             "result": None, "error": "$wire"})
    for p in V.objs:
        i = V.rot(IDS)
        srv({"jsonrpc": "2.0", "id": i, "method": "x/echo", "params": p}, V.rot(["parse", "specific"]),
            {"kind": "res", "id": i, "method": None, "params": None, "result": p if p else {}, "error": None})
        srv({"jsonrpc": "2.0", "id": i, "method": "tools/call", "params": {"name": "echo", "arguments": p}}, "parse",
            {"kind": "res", "id": i, "method": None, "params": None, "result": "$wire", "error": None})
    for m in ("ping", "no/such", "notifications/initialized", "x/raise", "tools/call"):
        srv({"jsonrpc": "2.0", "method": m}, "parse", None)      # notifications: nothing may be emitted
    # ---- F: batching ----------------------------------------------------------------
    for d in inv["batch_methods"]:
        if d["name"] != "create_batch_rejection_error":
            skipped.append(f"BatchProcessor.{d['name']}: no recipe")
            continue
        for ver in ("2025-06-18", None, "2025-03-26", "v" + LS):
            add({"em": "batch", "fn": d["name"], "version": ver, "kwargs": {}},
                {"kind": "err", "id": None, "method": None, "params": None, "result": None, "error": "$wire"},
                "BatchProcessor." + d["name"] + "()")
            for i in IDS:
                add({"em": "batch", "fn": d["name"], "version": ver, "kwargs": {"message_id": i}},
                    {"kind": "err", "id": i, "method": None, "params": None, "result": None, "error": "$wire"},
                    "BatchProcessor." + d["name"] + "(id)")
    for i in IDS:
        add({"em": "batch", "fn": "process_message_data", "version": "2025-03-26",
             "data": [{"jsonrpc": "2.0", "id": i, "method": "m"}, {"jsonrpc": "2.0", "id": V.rot(IDS), "method": "n", "params": {"a": None}}]},
            None, "BatchProcessor.process_message_data(failing item)")
    add({"em": "batch", "fn": "process_message_data", "version": "2025-06-18", "data": [{"jsonrpc": "2.0", "id": 1, "method": "m"}]},
        None, "BatchProcessor.process_message_data(rejected batch)")
    for data in ([{"jsonrpc": "2.0", "id": 1, "method": "ping"}], [], [{"jsonrpc": "2.0", "method": "n"}, {"jsonrpc": "2.0", "id": "a", "method": "m"}]):
        add({"em": "stdio_batch_rejection", "version": "2025-06-18", "data": data}, None, "StdioClient batch rejection")
    # ---- elicitation ------------------------------------------------------------------
    for data in ({"message": "m" + LS, "schema": {"type": "object", "properties": {"a": {"type": "string", "default": None}}}},
                 {"message": "", "schema": {}, "title": ASTRAL}, {"message": "x", "schema": {"k": [None, {"k": None}]}}):
        add({"em": "elicitation", "fn": "request_user_input", "data": data},
            {"kind": "req", "id": "$wire", "method": "elicitation/create", "params": "$wire", "result": None, "error": None},
            "ElicitationHandler.request_user_input")
    for i in IDS:
        for ans in ({"a": None}, {}, {"v": [None, LS]}):
            add({"em": "elicitation", "fn": "handle_elicitation_request", "answer": ans,
                 "msg": {"jsonrpc": "2.0", "id": i, "method": "elicitation/create", "params": {"message": "m", "schema": {}}}},
                {"kind": "res", "id": i, "method": None, "params": None, "result": {"data": ans, "cancelled": False}, "error": None},
                "ElicitationClient.handle_elicitation_request")
        add({"em": "elicitation", "fn": "handle_elicitation_request", "fail": True,
             "msg": {"jsonrpc": "2.0", "id": i, "method": "elicitation/create", "params": {"message": "m", "schema": {}}}},
            {"kind": "err", "id": i, "method": None, "params": None, "result": None, "error": "$wire"},
            "ElicitationClient.handle_elicitation_request")
    # ---- transport-synthesised errors ----------------------------------------------------
    for tr in ("http", "sse"):
        for i in IDS:
            add({"em": "transport_synth", "transport": tr, "msg": {"jsonrpc": "2.0", "id": i, "method": "tools/list"}},
                {"kind": "err", "id": i, "method": None, "params": None, "result": None, "error": "$wire"}, tr + " transport: HTTP 500 -> synthesised error")
    # ---- the real transports' outbound serialisers: a deterministic sample of everything above ----
    step = ctx.budget(9, 2)
    fams = set()
    for k, c in enumerate(cases):
        if c["em"] in ("stdio_batch_rejection", "transport_synth"):
            continue
        if k % step == 0 or c["family"] not in fams:
            c["drive"] = True
        fams.add(c["family"])
    # ---- parse stream (model of parse_message vs the real one; nothing is emitted) ---------
    P_VER = ["<absent>", "2.0", "1.0"]
    P_ID = ["<absent>", None, 1, "a"]
    P_METH = ["<absent>", None, "m", ""]
    P_PARAMS = ["<absent>", None, {}, {"a": None}, [1]]
    P_RES = ["<absent>", None, {}, {"a": [None]}, [1], 0, "s"]
    P_ERR = ["<absent>", None, {}, {"code": 1, "message": "m"}, {"code": 1, "message": "m", "data": None}, {"code": "x", "message": 5},
             {"code": True, "message": "m"}, {"message": "m"}, [1], "e"]
    combos = [(a, b, c, d, e, f) for a in P_VER for b in P_ID for c in P_METH for d in P_PARAMS for e in P_RES for f in P_ERR]
    n_parse = ctx.budget(2500, len(combos))
    if n_parse < len(combos):
        combos = rng.sample(combos, n_parse)
    for a, b, c, d, e, f in combos:
        w = {}
        for k, v in (("jsonrpc", a), ("id", b), ("method", c), ("params", d), ("result", e), ("error", f)):
            if v != "<absent>":
                w[k] = copy.deepcopy(v)
        if rng.random() < 0.1:
            w["x-extra"] = rng.choice([None, 1, {"a": None}])
        add({"em": "parse", "wire": w}, None, "parse-stream")
    for w in ({"jsonrpc": "2.0", "id": True, "method": "m"}, {"jsonrpc": "2.0", "id": 1.5, "method": "m"}, {"jsonrpc": "2.0", "id": 1, "method": 5},
              {"jsonrpc": 2, "id": 1, "method": "m"}, {"jsonrpc": "2.0", "id": [1], "result": {}}):
        add({"em": "parse", "wire": w}, None, "parse-stream")
    return cases, skipped


# --------------------------------------------------------------------------- #
# Workers
# --------------------------------------------------------------------------- #
WORKER = os.path.join(os.path.dirname(os.path.abspath(__file__)), "c02_worker.py")


def _env(forced):
    env = {k: v for k, v in os.environ.items() if k not in ("MCP_FORCE_FALLBACK", "SKIP_JSONRPC_VALIDATION", "MCP_BEARER_TOKEN")}
    env["PYTHONPATH"] = os.path.join(lib.REPO, "src")
    env["PYTHONHASHSEED"] = "0"
    env["PYTHONDONTWRITEBYTECODE"] = "1"
    if forced:
        env["MCP_FORCE_FALLBACK"] = "1"
    return env


def run_workers(doc, backends=(False, True)):
    tmp = tempfile.mkdtemp(prefix="c02-")
    cf = os.path.join(tmp, "cases.json")
    with open(cf, "w", encoding="utf-8") as f:
        json.dump(doc, f)
    procs = []
    for forced in backends:
        rf = os.path.join(tmp, f"res-{int(forced)}.json")
        p = subprocess.Popen([lib.PY, WORKER, cf, rf], env=_env(forced), stdout=subprocess.PIPE, stderr=subprocess.PIPE, text=True)
        procs.append((p, rf, forced))
    outs = []
    for p, rf, forced in procs:
        _o, err = p.communicate(timeout=1500)
        if p.returncode != 0 or not os.path.exists(rf):
            raise lib.HarnessError(f"C02 worker (fallback={forced}) failed rc={p.returncode}: {err[-800:]}")
        d = json.load(open(rf, encoding="utf-8"))
        want = "fallback" if forced else "pydantic"
        if d["backend"] != want:
            raise lib.HarnessError(f"C02 worker (fallback={forced}) ran back end {d['backend']}")
        outs.append(d)
    for f in os.listdir(tmp):
        os.remove(os.path.join(tmp, f))
    os.rmdir(tmp)
    return outs


# --------------------------------------------------------------------------- #
# Encodings for the driver
# --------------------------------------------------------------------------- #
def js_sx(v):
    """JSON value -> sexp.  Object members are sorted first: member order is not something the property (or JSON) talks
    about, Python dicts cannot repeat a key, and the extracted checkers compare association lists position by position."""
    return _js_sx(sort_json(v))


def is_rid(i):
    return type(i) is int or type(i) is str


def sx_rid(i):
    return "(0 %d)" % i if type(i) is int else "(1 %s)" % sx(i)


def sx_view(v):
    return "(%d %s %s %s %s %s)" % (KIND[v["kind"]], "()" if v["id"] is None else "(" + sx_rid(v["id"]) + ")",
                                    "()" if v["method"] is None else "(" + sx(v["method"]) + ")",
                                    js_sx(v["params"]), js_sx(v["result"]), js_sx(v["error"]))


def dec_rid(x):
    return x[1] if x[0] == 0 else lib.as_str(x[1])


def dec_view(x):
    return {"kind": KIND_R[x[0]], "id": None if x[1] == [] else dec_rid(x[1][0]),
            "method": None if x[2] == [] else lib.as_str(x[2][0]),
            "params": sx_js(x[3]), "result": sx_js(x[4]), "error": sx_js(x[5])}


def real_view(parsed):
    """The worker's report of parse_message -> an encodable view, or (None, why)."""
    if "view" not in parsed:
        return None, "parser-raised:" + str(parsed.get("raised", parsed))[:40] if "raised" in parsed else "parser-returned-a-batch"
    v = parsed["view"]
    if v["kind"] is None:
        return None, "parsed-object-has-no-kind"
    if not (v["id"] is None or is_rid(v["id"])):
        return None, "parsed-id-not-string-or-integer"
    if not (v["method"] is None or isinstance(v["method"], str)):
        return None, "parsed-method-not-a-string"
    return {k: v[k] for k in ("kind", "id", "method", "params", "result", "error")}, None


def views_equal(a, b):
    return a["kind"] == b["kind"] and type(a["id"]) is type(b["id"]) and a["id"] == b["id"] and a["method"] == b["method"] and \
        jeq(a["params"], b["params"]) and jeq(a["result"], b["result"]) and jeq(a["error"], b["error"])


def view_diff(want, got):
    """First position in which two views differ (for the class name of a failure)."""
    if want["kind"] != got["kind"]:
        return f"kind-{want['kind']}-became-{got['kind']}"
    if type(want["id"]) is not type(got["id"]):
        return f"id-type-{type(want['id']).__name__}-became-{type(got['id']).__name__}"
    if want["id"] != got["id"]:
        return "id-value-changed"
    if want["method"] != got["method"]:
        return "method-changed"
    for k in ("params", "result", "error"):
        if not jeq(want[k], got[k]):
            d = first_diff(want[k], got[k])
            how = "changed"
            if d and d[1] is None and d[2] in ("<absent>", None):
                how = "null-dropped"
            elif d and d[1] == "<absent>":
                how = "member-added"
            elif d and d[2] == "<absent>":
                how = "member-dropped"
            return f"{k}-{how}"
    return "same"


def fill_intent(intent, wire_view):
    out = {}
    for k in ("kind", "id", "method", "params", "result", "error"):
        v = intent[k]
        out[k] = wire_view[k] if (isinstance(v, str) and v == "$wire") else v
    return out


_DIRECT_TICK = itertools.count()
CREDENTIAL_ARGS = [
    {"password": "p1", "user": "u"},
    {"headers": {"Authorization": "Bearer abc", "Accept": "*/*"}, "url": "http://x/"},
    {"steps": [{"op": "login", "token": "t-1"}, {"op": "fetch", "api_key": "k-2", "secret": "s"}]},
    {"config": {"db": {"PASSWORD": "P", "Token": "T", "apiKey": "K"}}, "cookie": "c=1", "session": {"id": 5}},
]
DRIVEN = {"stdio-transport", "stdiotext-transport", "http-transport", "sse-transport"}


def blame(c, row):
    """Whose failure is it: a wire form only a real transport produced (the same object serialised by the transport's own
    expression is fine) is the transport's; anything else is the emitter's."""
    if set(row["names"]) <= DRIVEN:
        return "+".join(sorted(row["names"]))
    return c["family"]


def case_key(c):
    return {k: v for k, v in c.items() if k not in ("intent", "family", "drive", "base")}


# --------------------------------------------------------------------------- #
# Judging
# --------------------------------------------------------------------------- #
def judge(ctx, drv, cases, docs):
    """docs: [(backend name, fb flag, results)].  Returns list of failure dicts {klass, case, backend, detail}."""
    rows = []          # one per (backend, case, emitted object, wire group)
    fails = []
    corr_seen = 0
    for bname, fb, results in docs:
        if len(results) != len(cases):
            raise lib.HarnessError(f"worker {bname}: {len(results)} results for {len(cases)} cases")
        for ci, (c, r) in enumerate(zip(cases, results)):
            intent = c.get("intent")
            if c["em"] == "parse":
                rows.append({"b": bname, "fb": fb, "ci": ci, "ei": -1, "names": ["parse-stream"], "value": c["wire"], "parsed": r["parse"],
                             "emitted": False})
                continue
            if intent == "$raises":
                ctx.spec_total += 1
                if r["emitted"]:
                    fails.append({"klass": f"{c['family']}:emitted-although-arguments-cannot-be-honoured", "ci": ci, "b": bname,
                                  "detail": "expected the constructor to raise"})
                continue
            if r["raised"] is not None and not r["emitted"]:
                # an emitter that raises emits nothing: not a violation of this property unless the arguments were in the domain
                ctx.count(f"{bname}:emitter-raised")
                if intent is not None:
                    ctx.spec_total += 1
                    fails.append({"klass": f"{c['family']}:raised-on-in-domain-arguments", "ci": ci, "b": bname,
                                  "detail": f"{r['raised']}: {r.get('raised_msg', '')}"})
                continue
            if c["em"] == "server" and intent is None:
                ctx.spec_total += 1
                if r["emitted"]:
                    fails.append({"klass": "server:response-to-a-notification", "ci": ci, "b": bname, "detail": json.dumps(r["emitted"])[:300]})
                continue
            if intent is not None and not r["emitted"]:
                ctx.spec_total += 1
                fails.append({"klass": f"{c['family']}:nothing-emitted", "ci": ci, "b": bname, "detail": ""})
                continue
            for ei, e in enumerate(r["emitted"]):
                for g in e["wires"]:
                    if "fail" in g:
                        ctx.spec_total += 1
                        fails.append({"klass": f"{c['family']}:not-serialisable:{'+'.join(sorted(g['names']))}", "ci": ci, "b": bname,
                                      "detail": g["fail"]})
                        continue
                    rows.append({"b": bname, "fb": fb, "ci": ci, "ei": ei, "names": g["names"], "value": g["value"], "parsed": g["parsed"],
                                 "emitted": True, "obj": e.get("obj"), "py": e["py"]})
    # ---- round 1: grammar, wire view, model parse
    reqs = []
    for row in rows:
        w = js_sx(row["value"])
        reqs += [call(0, w), call(1, w), call(4, sx(row["fb"]), w)]
    res = drv.run(reqs)
    reqs2, idx2 = [], []
    for k, row in enumerate(rows):
        cl, wv, mp = res[3 * k], res[3 * k + 1], res[3 * k + 2]
        c = cases[row["ci"]]
        row["valid"] = cl[0] == 0
        row["defect"] = None if row["valid"] else DEFECTS[cl[1]]
        row["wire_view"] = dec_view(wv[0]) if wv else None
        rv, why = real_view(row["parsed"])
        row["real_view"], row["real_why"] = rv, why
        # correspondence: model of parse_message vs the real parser (modelled domain only)
        in_dom = bool(mp[0])
        model_msg = mp[1][0] if mp[1] else None
        model_view = dec_view(mp[2][0]) if mp[2] else None
        if in_dom:
            corr_seen += 1
            real_ok = "view" in row["parsed"]
            if real_ok != (model_msg is not None):
                ctx.mismatch({"backend": row["b"], "wire": row["value"]}, row["parsed"], "accepts" if model_msg is not None else "raises",
                             "parse_message: model and implementation disagree on accept/raise")
            elif real_ok:
                pv = row["parsed"]["view"]
                mcls = CLS_NAMES[model_msg[0]]
                mkind = None if model_msg[7] == [] else KIND_R[model_msg[7][0]]
                same = pv["kind"] == mkind
                if same and model_view is not None:
                    same = rv is not None and views_equal(rv, model_view)
                elif same:
                    mid = None if model_msg[2] == [] else dec_rid(model_msg[2][0])
                    same = type(pv["id"]) is type(mid) and pv["id"] == mid
                if not same:
                    what = "parse_message: model and implementation produce different messages"
                    if pv["kind"] is None and mkind == "err" and pv["id"] is None and pv["method"] is None and pv["error"] is not None:
                        what += " [the implementation matches the model of the UNPATCHED code (History/C02_prefix.v): " \
                                "fixes/C02-null-id-error-is-a-response.patch is not applied]"
                    ctx.mismatch({"backend": row["b"], "wire": row["value"]}, pv, {"cls": mcls, "kind": mkind, "view": model_view}, what)
                elif pv["cls"] != mcls:
                    # which class carries the message is not something the property talks about: recorded, not compared
                    ctx.count("parse:class-differs-from-model(not-compared)")
        else:
            ctx.count("parse:outside-modelled-domain")
        if not row["emitted"]:
            ctx.count("parse-stream:" + ("accepted" if "view" in row["parsed"] else "rejected"))
            continue
        # ---- the property on the implementation's output
        ctx.spec_total += 1
        fam = row["fam"] = blame(c, row)
        if not row["valid"]:
            fails.append({"klass": f"{fam}:invalid-json-rpc:{row['defect']}", "ci": row["ci"], "b": row["b"],
                          "detail": json.dumps({"wire": row["value"], "via": row["names"]})[:500]})
            continue
        reqs2.append(call(2, js_sx(row["value"]), "()" if rv is None else "(" + sx_view(rv) + ")"))
        idx2.append((k, "roundtrip"))
        intent = c.get("intent")
        if intent is not None and row["ei"] == 0:
            full = fill_intent(intent, row["wire_view"])
            row["intent_full"] = full
            reqs2.append(call(3, sx_view(full), js_sx(row["value"])))
            idx2.append((k, "carries"))
        if row["wire_view"]["kind"] in ("res", "err"):
            reqs2.append(call(6, js_sx(row["value"])))
            idx2.append((k, "exactly-one"))
    res2 = drv.run(reqs2)
    for (k, what), ok in zip(idx2, res2):
        row = rows[k]
        c = cases[row["ci"]]
        fam = row["fam"]
        ctx.spec_total += 1
        if ok:
            continue
        via = "+".join(sorted(row["names"]))
        if what == "roundtrip":
            if row["real_view"] is None:
                why = row["real_why"]
                if why == "parsed-object-has-no-kind" and row["wire_view"]["kind"] == "err" and row["wire_view"]["id"] is None:
                    klass = f"{fam}:null-id-error-response-parses-to-no-kind"
                else:
                    klass = f"{fam}:roundtrip:{why}"
            else:
                klass = f"{fam}:roundtrip:{view_diff(row['wire_view'], row['real_view'])}"
            fails.append({"klass": klass, "ci": row["ci"], "b": row["b"],
                          "detail": json.dumps({"via": via, "wire": row["value"], "parsed": row["parsed"]})[:700]})
        elif what == "carries":
            klass = f"{fam}:emitted-differs-from-request:{view_diff(row['intent_full'], row['wire_view'])}"
            fails.append({"klass": klass, "ci": row["ci"], "b": row["b"],
                          "detail": json.dumps({"via": via, "asked": row["intent_full"], "wire": row["value"]})[:700]})
        else:
            fails.append({"klass": f"{fam}:response-without-exactly-one-of-result-error", "ci": row["ci"], "b": row["b"],
                          "detail": json.dumps({"wire": row["value"]})[:300]})
    # ---- the typed object itself agrees with its own wire form (what the transports' logging / routing reads)
    for row in rows:
        if row["emitted"] and row.get("obj") and row["valid"] and row["wire_view"]:
            o = row["obj"]
            ctx.spec_total += 1
            if o["kind"] != row["wire_view"]["kind"] or type(o["id"]) is not type(row["wire_view"]["id"]) or o["id"] != row["wire_view"]["id"]:
                fails.append({"klass": f"{row['fam']}:object-and-wire-form-disagree", "ci": row["ci"], "b": row["b"],
                              "detail": json.dumps({"object": o, "wire": row["value"]})[:500]})
    ctx.extra["parse_correspondence_checks"] = ctx.extra.get("parse_correspondence_checks", 0) + corr_seen
    return fails, rows


def model_constructors(ctx, drv, cases, docs):
    """Correspondence of the model's constructors + dump with the real ones (known constructor names only)."""
    reqs, idx = [], []
    for bname, fb, results in docs:
        for ci, (c, r) in enumerate(zip(cases, results)):
            if c["em"] != "ctor" or (c["fn"], c["unified"]) not in CTOR_CODE:
                continue
            a = c["args"]
            code = CTOR_CODE[(c["fn"], c["unified"])]
            i = a.get("id")
            if "id" in a and i is None:       # uuid4: the model takes the id the implementation generated
                try:
                    i = r["emitted"][0]["wires"][0]["value"]["id"]
                except Exception:  # noqa: BLE001
                    continue
            if "id" in a and not is_rid(i):
                continue
            popt = lambda p: "()" if p is None else "(" + js_sx(p) + ")"   # noqa: E731
            if c["fn"] == "create_request":
                if a.get("progress_token") is not None:
                    req = call(5, "1", sx(a["method"]), popt(a.get("params")), sx_rid(i), sx_rid(a["progress_token"]))
                else:
                    req = call(5, str(code), sx(a["method"]), popt(a.get("params")), sx_rid(i))
            elif c["fn"] == "create_notification":
                req = call(5, str(code), sx(a["method"]), popt(a.get("params")))
            elif c["fn"] == "create_response":
                req = call(5, "3", sx(fb), sx_rid(i), js_sx(a.get("result"))) if not c["unified"] else call(5, "7", sx_rid(i), js_sx(a.get("result")))
            else:
                req = call(5, str(code), sx_rid(i), str(a["code"]), sx(a["message"]), js_sx(a.get("data")))
            reqs.append(req)
            idx.append((bname, ci, r))
    res = drv.run(reqs)
    for (bname, ci, r), m in zip(idx, res):
        c = cases[ci]
        built = m[0] if m else None
        real_emitted = bool(r["emitted"])
        key = {"backend": bname, "case": case_key(c)}
        if (built is not None) != real_emitted:
            ctx.mismatch(key, "emitted" if real_emitted else f"raised {r['raised']}", "builds" if built else "raises",
                         "constructor: model and implementation disagree on success")
            continue
        if built is None:
            continue
        mdump = sx_js(built[1])
        e = r["emitted"][0]
        for g in e["wires"]:
            if "value" in g and not jeq(g["value"], mdump):
                ctx.mismatch(key, {"via": g["names"], "wire": g["value"]}, mdump, "constructor + dump: model and implementation differ")
                break
        mcls = CLS_NAMES[built[0][0]]
        mkind = None if built[0][7] == [] else KIND_R[built[0][7][0]]
        if e.get("obj") and e["obj"]["kind"] != mkind:
            ctx.mismatch(key, e["obj"], {"cls": mcls, "kind": mkind}, "constructor: kind of the built object differs")
        elif e.get("obj") and e["obj"]["cls"] != mcls:
            ctx.count("constructor:class-differs-from-model(not-compared)")
        ctx.extra["constructor_correspondence_checks"] = ctx.extra.get("constructor_correspondence_checks", 0) + 1


def id_bucket(i):
    if i is None:
        return "none"
    if type(i) is int:
        return "int:0" if i == 0 else "int:negative" if i < 0 else "int:>=2^63" if i >= 2 ** 63 else "int:small"
    if i == "":
        return "str:empty"
    if i.lstrip("-").isdigit():
        return "str:digits"
    return "str:non-ascii" if any(ord(ch) > 127 for ch in i) else "str:other"


def explore(ctx, drv, inv):
    cases, skipped = gen_cases(ctx, inv)
    docs_raw = run_workers({"mode": "run", "cases": [{k: v for k, v in c.items() if k not in ("intent", "family")} for c in cases]})
    docs = [("pydantic", False, docs_raw[0]["results"]), ("fallback", True, docs_raw[1]["results"])]
    for c in cases:
        ck = case_key(c)
        ctx.case(ck, nontrivial=not c.get("base"))
        ctx.count("family:" + (c["family"].split(":")[0] if c["em"] == "server" else c["family"]))
        ctx.count("em:" + c["em"])
        i = c.get("intent")
        if isinstance(i, dict):
            ctx.count("intent-kind:" + i["kind"])
            if not (isinstance(i["id"], str) and i["id"] == "$wire"):
                ctx.count("id:" + id_bucket(i["id"]))
            for pos in ("params", "result", "error"):
                v = i[pos]
                if not (isinstance(v, str) and v == "$wire") and v is not None:
                    ctx.count(f"payload-depth:{min(jdepth(v), 6)}")
                    if has_nested_null(v):
                        ctx.count("payload:has-nested-null")
        if c.get("drive"):
            ctx.count("driven-through-real-transports")
    fails, rows = judge(ctx, drv, cases, docs)
    model_constructors(ctx, drv, cases, docs)
    for row in rows:
        if row["emitted"]:
            ctx.count(f"{row['b']}:wire-forms")
            for n in row["names"]:
                ctx.count("via:" + n)
            ctx.count("emitted-kind:" + (row["wire_view"]["kind"] if row.get("wire_view") else "invalid"))
    # a failure under one back end only is a different class from one under both
    by = {}
    for f in fails:
        by.setdefault((f["ci"], f["klass"]), {})[f["b"]] = f
    for (ci, klass), per in sorted(by.items(), key=lambda kv: (kv[0][1], kv[0][0])):
        suffix = "" if len(per) == 2 else ":" + next(iter(per)) + "-only"
        f = next(iter(per.values()))
        ctx.spec_violation(klass + suffix, {"case": case_key(cases[ci]), "family": cases[ci]["family"],
                                           "intent": cases[ci].get("intent"), "backends": sorted(per)}, f["detail"])
    ctx.extra["emitters_without_recipe"] = skipped
    for s in skipped:
        ctx.notes.append("emitter found by introspection but not driven: " + s)
    return cases


KNOWN_LITERAL_SITES = {"protocol/types/elicitation.py", "protocol/features/batching.py", "transports/sse/transport.py",
                       "transports/http/transport.py", "transports/http/http_client.py"}


def inventory(ctx):
    d = run_workers({"mode": "discover"}, backends=(False,))[0]
    inv = d["inventory"]
    ctx.extra["emitters"] = {
        "module_level_constructors": [x["name"] for x in inv["ctor"]],
        "JSONRPCMessage_classmethods": [x["name"] for x in inv["unified_ctor"]],
        "send_helpers": sorted(x["module"].replace(MSGS + ".", "") + "." + x["name"] for x in inv["helpers"]),
        "request_handlers": [x["name"] for x in inv["request_handlers"]],
        "BatchProcessor_methods": [x["name"] for x in inv["batch_methods"]],
        "jsonrpc_dict_literal_sites": inv["jsonrpc_literal_sites"],
        "fixed_recipes": ["ProtocolHandler.handle_message / MCPServer handlers", "BatchProcessor.process_message_data",
                          "StdioClient._process_message_data (batch rejection)", "ElicitationHandler.request_user_input",
                          "ElicitationClient.handle_elicitation_request", "StreamableHTTPTransport / SSETransport synthesised errors",
                          "StdioClient._stdin_writer, StreamableHTTPTransport._send_message_internal, SSETransport._send_message_via_http"],
    }
    for s in inv["jsonrpc_literal_sites"]:
        if s["file"] not in KNOWN_LITERAL_SITES:
            ctx.notes.append(f"a JSON-RPC object literal in {s['file']} is not covered by any recipe of this check")
    if not inv["ctor"] or not inv["unified_ctor"] or len(inv["helpers"]) < 5:
        raise lib.HarnessError("introspection found no constructors / helpers: package layout changed")
    return inv


def run(ctx):
    lib.standard_obligations(ctx, GEN, TARGETS)
    try:
        drv = lib.Driver(PID)
        ctx.oblige("build:driver(C02)", True)
    except lib.HarnessError as e:
        ctx.oblige("build:driver(C02)", False, str(e)[-600:])
        raise
    if ctx.broken_obligations:
        ctx.escalated = True
    ctx.extra["tree_under_test"] = tree_state()
    inv = inventory(ctx)
    explore(ctx, drv, inv)
    if ctx.corr_mismatch and not ctx.escalated and not ctx.spec_fail:
        ctx.escalated = True
        explore(ctx, drv, inv)
    if ctx.thorough:
        lib.coqchk(ctx, PID)
    ctx.rule = ("emitters enumerated by introspection (module-level create_*, JSONRPCMessage.create_* classmethods, every send_* helper "
                "under chuk_mcp.protocol.messages, handle_*_request builders, BatchProcessor.create_*) plus fixed recipes (server handler, "
                "batch processing, stdio batch rejection, elicitation, transport-synthesised errors); per emitter: every payload of the "
                "bounded-exhaustive depth-2 JSON set over {null,true,0,-1,2^63,2^64-1,2^64,-2^63-1,10^30,1.5,'',a,space,U+2028,astral,[],{}} + seeded deep "
                f"values, every id of {len(IDS)} shapes (0, negatives, 2^63..2^64-1, empty / digit / non-ASCII strings) x 3 payloads, "
                "every method / code / message shape; both back ends; each emitted object serialised as stdio and as HTTP POST body, a "
                "deterministic sample also through the three real transports (stdio twice: as objects, and as pre-serialised pretty-printed text with LF / CRLF / trailing newline); parse stream = products of member shapes (exhaustive in "
                "the thorough tier). distinct = distinct case descriptors; non-trivial = every case except the bare default-recipe call of a helper "
                "(a case carries a payload, an id, a method or a string from the boundary lists, or a parser input)")
    return lib.finish(ctx, TRUSTED, ASSUME)


def tree_state():
    """Which tree was checked (the theorems are about the code with fixes/C02-*.patch applied)."""
    _rc, head = lib.sh(["git", "-C", lib.REPO, "rev-parse", "--short", "HEAD"], timeout=30)
    _rc2, st = lib.sh(["git", "-C", lib.REPO, "status", "--porcelain"], timeout=30)
    return {"path": lib.REPO, "head": head.strip(), "modified_files": [ln[3:] for ln in st.split("\n") if ln.strip()]}


def replay(ctx, data):
    """Re-run one case descriptor under both back ends (also used for corpus cases, which run before every check:
    a failure is registered with the context, so lib.finish reports it)."""
    drv = lib.Driver(PID)
    c = data["case"]
    case = dict(c["case"])
    case["family"] = c.get("family", case["em"])
    if c.get("intent") is not None:
        case["intent"] = c["intent"]
    if case["em"] not in ("stdio_batch_rejection", "transport_synth", "parse"):
        case["drive"] = True
    docs_raw = run_workers({"mode": "run", "cases": [{k: v for k, v in case.items() if k not in ("intent", "family")}]})
    docs = [("pydantic", False, docs_raw[0]["results"]), ("fallback", True, docs_raw[1]["results"])]
    fails, _rows = judge(ctx, drv, [case], docs)
    by = {}
    for f in fails:
        by.setdefault(f["klass"], {})[f["b"]] = f
    for klass, per in sorted(by.items()):
        suffix = "" if len(per) == 2 else ":" + next(iter(per)) + "-only"
        ctx.spec_violation(klass + suffix, {"case": case_key(case), "family": case["family"], "intent": case.get("intent"),
                                           "backends": sorted(per)}, next(iter(per.values()))["detail"])
    if ctx.replay is not None:
        for bname, _fb, res in docs:
            print(f"{bname}:", json.dumps(res[0], default=str)[:900])
        for f in fails:
            print("REPRODUCED", f["klass"], f["b"], f["detail"][:300])
        if not fails:
            print("not reproduced")
    return 1 if fails else 0

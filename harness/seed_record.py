#!/usr/bin/env python3
"""seed_record.py <PID> <k> <seedtest log> [note]  — store a confirmed seeded change under /verif/seeded/<PID>-<k>/.
Reads /tmp/seed/out/<PID>/<k>/{patch.diff,demo.py,meta.json} (written by an independent sub-agent that saw only the
property text) and the log of harness/seedtest.sh (our own confirmation + what our check reported)."""
import json
import os
import re
import shutil
import sys

pid, k, log = sys.argv[1], sys.argv[2], sys.argv[3]
note = sys.argv[4] if len(sys.argv) > 4 else ""
root = os.environ.get("SEED_ROOT", "/tmp/seed/out")
src = f"{root}/{pid}/{k}"
dst = f"/verif/seeded/{pid}-{int(k) + int(os.environ.get('SEED_K_OFFSET', '0'))}"
os.makedirs(dst, exist_ok=True)
for f in ("patch.diff", "demo.py"):
    shutil.copy(os.path.join(src, f), os.path.join(dst, f))
meta = json.load(open(os.path.join(src, "meta.json")))
txt = open(log).read()
m = re.search(r"RESULT \S+ \S+ demo_unmodified=(\d+) demo_modified=(\d+) suite=\[(.*?)\] check_exit=(\d+) violations=(\d+)", txt)
viol = [re.sub(r"replay=\S*/replays/", "replay=", l.strip()) for l in txt.split("\n") if l.startswith("VIOLATION")]
broken = [l.strip()[:200] for l in txt.split("\n") if "BROKEN obligation" in l][:4]
replays = [l.strip()[:400] for l in txt.split("\n") if l.strip().startswith("replay ")][:3]
meta.update({
    "breaks_property": pid,
    "confirmed_by_lead": {
        "how": "harness/seedtest.sh: scratch worktree of /repo HEAD + patch; demo on /repo (must pass) and on the patched tree "
               "(must fail); full pinned suite on the patched tree; then ./check %s with VERIF_REPO=<patched tree>" % pid,
        "demo_exit_unmodified": int(m.group(1)), "demo_exit_modified": int(m.group(2)), "suite_with_change": m.group(3),
    },
    "our_check": {"exit": int(m.group(4)), "violation_lines": viol, "broken_obligations": broken, "replays": replays,
                  "detected": int(m.group(4)) == 1 and bool(viol)},
})
if note:
    meta["note"] = note
json.dump(meta, open(os.path.join(dst, "meta.json"), "w"), indent=1, ensure_ascii=False)
print(dst, "detected" if meta["our_check"]["detected"] else "MISSED")

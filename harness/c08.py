"""C08 — server dispatch: one response per request, none per notification, never a crash."""
from __future__ import annotations

import asyncio
import json

import anyio

import logging

import lib
_DISABLED_AT = logging.root.manager.disable
logging.getLogger().addHandler(logging.NullHandler())     # module-level logging.error() must not install a console handler
from lib import sx, call

META = {
    "level": "Proof: for EVERY handler table, tool/resource registry, behaviour of application code (returns / raises, including "
             "exceptions whose __str__ raises / returns nonsense), id (int or str, JSON type kept), method string and params shape, "
             "the model of ProtocolHandler.handle_message never raises; every request gets exactly one response with its id and "
             "the property's code table (-32601 unregistered, -32602 unknown or non-string tool/resource, -32603 handler raises, "
             "result otherwise); no notification is answered. Application method handlers are held to their (response, session) "
             "contract; for MCPServer as shipped no hypothesis at all. The model is tied to the real MCPServer/ProtocolHandler by "
             "an exhaustive differential run over the product of classes, and the implementation's outcome is judged by the "
             "extracted, reflected spec checker.",
    "note": "Trusted: Coq kernel, extraction (ExtrOcamlBasic only), the harness and its labelling of each generated case with the "
            "situation it meets (cross-checked three ways: harness label = model's situation_of, model outcome = real outcome, spec "
            "checker on the real outcome). Modelled not verified: Pydantic's envelope validation (id required non-null), CPython "
            "exception formatting. Out of the stated space: handlers raising BaseException (cancellation propagates by design), "
            "non-string session_id arguments, ids that are not int/str (bool, float), falsy handler objects.",
    "technique": "Coq proof by exhaustive case analysis over a total functional model with application code as data; differential "
                 "correspondence against the real dispatcher; reflected boolean spec checker",
    "design_ref": "DESIGN.md section 6 (C08)",
}
GEN = []
TARGETS = ["Base/SrvCommon", "Spec/C08", "Model/Dispatch", "Proofs/Dispatch", "Props/C08", "History/C08_prefix", "Drv/C08"]

TRUSTED = [
    "Coq 8.16.1 kernel (coqc); coqchk re-check in the thorough tier; vm_compute only in History/ witnesses",
    "axioms: none (every C08 theorem prints 'Closed under the global context')",
    "hand-written model Model/Dispatch.v of handle_message, the core handlers, MCPServer's four handlers and the "
    "envelope constructors; application code (method/tool/resource handlers) is DATA quantified over by the theorems; "
    "tied to the code by the correspondence run below",
    "the situation a case meets (unregistered / unknown target / raises / returns / malformed params / custom ...) is computed "
    "by the model's situation_of for the theorems and independently by the harness for every generated case; both must agree",
    "extraction: ExtrOcamlBasic only; ocaml/main.ml text<->sexp",
    "modelled, not verified: Pydantic validation of JSONRPCResponse/JSONRPCError (id: Union[int,str] required), CPython's "
    "f-string / str() calling __str__, dict lookup raising TypeError on unhashable keys",
]
ASSUME = [
    "'handler raises' means raises an Exception subclass; BaseException (asyncio.CancelledError, KeyboardInterrupt, SystemExit) "
    "propagates through `except Exception` by design and is outside the property",
    "ids are JSON ints or strings (a JSON-RPC id); bool/float ids are coerced by Pydantic and are not 'well-formed'",
    "params that is not a JSON object cannot be produced by parse_message (the envelope classes reject it); such messages are "
    "built with model_construct (no validation) and only 'one response with the id' + 'never raises' is demanded for them",
    "a message without a method that carries an id (a response) is answered with a -32600 error envelope; the property does not "
    "speak about responses, only 'never raises' is checked for them",
    "session_id is a str or None (the type the transport layer passes)",
]

STD_NOTIFICATIONS = [
    "notifications/initialized", "notifications/cancelled", "notifications/progress", "notifications/message",
    "notifications/resources/list_changed", "notifications/resources/updated", "notifications/prompts/list_changed",
    "notifications/tools/list_changed", "notifications/roots/list_changed",
]


# --------------------------------------------------------------------------- #
# Application code with known behaviour
# --------------------------------------------------------------------------- #
class Bad1(Exception):
    def __str__(self):
        raise RuntimeError("no text for you")


class Bad2(Exception):
    def __str__(self):
        raise Bad1()


class BadInf(Exception):
    def __str__(self):
        raise BadInf()


class Coded(Exception):
    """an application exception that carries attributes of its own - `code`, `message`, `data` - as HTTP, gRPC, database and
    OS errors do; for the dispatcher it is a handler that raised, nothing more"""

    def __init__(self, code, text="upstream said no"):
        super().__init__(text)
        self.code = code
        self.message = {"not": "a string"}
        self.data = object()


class CodedMethod(Exception):
    def code(self):                       # gRPC style: code is a METHOD
        return 5

    @property
    def message(self):
        raise RuntimeError("no message")


class StrRaises1:
    def __str__(self):
        raise Bad1()


def _cyclic():
    a = []
    a.append(a)
    return a


def tool_table():
    """name -> (handler, abstract behaviour)   behaviour: 0 | (1, d) unrenderable | (2, d) raises"""
    async def ok(**kw):
        return "fine"

    async def okd(**kw):
        return {"a": 1, "b": [1, 2]}

    async def okl(**kw):
        return ["a", {"b": 2}, 3, None]

    async def okn(**kw):
        return None

    async def empty(**kw):
        return "empty-name"

    async def boom(**kw):
        raise RuntimeError("boom")

    async def boomk(**kw):
        raise KeyError("k")

    def sync(**kw):
        return "not awaitable"

    async def bad1(**kw):
        raise Bad1()

    async def bad2(**kw):
        raise Bad2()

    async def badinf(**kw):
        raise BadInf()

    async def boomc404(**kw):
        raise Coded(404)

    async def boomcstr(**kw):
        raise Coded("E_FAIL")

    async def boomcnone(**kw):
        raise Coded(None)

    async def boomcbig(**kw):
        raise Coded(-32602)

    async def boomcmeth(**kw):
        raise CodedMethod("grpc")

    async def unr(**kw):
        return {"a": {1, 2}}

    async def unrs(**kw):
        return StrRaises1()

    async def cyc(**kw):
        return _cyclic()

    return {
        "ok": (ok, 0), "okd": (okd, 0), "okl": (okl, 0), "okn": (okn, 0), "": (empty, 0), "tools/call": (ok, 0),
        "boom": (boom, (2, 0)), "boomk": (boomk, (2, 0)), "sync": (sync, (2, 0)),
        "boomc404": (boomc404, (2, 0)), "boomcstr": (boomcstr, (2, 0)), "boomcnone": (boomcnone, (2, 0)),
        "boomcbig": (boomcbig, (2, 0)), "boomcmeth": (boomcmeth, (2, 0)),
        "bad1": (bad1, (2, 1)), "bad2": (bad2, (2, 2)), "badinf": (badinf, (2, 9)),
        "unr": (unr, (1, 0)), "unrs": (unrs, (1, 1)), "cyc": (cyc, (1, 0)),
    }


def resource_table():
    async def rok():
        return "text"

    async def robj():
        return 12345

    async def rboom():
        raise ValueError("r")

    def rsync():
        return "x"

    async def rboomc404():
        raise Coded(404)

    async def rboomcstr():
        raise Coded("E_FAIL")

    async def rboomcmeth():
        raise CodedMethod("grpc")

    async def rbad1():
        raise Bad1()

    async def rbad2():
        raise Bad2()

    async def runrs():
        return StrRaises1()

    return {
        "u://ok": (rok, 0), "u://obj": (robj, 0), "": (rok, 0),
        "u://boom": (rboom, (2, 0)), "u://sync": (rsync, (2, 0)), "u://boomc404": (rboomc404, (2, 0)),
        "u://boomcstr": (rboomcstr, (2, 0)), "u://boomcmeth": (rboomcmeth, (2, 0)), "u://bad1": (rbad1, (2, 1)), "u://bad2": (rbad2, (2, 2)),
        "u://unrs": (runrs, (1, 1)),
    }


FIXED_ENV_ID = "fixed-7"


def custom_table(handler_obj):
    """method -> (handler, behaviour(id) -> abstract hbeh)
    abstract hbeh: ("ret", env|None) | ("raise", d) | ("junk",)   env: ("res", id) | ("err", id, code)"""
    from chuk_mcp.protocol.messages.json_rpc_message import JSONRPCMessage, create_error_response, create_response

    async def echo_result(m, sid):
        return handler_obj.create_response(m.id, {"ok": 1}), None

    async def echo_legacy(m, sid):      # the unified envelope class, as old application code builds it
        if getattr(m, "id", None) is None:
            return None, None
        return JSONRPCMessage.create_response(m.id, {"ok": 2}), None

    async def own_error(m, sid):
        if getattr(m, "id", None) is None:
            return None, None
        return create_error_response(m.id, -32000, "application error"), None

    async def fixed_env(m, sid):
        return create_response(FIXED_ENV_ID, {}), None

    async def none_handler(m, sid):
        return None, None

    async def raise0(m, sid):
        raise KeyError("k")

    async def raise1(m, sid):
        raise Bad1()

    async def raise2(m, sid):
        raise Bad2()

    async def raiseinf(m, sid):
        raise BadInf()

    async def raisec404(m, sid):
        raise Coded(404)

    async def raisecstr(m, sid):
        raise Coded("E_FAIL")

    async def raisecnone(m, sid):
        raise Coded(None)

    async def raisecspec(m, sid):
        raise Coded(-32601)

    async def raisecmeth(m, sid):
        raise CodedMethod("grpc")

    async def junk_int(m, sid):
        return 42

    async def junk_none(m, sid):
        return None

    async def junk_triple(m, sid):
        return (1, 2, 3)

    def sync_handler(m, sid):           # not awaitable: `await` raises TypeError
        return None, None

    def ret_res(i):
        return ("ret", ("res", i)) if i is not None else ("raise", 0)

    def ret_or_none(kind, *extra):
        return lambda i: ("ret", (kind, i, *extra)) if i is not None else ("ret", None)

    return {
        "c/echo": (echo_result, ret_res),
        "c/legacy": (echo_legacy, ret_or_none("res")),
        "c/error": (own_error, ret_or_none("err", -32000)),
        "c/fixed": (fixed_env, lambda i: ("ret", ("res", FIXED_ENV_ID))),
        "c/none": (none_handler, lambda i: ("ret", None)),
        "c/raise": (raise0, lambda i: ("raise", 0)),
        "c/raise1": (raise1, lambda i: ("raise", 1)),
        "c/raise2": (raise2, lambda i: ("raise", 2)),
        "c/raiseinf": (raiseinf, lambda i: ("raise", 9)),
        "c/raisec404": (raisec404, lambda i: ("raise", 0)), "c/raisecstr": (raisecstr, lambda i: ("raise", 0)),
        "c/raisecnone": (raisecnone, lambda i: ("raise", 0)), "c/raisecspec": (raisecspec, lambda i: ("raise", 0)),
        "c/raisecmeth": (raisecmeth, lambda i: ("raise", 0)),
        "c/junk": (junk_int, lambda i: ("junk",)),
        "c/junknone": (junk_none, lambda i: ("junk",)),
        "c/junk3": (junk_triple, lambda i: ("junk",)),
        "c/sync": (sync_handler, lambda i: ("raise", 0)),
        # application handlers for standard notification names
        "notifications/progress": (raise0, lambda i: ("raise", 0)),
        "notifications/cancelled": (none_handler, lambda i: ("ret", None)),
        "notifications/message": (raise1, lambda i: ("raise", 1)),
        "notifications/roots/list_changed": (echo_result, ret_res),
    }


CORE = [("initialize", 0), ("notifications/initialized", 1), ("ping", 2)]
MCP = [("tools/list", 3), ("tools/call", 4), ("resources/list", 5), ("resources/read", 6)]


class Config:
    """One real server + the abstract description of its tables."""

    def __init__(self, name):
        from chuk_mcp.server.server import MCPServer
        from chuk_mcp.server.protocol_handler import ProtocolHandler
        from chuk_mcp.protocol.types.info import ServerInfo
        from chuk_mcp.protocol.types.capabilities import ServerCapabilities
        self.name = name
        self.tools = {}
        self.resources = {}
        self.custom = {}
        self.lib_handlers = list(CORE)
        if name == "bare":
            self.ph = ProtocolHandler(ServerInfo(name="t", version="1"), ServerCapabilities())
        else:
            srv = MCPServer("t")
            self.ph = srv.protocol_handler
            self.lib_handlers += MCP
            if name in ("mcp", "app", "shadow"):
                self.tools = tool_table()
                self.resources = resource_table()
                for n, (h, _b) in self.tools.items():
                    srv.register_tool(n, h, {"type": "object"}, f"tool {n}")
                for u, (h, _b) in self.resources.items():
                    srv.register_resource(u, h)
                # registering twice replaces (dict assignment): the second registration wins
                srv.register_tool("boom", self.tools["boom"][0], {"type": "object"})
        if name in ("app", "shadow", "bare"):
            self.custom = custom_table(self.ph)
            if name == "shadow":
                # application handlers shadowing library methods
                ct = self.custom
                self.custom = dict(ct)
                self.custom["ping"] = ct["c/raise1"]
                self.custom["tools/call"] = ct["c/none"]
                self.custom["notifications/initialized"] = ct["c/junk"]
                self.custom["initialize"] = ct["c/echo"]
            for m, (h, _b) in self.custom.items():
                self.ph.register_method(m, h)
        # one live session to pass as session_id
        self.session = self.ph.session_manager.create_session({"name": "harness"}, "2025-06-18")
        # ... and sessions whose client sent a clientInfo that is not an object (initialize stores whatever JSON value
        # params.clientInfo held): what an EARLIER request left in the store is no reason for a later one to go unanswered
        self.odd_sessions = [self.ph.session_manager.create_session(ci, "2025-06-18") for ci in (None, "a-string", [1, 2], 5, {"name": None})]

    def registered(self, method):
        return method in self.custom or method in dict(self.lib_handlers)

    # abstract server for the model, instantiated for the id of this message
    def sexp(self, mid):
        hs = [f"({sx(m)} {code})" for m, code in self.lib_handlers]
        for m, (_h, beh) in self.custom.items():
            hs.append(f"({sx(m)} {enc_hbeh(beh(mid))})")
        ts = [f"({sx(n)} {enc_tbeh(b)})" for n, (_h, b) in self.tools.items()]
        rs = [f"({sx(n)} {enc_tbeh(b)})" for n, (_h, b) in self.resources.items()]
        return "((" + " ".join(hs) + ") (" + " ".join(ts) + ") (" + " ".join(rs) + "))"


def enc_id(i):
    return f"(0 {i})" if isinstance(i, int) else f"(1 {sx(i)})"


def enc_env(e):
    if e[0] == "res":
        return f"(0 {enc_id(e[1])})"
    return f"(1 {enc_id(e[1])} {e[2]})"


def enc_hbeh(b):
    if b[0] == "ret":
        return "(7 0 " + ("()" if b[1] is None else "(" + enc_env(b[1]) + ")") + ")"
    if b[0] == "raise":
        return f"(7 1 {b[1]})"
    return "(7 2)"


def enc_tbeh(b):
    return "0" if b == 0 else f"({b[0]} {b[1]})"


def enc_outcome(o):
    if o[0] == "raised":
        return "(0)"
    if o[0] == "none":
        return "(1)"
    if o[0] == "junk":
        return "(2)"
    return "(3 " + enc_env(o[1]) + ")"


def dec_id(x):
    return x[1] if x[0] == 0 else lib.as_str(x[1])


def dec_env(x):
    return ("res", dec_id(x[1])) if x[0] == 0 else ("err", dec_id(x[1]), x[2])


def dec_outcome(x):
    return [("raised",), ("none",), ("junk",)][x[0]] if x[0] < 3 else ("resp", dec_env(x[1]))


SIT_NAMES = {0: "unregistered", 1: "unknown-target", 2: "raises", 3: "returns", 4: "malformed-params",
             5: "custom-answers", 6: "custom-silent", 7: "custom-junk"}


def dec_situation(x):
    if isinstance(x, list):
        return ("custom-answers", dec_env(x[1]))
    return (SIT_NAMES.get(x, f"?{x}"),)


def enc_situation(s):
    if s[0] == "custom-answers":
        return "(5 " + enc_env(s[1]) + ")"
    return str({v: k for k, v in SIT_NAMES.items()}[s[0]])


# --------------------------------------------------------------------------- #
# JSON shapes: concrete representatives of each abstract class
# --------------------------------------------------------------------------- #
def classify_name(v, present):
    """-> abstract jname code for the driver"""
    if not present:
        return "0"
    if isinstance(v, str):
        return f"(1 {sx(v)})"
    if isinstance(v, (list, dict)):
        return "3"
    return "2"


def classify_args(v, present):
    if not present:
        return "0"
    return "1" if isinstance(v, dict) else "2"


def classify_params(p, present):
    """p: concrete params value (any JSON).  -> (abstract sexp, kind label)"""
    if not present or p is None:
        return "0", "absent"
    if not isinstance(p, dict):
        return ("2", "truthy-nondict") if p else ("1", "falsy-nondict")
    n = classify_name(p.get("name"), "name" in p)
    u = classify_name(p.get("uri"), "uri" in p)
    a = classify_args(p.get("arguments"), "arguments" in p)
    return f"(3 {n} {u} {a})", "object"


def situation_label(cfg, case):
    """The harness's own reading of which row of the property's table the case meets
    (independent of the Coq model; compared with the model's situation_of)."""
    method, mid = case["method"], case["id"]
    p = case["params"] if case["has_params"] else None
    if method in cfg.custom:
        b = cfg.custom[method][1](mid)
        if b[0] == "ret":
            return ("custom-silent",) if b[1] is None else ("custom-answers", b[1])
        return ("raises",) if b[0] == "raise" else ("custom-junk",)
    lib_h = dict(cfg.lib_handlers)
    if method not in lib_h:
        return ("unregistered",)
    if method in ("ping", "tools/list", "resources/list", "notifications/initialized"):
        return ("returns",)
    nondict = p is not None and not isinstance(p, dict)
    if method == "initialize":
        return ("malformed-params",) if (nondict and p) else ("returns",)
    if nondict:
        return ("malformed-params",)
    p = p or {}
    key, reg = ("name", cfg.tools) if method == "tools/call" else ("uri", cfg.resources)
    target = p.get(key)
    if not isinstance(target, str) or target not in reg:
        return ("unknown-target",)
    beh = reg[target][1]
    if beh != 0:
        return ("raises",)
    if method == "tools/call" and "arguments" in p and not isinstance(p["arguments"], dict):
        return ("raises",)
    return ("returns",)


# --------------------------------------------------------------------------- #
# Case generation
# --------------------------------------------------------------------------- #
IDS = [0, 1, -1, 2 ** 63, -2 ** 63 - 1, 10 ** 30, "", "0", "1", "007", "abc", "n\u00e9-\u4e2d", " ", "x" * 300, "null", "-1"]
GENERIC_PARAMS = [("absent", None), ("null", None), ({}, None), ({"x": 1}, None),
                  ([], "assign"), ("", "assign"), (0, "assign"), (False, "assign"),
                  ([1, 2], "assign"), ("s", "assign"), (5, "assign"), (True, "assign"), (1.5, "assign")]
NAME_VALUES = ["<absent>", None, 5, True, 1.5, 0, ["ok"], [], {"a": 1}, {}, "nope", "OK", "ok ", "ok\x00"]
ARG_VALUES = ["<absent>", {}, {"a": 1}, None, [1], [], "ab", "", 5, 0, True, [["a", 1]]]
INIT_PARAMS = [{"clientInfo": {"name": "c"}, "protocolVersion": "2025-03-26"}, {"protocolVersion": "1999-01-01"},
               {"clientInfo": 5, "protocolVersion": ["x"]}, {"clientInfo": None, "protocolVersion": None},
               {"protocolVersion": 123, "capabilities": []}]


def random_method(rng):
    alphabet = "abcxyz/_-. \t\u00e9\u4e2d0129PINGtolscar"
    n = rng.choice((1, 2, 3, 5, 9, 17, 40))
    return "".join(rng.choice(alphabet) for _ in range(n))


def methods_for(cfg, ctx):
    from chuk_mcp.protocol.messages.message_method import MessageMethod
    ms = [m for m, _c in CORE + MCP]
    ms += STD_NOTIFICATIONS
    ms += sorted({str(getattr(m, "value", m)) for m in MessageMethod})
    ms += sorted(cfg.custom)
    ms += ["", " ", "PING", "ping ", " ping", "ping\n", "tools/call/", "tools", "initialize\x00", "notifications/", "rpc.discover",
           "\u00e9", "tools/call\u200b"]
    n_rand = ctx.budget(12, 150)
    ms += [random_method(ctx.rng) for _ in range(n_rand)]
    out, seen = [], set()
    for m in ms:
        if m not in seen:
            seen.add(m)
            out.append(m)
    return out


def params_for(cfg, method, ctx, wide):
    """list of (has_params, params, how) with how in parse | assign"""
    out = []
    for p, how in GENERIC_PARAMS:
        if p == "absent":
            out.append((False, None, "parse"))
        elif p == "null":
            out.append((True, None, "parse"))
        else:
            out.append((True, p, how or "parse"))
    if method == "initialize" or wide:
        out += [(True, p, "parse") for p in INIT_PARAMS]
    if method == "tools/call" or wide:
        names = NAME_VALUES + sorted(cfg.tools) if method == "tools/call" else ["<absent>", "ok", ["ok"], "nope"]
        args = ARG_VALUES if method == "tools/call" else ["<absent>", None]
        for n in names:
            for a in args:
                p = {}
                if n != "<absent>":
                    p["name"] = n
                if a != "<absent>":
                    p["arguments"] = a
                out.append((True, p, "parse"))
    if method == "resources/read" or wide:
        uris = NAME_VALUES + sorted(cfg.resources) if method == "resources/read" else ["u://ok", ["u://ok"]]
        for u in uris:
            p = {"name": "ok"} if wide else {}
            if u != "<absent>":
                p["uri"] = u
            out.append((True, p, "parse"))
    return out


def gen_cases(ctx):
    """Yields (cfgname, case).  The product {methods} x {ids + none} x {params shapes} x {envelope class} per config,
    thinned for the dimensions that cannot interact (documented in ctx.rule)."""
    rng = ctx.rng
    for cfgname in ("mcp", "app", "shadow", "bare", "empty"):
        cfg = CONFIGS[cfgname]
        methods = methods_for(cfg, ctx)
        for method in methods:
            rich = method in ("tools/call", "resources/read", "initialize")
            plist = params_for(cfg, method, ctx, wide=False)
            if not rich and cfgname != "app":
                plist = plist[:4] + [plist[8]]
            for (has_p, p, how) in plist:
                # ids: every id class on the first few params shapes, a seeded pair elsewhere
                light = rich and isinstance(p, dict) and len(p) > 0
                ids = [None] + (rng.sample(IDS, 2) if light else IDS)
                if cfgname in ("shadow", "bare", "empty") and not light:
                    ids = [None] + rng.sample(IDS, 4)
                for mid in ids:
                    vias = ["unified"]
                    if how == "parse" and (mid is None or rng.random() < 0.35):
                        vias.append("specific")
                    for via in vias:
                        sid = rng.choice((None, None, "", "unknown-session", "<live>", "<live>", "<odd:0>", "<odd:1>", "<odd:2>", "<odd:3>",
                                          "<odd:4>"))
                        yield cfgname, {"cfg": cfgname, "method": method, "id": mid, "has_params": has_p, "params": p,
                                        "how": how if via == "unified" else "specific", "session": sid,
                                        **({"debug_logging": True} if rng.random() < 0.25 else {})}
    # method-less and batch messages
    for cfgname in ("mcp", "bare"):
        for mid in [None] + IDS:
            for shape in ("result", "error", "bare"):
                yield cfgname, {"cfg": cfgname, "method": None, "id": mid, "shape": shape, "has_params": False, "params": None,
                                "how": "unified", "session": None}
        for n in (0, 1, 3):
            yield cfgname, {"cfg": cfgname, "method": None, "batch": n, "id": None, "has_params": False, "params": None,
                            "how": "batch", "session": None}


CONFIGS = {}


def build_message(case):
    from chuk_mcp.protocol.messages.json_rpc_message import (JSONRPCMessage, JSONRPCRequest, JSONRPCNotification,
                                                              JSONRPCResponse, JSONRPCError, parse_message)
    if case["how"] == "batch":
        return [JSONRPCRequest(id=k, method="ping") for k in range(case["batch"])]
    mid, method = case["id"], case["method"]
    if method is None:
        if case["shape"] == "bare":
            m = JSONRPCMessage(jsonrpc="2.0", id=mid) if mid is None else JSONRPCMessage.create_response(mid, {"t": 1})
            if mid is not None:
                m.result = None
            return m
        if mid is None:
            return JSONRPCMessage(jsonrpc="2.0", result={"r": 1}) if case["shape"] == "result" else \
                JSONRPCMessage(jsonrpc="2.0", error={"code": 1, "message": "m"})
        return JSONRPCResponse(id=mid, result={"r": 1}) if case["shape"] == "result" else \
            JSONRPCError(id=mid, error={"code": 1, "message": "m"})
    raw = {"jsonrpc": "2.0", "method": method}
    if mid is not None:
        raw["id"] = mid
    if case["how"] == "assign":
        # the envelope classes validate params at construction AND on assignment; a message object carrying a
        # non-object params can only be made without validation (duck-typed objects reach handle_message the same way)
        return JSONRPCMessage.model_construct(jsonrpc="2.0", id=mid, method=method, params=case["params"])
    if case["has_params"]:
        raw["params"] = case["params"]
    if case["how"] == "specific":
        raw.pop("jsonrpc")
        return JSONRPCRequest(**raw) if mid is not None else JSONRPCNotification(**raw)
    return parse_message(raw)


def canon_id(v):
    if type(v) is int or type(v) is str:
        return v
    return {"non-json-id": repr(v)}


def canon_outcome(r):
    """what the caller of handle_message observes -> ('raised',) | ('none',) | ('junk',) | ('resp', env)"""
    if not (isinstance(r, tuple) and len(r) == 2):
        return ("junk",), None
    resp = r[0]
    if resp is None:
        return ("none",), None
    if not hasattr(resp, "model_dump"):
        return ("junk",), None
    d = resp.model_dump()
    if "id" not in d:
        return ("junk",), None
    wire = None
    try:
        line = resp.model_dump_json(exclude_none=True)
        back = json.loads(line)
        wire = ("\n" not in line) and back.get("id") == d["id"] and type(back.get("id")) is type(d["id"])
    except Exception:
        wire = False
    err = d.get("error")
    if err is not None:
        return ("resp", ("err", canon_id(d["id"]), err.get("code") if isinstance(err, dict) else None)), wire
    return ("resp", ("res", canon_id(d["id"]))), wire


async def run_real(cases):
    out = []
    for cfgname, case in cases:
        cfg = CONFIGS[cfgname]
        msg = build_message(case)
        sid = cfg.session if case["session"] == "<live>" else case["session"]
        if isinstance(sid, str) and sid.startswith("<odd:"):
            sid = cfg.odd_sessions[int(sid[5:-1])]
        dbg = case.get("debug_logging")
        if dbg:
            # the application runs with its root logger at DEBUG (what `python -m chuk_mcp --verbose` sets up)
            logging.disable(logging.NOTSET)
            _root = logging.getLogger()
            _lvl = _root.level
            _root.setLevel(logging.DEBUG)
            if not any(isinstance(h, logging.NullHandler) for h in _root.handlers):
                _root.addHandler(logging.NullHandler())
        try:
            r = await cfg.ph.handle_message(msg, sid)
            o, wire = canon_outcome(r)
            returned_session = r[1] if isinstance(r, tuple) and len(r) == 2 else None
        except Exception as e:           # BaseException is outside the property (see ASSUME)
            o, wire, returned_session = ("raised", type(e).__name__), None, None
        finally:
            if dbg:
                _root.setLevel(_lvl)
                logging.disable(_DISABLED_AT)
        out.append((o, wire, returned_session))
    return out


# --------------------------------------------------------------------------- #
# Overlapping dispatch: several requests inside handlers at the same time
# --------------------------------------------------------------------------- #
async def _overlap_run(n, order, kinds, nested):
    """n requests dispatched concurrently on ONE server; request k's tool/resource handler suspends until released; they are
    released in `order`.  kinds[k] in {"tool", "tool-raises", "resource", "unknown-tool", "list"}.  With `nested`, request 0's tool
    re-enters handle_message with an inner request before it suspends.  Returns [(request id, response id | None | 'raised')]."""
    import anyio as _anyio
    from chuk_mcp.server.server import MCPServer
    from chuk_mcp.protocol.messages.json_rpc_message import JSONRPCRequest
    srv = MCPServer("overlap")
    ph = srv.protocol_handler
    gates = [_anyio.Event() for _ in range(n)]
    inner = []

    def mk_tool(k, raises):
        async def tool(**kw):
            if nested and k == 0:
                r = await ph.handle_message(JSONRPCRequest(id="inner-%d" % k, method="tools/list"))
                inner.append(("inner-%d" % k, getattr(r[0], "id", None) if isinstance(r, tuple) and r[0] is not None else None))
            await gates[k].wait()
            if raises:
                raise RuntimeError("late failure")
            return "done-%d" % k
        return tool

    def mk_res(k):
        async def res():
            await gates[k].wait()
            return "content-%d" % k
        return res

    reqs = []
    ids = [100 + k if k % 2 else "r%d" % k for k in range(n)]
    for k in range(n):
        kind = kinds[k]
        if kind in ("tool", "tool-raises"):
            srv.register_tool("t%d" % k, mk_tool(k, kind == "tool-raises"), {"type": "object"})
            reqs.append(JSONRPCRequest(id=ids[k], method="tools/call", params={"name": "t%d" % k, "arguments": {}}))
        elif kind == "resource":
            srv.register_resource("res://%d" % k, mk_res(k))
            reqs.append(JSONRPCRequest(id=ids[k], method="resources/read", params={"uri": "res://%d" % k}))
        elif kind == "unknown-tool":
            reqs.append(JSONRPCRequest(id=ids[k], method="tools/call", params={"name": "nope", "arguments": {}}))
            gates[k].set()
        else:
            reqs.append(JSONRPCRequest(id=ids[k], method="tools/list"))
            gates[k].set()
    got = [None] * n

    async def one(k):
        try:
            r = await ph.handle_message(reqs[k])
            resp = r[0] if isinstance(r, tuple) and len(r) == 2 else None
            got[k] = getattr(resp, "id", None) if resp is not None else None
        except Exception:               # noqa: BLE001
            got[k] = "raised"

    async with _anyio.create_task_group() as tg:
        for k in range(n):
            tg.start_soon(one, k)
            await _anyio.sleep(0)       # request k is inside its handler before request k+1 arrives
        for k in order:
            gates[k].set()
            await _anyio.sleep(0)
            await _anyio.sleep(0)
    return list(zip(ids, got)) + inner


def check_overlap(ctx):
    import itertools
    kinds_all = ["tool", "tool-raises", "resource", "unknown-tool", "list"]
    rng = ctx.rng
    scen = []
    for n in (2, 3):
        for order in itertools.permutations(range(n)):
            for nested in (False, True):
                for _ in range(ctx.budget(3, 12)):
                    kinds = [rng.choice(kinds_all[:3]) if k < 2 else rng.choice(kinds_all) for k in range(n)]
                    scen.append((n, list(order), kinds, nested))
    for n, order, kinds, nested in scen:
        case = {"overlapping-dispatch": {"requests": n, "release-order": order, "kinds": kinds, "nested": nested}}
        ctx.case(case, nontrivial=True)
        ctx.count("overlap:requests=%d" % n)
        ctx.count("overlap:" + ("nested" if nested else "flat"))
        pairs = anyio.run(_overlap_run, n, order, kinds, nested)
        for rid, got in pairs:
            ctx.spec_total += 1
            if got == "raised":
                ctx.spec_violation("overlapping-dispatch:raised", case, f"request {rid!r}: handle_message raised")
            elif got is None:
                ctx.spec_violation("overlapping-dispatch:no-response", case, f"request {rid!r} got no response")
            elif got != rid or type(got) is not type(rid):
                ctx.spec_violation("overlapping-dispatch:response-carries-another-id", case,
                                   f"request {rid!r} was answered with id {got!r}; all: {pairs}")


def abstract_msg(case):
    if case["how"] == "batch":
        return "0"
    pid = "()" if case["id"] is None else "(" + enc_id(case["id"]) + ")"
    pm = "()" if case["method"] is None else "(" + sx(case["method"]) + ")"
    psx, _k = classify_params(case["params"], case["has_params"])
    return f"(1 {pid} {pm} {psx})"


def outcome_json(o):
    return list(o) if o[0] != "resp" else ["resp", list(o[1])]


def method_kind(cfg, m):
    if m is None:
        return "no-method"
    if m in cfg.custom:
        return "application-handler"
    if m in dict(CORE):
        return "core"
    if m in dict(cfg.lib_handlers):
        return "tool/resource-method"
    if m in STD_NOTIFICATIONS:
        return "std-notification-name(unregistered)"
    return "other-unregistered"


def id_kind(i):
    if i is None:
        return "none(notification)"
    if isinstance(i, int):
        return "int:0" if i == 0 else ("int:neg" if i < 0 else ("int:big" if i >= 2 ** 63 else "int:small"))
    return "str:empty" if i == "" else ("str:digits" if i.lstrip("-").isdigit() else "str:other")


def explore(ctx, drv):
    for name in ("mcp", "app", "shadow", "bare", "empty"):
        CONFIGS[name] = Config(name)
    # the model's MCPServer table has exactly the keys of the real registry
    model_keys = sorted(lib.as_str(k) for k in drv.run([call(6)])[0])
    real_keys = sorted(CONFIGS["empty"].ph._handlers)
    ctx.oblige("tie:mcp_handlers-keys-equal-real-registry", model_keys == real_keys, f"model {model_keys} real {real_keys}")

    cases = list(gen_cases(ctx))
    real = asyncio.run(run_real(cases))
    reqs = []
    for (cfgname, case) in cases:
        reqs.append(call(1, CONFIGS[cfgname].sexp(case["id"]), abstract_msg(case)))
    mres = drv.run(reqs)

    spec_reqs, spec_meta = [], []
    for (cfgname, case), (o_real, wire, _rs), mr in zip(cases, real, mres):
        cfg = CONFIGS[cfgname]
        o_model = dec_outcome(mr[0])
        is_method = case["method"] is not None
        label = situation_label(cfg, case) if is_method else None
        sit_model = dec_situation(mr[1]) if is_method else None
        _psx, pkind = classify_params(case["params"], case["has_params"])
        nontrivial = is_method
        ctx.case(case, nontrivial=nontrivial)
        ctx.count("cfg:" + cfgname)
        ctx.count("method:" + method_kind(cfg, case["method"]))
        ctx.count("id:" + id_kind(case["id"]))
        ctx.count("params:" + pkind)
        ctx.count("built:" + case["how"])
        ctx.count("outcome:" + (o_real[0] if o_real[0] != "resp" else ("result" if o_real[1][0] == "res" else f"error{o_real[1][2]}")))
        if label:
            ctx.count("situation:" + label[0])
        o_real_cmp = ("raised",) if o_real[0] == "raised" else o_real
        if o_real_cmp != o_model:
            ctx.mismatch(case, outcome_json(o_real), outcome_json(o_model), "handle_message: model != implementation")
        if is_method and label != sit_model:
            ctx.mismatch(case, list(label), list(sit_model), "situation: harness label != model's situation_of")
        # --- spec oracle on the IMPLEMENTATION's outcome ---
        enc_o = enc_outcome(o_real_cmp) if not (o_real_cmp[0] == "resp" and isinstance(o_real_cmp[1][1], dict)) else None
        if enc_o is None:
            ctx.spec_total += 1
            ctx.spec_violation("response-id-not-a-json-id", case, f"outcome {o_real}")
            continue
        spec_reqs.append(call(4, enc_o))
        spec_meta.append(("never-raises", cfg, case, o_real, label))
        if wire is False:
            ctx.spec_total += 1
            ctx.spec_violation("response-not-one-json-line-with-the-id", case, f"outcome {o_real}")
        if o_real[0] == "raised":
            continue                      # reported once, as dispatch-raises
        if not is_method:
            if case["how"] == "batch" or case["id"] is None:
                spec_reqs.append(call(3, enc_o))
                spec_meta.append(("silent", cfg, case, o_real, label))
            continue
        spec_reqs.append(call(5, "()" if case["id"] is None else "(" + enc_id(case["id"]) + ")", enc_situation(label)))
        spec_meta.append(("contract", cfg, case, o_real, label))
        if case["id"] is None:
            spec_reqs.append(call(3, enc_o))
            spec_meta.append(("notification", cfg, case, o_real, label))
        else:
            spec_reqs.append(call(2, enc_id(case["id"]), enc_situation(label), enc_o))
            spec_meta.append(("request", cfg, case, o_real, label))
    sres = drv.run(spec_reqs)
    contract = True
    for (kind, cfg, case, o_real, label), ok in zip(spec_meta, sres):
        if kind == "contract":
            contract = bool(ok)
            ctx.count("contract:" + ("honoured" if ok else "broken-by-application-handler"))
            continue
        if kind in ("notification", "request") and not contract:
            continue                      # the application handler broke its contract: nothing is demanded beyond never-raises
        ctx.spec_total += 1
        if ok:
            continue
        mk = method_kind(cfg, case["method"]).split("(")[0]
        if kind == "never-raises":
            ctx.spec_violation(f"dispatch-raises:{mk}:{label[0] if label else 'no-method'}:" +
                               ("request" if case["id"] is not None else "notification"), case, f"raised {o_real[1:]}")
        elif kind in ("notification", "silent"):
            ctx.spec_violation(f"id-less-message-answered:{mk}:{label[0] if label else 'no-method'}", case, f"outcome {o_real}")
        else:
            if o_real[0] != "resp":
                klass = f"request-not-answered:{mk}:{label[0]}"
            elif o_real[1][1] != case["id"] or type(o_real[1][1]) is not type(case["id"]):
                klass = f"response-id-differs:{mk}:{label[0]}"
            else:
                got = "result" if o_real[1][0] == "res" else f"error{o_real[1][2]}"
                klass = f"wrong-answer:{mk}:{label[0]}:got-{got}"
            ctx.spec_violation(klass, case, f"id={case['id']!r} situation={label} outcome={o_real}")


def run(ctx):
    lib.standard_obligations(ctx, GEN, TARGETS)
    try:
        drv = lib.Driver("C08")
        ctx.oblige("build:driver(C08)", True)
    except lib.HarnessError as e:
        ctx.oblige("build:driver(C08)", False, str(e)[-600:])
        raise
    if ctx.broken_obligations:
        ctx.escalated = True
    explore(ctx, drv)
    check_overlap(ctx)
    if ctx.corr_mismatch and not ctx.escalated and not ctx.spec_fail:
        ctx.escalated = True
        explore(ctx, drv)
    for dim in ("cfg:", "method:", "id:", "params:", "built:", "outcome:", "situation:", "contract:"):
        if len([k for k in ctx.hist if k.startswith(dim)]) < 2:
            raise lib.HarnessError(f"generator dimension {dim} came out constant")
    if ctx.thorough:
        lib.coqchk(ctx, "C08")
    ctx.exhaustive = True
    ctx.rule = ("five real servers (MCPServer with 15 tools/8 resources of every behaviour class; + 17 application method handlers; "
                "+ application handlers shadowing ping/tools/call/initialize/notifications/initialized; bare ProtocolHandler; empty "
                "MCPServer) x methods {3 core, 4 tool/resource, 9 standard notification names, every MessageMethod value, application "
                "methods, edge strings, seeded random strings} x ids {none, 16 int/str ids incl. 0, -1, 2^63, 10^30, '', digit strings} "
                "x params {absent, null, {}, object, 9 non-object values via model_construct; tools/call: 29 names x 12 arguments "
                "values; resources/read: 22 uris; initialize: 5 shapes} x envelope class {unified JSONRPCMessage via parse_message, "
                "JSONRPCRequest/JSONRPCNotification} x session_id {None, '', unknown, live}; plus method-less messages and batches. "
                "The class product is enumerated exhaustively; ids are thinned to a seeded pair on the (name x arguments) grid. "
                "A case is non-trivial when it has a method (it exercises lookup + a handler or an error path); distinct = distinct case dicts")
    return lib.finish(ctx, TRUSTED, ASSUME)


def replay(ctx, data):
    drv = lib.Driver("C08")
    case = data.get("case")
    if not isinstance(case, dict) or "cfg" not in case:
        print("nothing to replay in", data.get("kind"))
        return 0
    for name in ("mcp", "app", "shadow", "bare", "empty"):
        CONFIGS[name] = Config(name)
    cfg = CONFIGS[case["cfg"]]
    (o_real, wire, _rs), = asyncio.run(run_real([(case["cfg"], case)]))
    mr, = drv.run([call(1, cfg.sexp(case["id"]), abstract_msg(case))])
    print("case     :", json.dumps(case, default=str)[:400])
    print("real     :", o_real, "wire_ok" if wire else wire)
    print("model    :", dec_outcome(mr[0]))
    bad = 0
    if case.get("method") is not None:
        label = situation_label(cfg, case)
        print("situation:", label)
        enc_o = enc_outcome(("raised",) if o_real[0] == "raised" else o_real)
        if case["id"] is None:
            ok, = drv.run([call(3, enc_o)])
        else:
            ok, = drv.run([call(2, enc_id(case["id"]), enc_situation(label), enc_o)])
        c_ok, = drv.run([call(5, "()" if case["id"] is None else "(" + enc_id(case["id"]) + ")", enc_situation(label))])
        bad = int(bool(c_ok) and not ok)
    if o_real[0] == "raised":
        bad = 1
    print("REPRODUCED" if bad else "not reproduced")
    return bad

#!/venv/bin/python
"""Entry point:  ./check <property-id> [--tier quick|thorough] [--replay file]
                 ./check --setup        (build everything once)
"""
from __future__ import annotations

import argparse
import importlib
import json
import os
import sys
import traceback

HERE = os.path.dirname(os.path.abspath(__file__))
sys.path.insert(0, HERE)
import logging  # noqa: E402
logging.disable(logging.CRITICAL)   # the library logs every malformed input; the checks never look at log text
import lib  # noqa: E402


def setup():
    import translate
    st = translate.run()
    for k, v in st.items():
        print("translate", k, "OK" if v is None else "FAILED " + v)
    lib.ensure_all_extract_files()
    rc, out = lib.sh("./mk.sh", cwd=lib.COQ, timeout=3000)
    print("\n".join(out.strip().split("\n")[-15:]))
    if rc != 0:
        return 1
    for f in sorted(os.listdir(os.path.join(lib.THEORIES, "Drv"))):
        if f.endswith(".v"):
            lib.build_driver(f[:-2])
            print("driver", f[:-2], "built")
    return 0


def main():
    ap = argparse.ArgumentParser()
    ap.add_argument("pid", nargs="?")
    ap.add_argument("--tier", default=os.environ.get("VERIF_TIER", "quick"))
    ap.add_argument("--replay")
    ap.add_argument("--setup", action="store_true")
    a = ap.parse_args()
    if a.setup:
        sys.exit(setup())
    if not a.pid:
        ap.error("property id required")
    tier = a.tier if a.tier in ("quick", "thorough") else "quick"
    try:
        seed = int(os.environ.get("VERIF_SEED", "0"))
    except ValueError:
        seed = 0
    pid = a.pid.upper()
    ctx = lib.Ctx(pid, tier, seed, replay=a.replay)
    try:
        mod = importlib.import_module(pid.lower())
        if a.replay:
            rc = mod.replay(ctx, json.load(open(a.replay, encoding="utf-8")))
        else:
            # corpus first: minimised failing cases from earlier violations / mutation trials
            cdir = os.path.join(lib.CORPUS, pid)
            n = 0
            if os.path.isdir(cdir):
                for f in sorted(os.listdir(cdir)):
                    if f.endswith(".json"):
                        try:
                            mod.replay(ctx, json.load(open(os.path.join(cdir, f), encoding="utf-8")))
                            n += 1
                        except lib.HarnessError:
                            raise
                        except Exception as e:  # a corpus case the harness can no longer express
                            ctx.notes.append(f"corpus case {f} could not be replayed: {type(e).__name__}: {e}")
            ctx.extra["corpus_cases_replayed"] = n
            rc = mod.run(ctx)
    except lib.HarnessError as e:
        print(f"HARNESS-ERROR property={pid}: {e}")
        sys.exit(2)
    except Exception:
        traceback.print_exc()
        print(f"HARNESS-ERROR property={pid}: unexpected exception in the harness")
        sys.exit(2)
    sys.exit(rc)


if __name__ == "__main__":
    main()

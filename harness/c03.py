"""C03 — client initialization never settles on a protocol version it did not offer."""
from __future__ import annotations

import itertools

import lib
from lib import sx, call
import negot_lib as N
from vloop import vrun

META = {
    "level": "Proof: for EVERY supported list over arbitrary strings, every preferred version and every history of incoming "
             "messages (noise, well-formed / malformed results, JSON-RPC errors of any integer code and message, silence, closed "
             "stream) the model of send_initialize proposes preferred-if-offered-else-head, returns only a version that is in the "
             "list and equals the server's answer, raises VersionMismatch on any well-formed unoffered version, writes no "
             "notifications/initialized on any failure and exactly [initialize; <answer taken>; initialized] on success, and the "
             "tracked client's batching mode is supports_batching(answer) = the mode C13's spec demands; the model run satisfies "
             "the spec written from the property text (C03_model_meets_spec) whose extracted checker is proved to decide it. "
             "The hand-written model is tied to the real send_initialize / send_initialize_with_client_tracking by an exhaustive "
             "differential run over lists x preferred x answers on a virtual clock.",
    "note": "Trusted: Coq kernel, translator (SUPPORTED_VERSIONS, INVALID_PARAMS, is_retryable_error, batching decide are "
            "regenerated), extraction (ExtrOcamlBasic only), the harness and its scripted peer. Modelled not verified: anyio "
            "memory streams / fail_after, pydantic validation of InitializeResult (abstracted to rest_ok / JNonStr), CPython "
            "str.lower (ASCII + the two non-ASCII code points that lower into ASCII; checked over all code points each run). "
            "Domain: a version is a non-empty string; an EMPTY preferred string is treated by the code as absent "
            "(C03_empty_preferred_is_absent). 'any other answer raises a version-mismatch error' is read as: any other "
            "well-formed VERSION; malformed answers / JSON-RPC errors / silence raise their own exception classes and never "
            "send the notification.",
    "technique": "Coq proof (case analysis on a total run function; reflection lemma for the spec checker) + exhaustive differential "
                 "correspondence on a virtual-clock event loop",
    "design_ref": "DESIGN.md section 6 (C03)",
}
GEN = ["VersionsGen.v", "ErrorsGen.v", "BatchingGen.v"]
TARGETS = ["Gen/VersionsGen", "Gen/ErrorsGen", "Gen/BatchingGen", "Model/Batching", "Model/Negotiation", "Spec/C13", "Spec/C03",
           "Proofs/NegotFacts", "Proofs/Batching", "Proofs/Negotiation", "Props/C03"]

TRUSTED = [
    "Coq 8.16.1 kernel (coqc); coqchk re-check in the thorough tier; vm_compute only in C03_default_list_nonempty (finite constant)",
    "axioms: none (every C03 theorem prints 'Closed under the global context')",
    "translator harness/translate.py: SUPPORTED_VERSIONS (default list), INVALID_PARAMS, is_retryable_error and the batching "
    "decision core are regenerated from the source on every run",
    "hand-written model Model/Negotiation.v (propose, await loop, on_answer, client_init, track) tied by the correspondence run below",
    "extraction: ExtrOcamlBasic only; ocaml/main.ml text<->sexp",
    "the scripted peer (harness/negot_lib.py): what it reports as written before / between / after the answer is what was on the "
    "client's write stream at those instants of the virtual clock",
    "modelled, not verified: anyio memory streams and fail_after, pydantic's validation of InitializeResult, CPython str.lower",
]
ASSUME = [
    "a version is a non-empty string; supported lists are non-empty (an empty list raises IndexError before anything is written: "
    "modelled as NoVersions, outside the property's quantifier)",
    "'malformed answer' = result that InitializeResult.model_validate rejects (abstracted: protocolVersion missing / not a string, "
    "capabilities or serverInfo missing or ill-typed, result not an object)",
    "a response whose result is null but which carries protocolVersion/capabilities/serverInfo beside it on the envelope is accepted "
    "by the code (fallback to the envelope's model_dump) and is treated as a well-formed answer with that version",
    "an answer arriving after the timeout counts as silence",
]


# --------------------------------------------------------------------------- #
# Case space
# --------------------------------------------------------------------------- #
def all_lists():
    out = []
    for n in (1, 2, 3):
        out += [list(p) for p in itertools.permutations(N.UNIVERSE, n)]
    return out


def configs():
    prefs = [None] + N.UNIVERSE
    cfg = [(l, p) for l in all_lists() for p in prefs]
    # lists with repeated members, and the library's own list (supported_versions=None)
    a, b, c = N.REAL[1], N.INVENTED[0], N.REAL[0]
    for l in ([a, a], [b, a, b], [a, b, b], [c, c, c]):
        cfg += [(l, p) for p in prefs]
    cfg += [(None, p) for p in prefs]
    return cfg


PADS = [("", " "), (" ", ""), ("", "\n"), ("\t", "\r\n")]


def version_answers():
    out = [{"kind": "version", "value": v} for v in N.UNIVERSE]
    # an offered version with white space around it is a DIFFERENT string: not in the caller's list
    out += [{"kind": "version", "value": a + v + b} for v in N.REAL[:2] for a, b in PADS]
    # the empty string and a lone space: strings like any other, offered by nobody
    out += [{"kind": "version", "value": ""}, {"kind": "version", "value": " "}]
    return out


def malformed_answers():
    out = [{"kind": "nonstr", "value": v} for v in (123, None, True, 1.5, ["2025-06-18"], {"v": "2025-06-18"})]
    out.append({"kind": "missing-version"})
    for k in ("missing-caps", "missing-serverinfo", "bad-serverinfo", "bad-caps"):
        out.append({"kind": k, "value": N.REAL[0]})
    out.append({"kind": "bad-caps", "value": 5})
    out += [{"kind": "result-null"}, {"kind": "result-empty"}, {"kind": "result-list", "value": N.REAL[0]},
            {"kind": "result-scalar", "value": N.REAL[0]}, {"kind": "result-scalar", "value": 7}]
    out += [{"kind": "toplevel-fields", "value": N.REAL[0]}, {"kind": "toplevel-fields", "value": N.INVENTED[1]}]
    out += [{"kind": "close-after-answer", "value": N.REAL[1]}, {"kind": "close-after-answer", "value": N.INVENTED[2]}]
    return out


PV_MESSAGES = ["Unsupported protocol version: 1999-01-01", "PROTOCOL VERSION mismatch"]
PLAIN_MESSAGES = ["server exploded", ""]
BOUNDARY_MESSAGES = ["protocol  version", "protocolversion", "protocol", "protocol versio", "xprotocol versionx",
                     "Protocol\tVersion", "PROTOCOL VERSİON", "protocol versionK", "Protocol Version",
                     "pProtocol versionn", "protocol versioN", "proto", "protocol-version", "protocol version",
                     "PROTOCOL", "rotocol version", "(code: -32602) protocol version"]


def named_codes():
    import chuk_mcp.protocol.types.errors as E
    return sorted({v for k, v in vars(E).items() if k.isupper() and isinstance(v, int) and not isinstance(v, bool)
                   and not k.startswith("SERVER_ERROR_")})


def error_answers(rng):
    codes = named_codes()
    extra = [0, 1, -1, 401, -32601 - 2, -32602 + 1, -32099, -32100, -32768, 2 ** 31, -2 ** 63, 10 ** 20]
    while len(extra) < 20:
        c = rng.randrange(-40000, 40000)
        if c not in codes and c not in extra:
            extra.append(c)
    out = []
    for c in codes + extra:
        for m in (PV_MESSAGES[0], PLAIN_MESSAGES[0]):
            out.append({"kind": "error", "code": c, "message": m})
    for m in PV_MESSAGES[1:] + PLAIN_MESSAGES[1:] + BOUNDARY_MESSAGES:
        out.append({"kind": "error", "code": -32602, "message": m})
    # a rejection that advertises the server's versions (error.data) from a peer that WOULD answer a second initialize
    for c, m in ((-32602, PV_MESSAGES[0]), (-32602, PLAIN_MESSAGES[0]), (-32603, PV_MESSAGES[0])):
        for data, retry in (({"supported": [N.REAL[0], N.REAL[-1]]}, N.REAL[0]), ({"supported": N.UNIVERSE}, N.INVENTED[0]),
                            ({"supported": [N.REAL[1]], "requested": "x"}, N.REAL[1]), ([N.REAL[0]], N.REAL[0]),
                            ({"supportedVersions": list(N.REAL)}, N.REAL[-1])):
            out.append({"kind": "error", "code": c, "message": m, "data": data, "retry": retry})
    return out


def no_answers():
    return [{"kind": "silence"}, {"kind": "late", "value": N.REAL[0]}, {"kind": "closed"}, {"kind": "wrong-id-only"}]


NOISE_PATTERNS = [[], [], [], ["notif"], ["other-id"], ["same-id-request"], ["other-id-error"], ["batch"],
                  ["notif", "other-id-error", "same-id-request"], ["other-id", "other-id", "notif", "batch"]]
TIMEOUTS = [2.0, 2.0, 0.3, None, 2.0, 0.75, 2.0, 5.0]     # None = the function's default (60 s)


PRIORS = ["2025-06-18", "2025-03-26", "2024-11-05", "draft-0", "2026-01-01"]


def gen_cases(ctx):
    full = ctx.thorough or ctx.escalated
    cfgs = configs()
    va, ma, ea, na = version_answers(), malformed_answers(), error_answers(ctx.rng), no_answers()
    cases = []
    k = 0
    for ci, (sup, pref) in enumerate(cfgs):
        def add(ans, tracked):
            nonlocal k
            noise = NOISE_PATTERNS[k % len(NOISE_PATTERNS)]
            if ans["kind"] == "wrong-id-only" and not noise:
                noise = ["other-id"]
            case = {"supported": sup, "preferred": pref, "answer": ans, "noise": noise, "tracked": tracked}
            if ans["kind"] in N.NO_ANSWER_KINDS and ans["kind"] != "closed":
                case["timeout"] = TIMEOUTS[k % len(TIMEOUTS)]
            elif k % 5 == 0:
                case["timeout"] = 30.0
            cases.append(case)
            k += 1
        for ai, ans in enumerate(va):
            if ans["value"] not in N.UNIVERSE and not full and (ci + ai) % 5:
                continue                  # padded answers: a fifth of the configurations each (all of them in thorough)
            add(ans, False)
            add(ans, True)
            if ((ci + ai) % 3 == 0 or full) and sup is not None and ans["value"] in sup:
                # (for answers the client ACCEPTS: a refused handshake leaves the client as it was)
                # the SAME tracked client has been through a handshake before (a reconnect; a renegotiation): the mode it
                # ends in belongs to the version settled on NOW, whatever the earlier one was
                add(ans, True)
                cases[-1]["prior_version"] = PRIORS[(ci + ai) % len(PRIORS)]
        for j, ans in enumerate(ma):
            add(ans, (ci + j) % 2 == 0)
            if full:
                add(ans, (ci + j) % 2 == 1)
        if full:
            for j, ans in enumerate(ea + na):
                add(ans, (ci + j) % 2 == 0)
        else:
            per = 8
            for j in range(per):
                add(ea[(ci * per + j) % len(ea)], (ci + j) % 2 == 0)
            add(na[ci % len(na)], ci % 3 == 0)
    # back-pressure: the write stream is a rendezvous and the peer is busy for a while right after answering, so the
    # initialized notification cannot be handed over at once (busy shorter and longer than the call's timeout)
    bp = 0
    for ci, (sup, pref) in enumerate(cfgs):
        if not sup or (ci % 7 and not full):
            continue
        for ans in va[:3] if full else va[ci % len(va):ci % len(va) + 1]:
            for tmo, busy in ((0.3, 1.0), (2.0, 0.5), (1.0, 3.0)):
                cases.append({"supported": sup, "preferred": pref, "answer": ans, "noise": [], "tracked": bool(bp % 2),
                              "timeout": tmo, "backpressure": busy})
                bp += 1
    # the subprocess-backed entry point (stdio_client_with_initialize): same contract, the CALLER's list
    for ci, (sup, pref) in enumerate(cfgs):
        if sup is not None and len(sup) > 2 and not full:
            continue
        for ans in (va if full else [va[ci % len(va)], va[(ci + 3) % len(va)]]):
            cases.append({"supported": sup, "preferred": pref, "answer": ans, "noise": [], "tracked": False, "entry": "wrapper"})
            # ... and the compatibility entry point of the same name in chuk_mcp.mcp_client (old API): same contract
            cases.append({"supported": sup, "preferred": pref, "answer": ans, "noise": [], "tracked": False, "entry": "shim"})
    # degenerate probes: the empty string as preferred / member (outside the property's universe; correspondence only)
    for sup, pref, ans in ((["2025-06-18", ""], "", {"kind": "version", "value": ""}),
                           (["", "2025-06-18"], "", {"kind": "version", "value": "2025-06-18"}),
                           ([""], None, {"kind": "version", "value": ""}),
                           ([], None, {"kind": "version", "value": "2025-06-18"}),
                           ([], "2025-06-18", {"kind": "silence"})):
        cases.append({"supported": sup, "preferred": pref, "answer": ans, "noise": [], "tracked": True, "timeout": 1.0,
                      "degenerate": True})
    return cases, {"configs": len(cfgs), "version_answers": len(va), "malformed_answers": len(ma),
                   "error_answers": len(ea), "no_answer_kinds": len(na)}


# --------------------------------------------------------------------------- #
def run_impl(cases):
    async def main():
        out = []
        for c in cases:
            out.append(await (N.run_wrapper_case(c) if c.get("entry") in ("wrapper", "shim") else N.run_client_case(c)))
        return out
    return vrun(main)


def pref_class(case, library):
    sup = library if case["supported"] is None else case["supported"]
    if case["preferred"] is None:
        return "absent"
    return "in-list" if case["preferred"] in sup else "not-in-list"


def judge(ctx, cases, impl, model, spec, library):
    canon = [N.canon_impl(o) for o in impl]
    mres = model.run([N.model_request(c) for c in cases]) if model else None
    spec_idx = [i for i, c in enumerate(cases) if not c.get("degenerate")]
    sres = spec.run([N.spec_request(cases[i], canon[i], library) for i in spec_idx])
    sres = dict(zip(spec_idx, sres))
    for i, (case, c) in enumerate(zip(cases, canon)):
        ans = case["answer"]
        ctx.case(case, nontrivial=True)
        ctx.count("answer:" + ans["kind"])
        ctx.count("list:" + ("default" if case["supported"] is None else f"len{len(case['supported'])}"))
        ctx.count("preferred:" + pref_class(case, library))
        ctx.count("outcome:" + c["outcome"][0])
        ctx.count("noise:" + str(len(case["noise"])))
        ctx.count("variant:" + ("wrapper-entry-point" if case.get("entry") == "wrapper" else "compat-shim-entry-point" if case.get("entry") == "shim" else "tracked" if case["tracked"] else "plain"))
        if mres is not None:
            m = N.canon_model(mres[i], case["tracked"])
            if m != c:
                ctx.mismatch(case, c, m, "send_initialize: model != implementation")
        if i not in sres:
            continue
        ctx.spec_total += 1
        ok, clause = sres[i]
        if not ok:
            klass = N.C03_CLAUSES.get(clause, f"clause-{clause}")
            if clause == 4:
                klass = ("initialized-sent-on-failure" if c["outcome"][0] != "ok" else "initialized-not-exactly-one-after-accept")
            ctx.spec_violation(klass, case, f"observed {c}")
        # the tracked client's own consistency: batching_enabled == supports_batching(recorded version)
        if case["tracked"] and impl[i]["tracked"] is not None and impl[i]["tracked"][1] != impl[i]["tracked"][2]:
            ctx.spec_violation("tracked-mode-differs-from-supports_batching", case, f"get_batching_info = {impl[i]['tracked']}")


def check_error_text(ctx, model):
    """says_protocol_version (model) against the Python expression the code evaluates, on its own."""
    rng = ctx.rng
    msgs = list(PV_MESSAGES + PLAIN_MESSAGES + BOUNDARY_MESSAGES)
    alphabet = "protcl vesinPROTCL VESIN-_\tİKéΣx("
    for _ in range(ctx.budget(3000, 30000)):
        if rng.random() < 0.5:
            s = list("protocol version")
            for _k in range(rng.randrange(0, 3)):
                pos = rng.randrange(0, len(s) + 1)
                op = rng.randrange(3)
                if op == 0 and s:
                    del s[min(pos, len(s) - 1)]
                elif op == 1:
                    s.insert(pos, rng.choice(alphabet))
                elif s:
                    j = min(pos, len(s) - 1)
                    s[j] = s[j].upper() if rng.random() < 0.7 else rng.choice(alphabet)
            pre = "".join(rng.choice(alphabet) for _ in range(rng.randrange(0, 4)))
            suf = "".join(rng.choice(alphabet) for _ in range(rng.randrange(0, 4)))
            msgs.append(pre + "".join(s) + suf)
        else:
            msgs.append("".join(rng.choice(alphabet) for _ in range(rng.randrange(0, 24))))
    if not model:
        return
    res = model.run([call(12, sx(m)) for m in msgs])
    for m, r in zip(msgs, res):
        want = "protocol version" in f"JSON-RPC Error: {m} (code: -32602)".lower()
        ctx.case({"error_message": m}, nontrivial=True)
        ctx.count("error-text:" + ("matches" if want else "no-match"))
        if bool(r) != want:
            ctx.mismatch({"error_message": m}, want, bool(r), "'protocol version' in str(e).lower(): model != CPython")


def check_lower_assumption(ctx):
    """The model's [lower] is exact on ASCII and on the two non-ASCII code points whose lower() contains ASCII."""
    bad = []
    for cp in range(0x110000):
        if 0xD800 <= cp <= 0xDFFF:
            continue
        low = chr(cp).lower()
        has_ascii = any(ord(ch) < 128 for ch in low)
        if cp < 128:
            want = chr(cp + 32) if 65 <= cp <= 90 else chr(cp)
            if low != want:
                bad.append(cp)
        elif cp == 0x130:
            if low != "i̇":
                bad.append(cp)
        elif cp == 0x212A:
            if low != "k":
                bad.append(cp)
        elif has_ascii:
            bad.append(cp)
    ctx.oblige("assumption:str.lower-maps-only-U+0130,U+212A-into-ASCII", not bad, f"offending code points: {bad[:10]}")


def explore(ctx, model, spec):
    from chuk_mcp.protocol.types.versioning import SUPPORTED_VERSIONS
    library = list(SUPPORTED_VERSIONS)
    cases, dims = gen_cases(ctx)
    impl = run_impl(cases)
    judge(ctx, cases, impl, model, spec, library)
    check_error_text(ctx, model)
    ctx.extra["case_space"] = dims
    ctx.exhaustive = bool(ctx.thorough or ctx.escalated)


def run(ctx):
    lib.standard_obligations(ctx, GEN, TARGETS)
    check_lower_assumption(ctx)
    spec = lib.Driver("C03Spec")
    stale = [n for n, ok, _d in ctx.obligations if not ok and n.startswith(("translate:", "build:Gen/", "build:Model/"))]
    try:
        if stale:     # a left-over driver would be a model of some OTHER source text
            raise lib.HarnessError("model not rebuilt from the current source: " + ", ".join(stale))
        model = lib.Driver("C03")
        ctx.oblige("build:driver-model(C03)", True)
    except lib.HarnessError as e:
        model = None
        ctx.oblige("build:driver-model(C03)", False, str(e)[-600:])
    if ctx.broken_obligations:
        ctx.escalated = True
    explore(ctx, model, spec)
    if ctx.corr_mismatch and not ctx.escalated and not ctx.spec_fail:
        ctx.escalated = True
        explore(ctx, model, spec)
    if ctx.thorough:
        lib.coqchk(ctx, "C03")
    ctx.rule = ("real send_initialize / send_initialize_with_client_tracking on anyio memory streams against a scripted peer, virtual "
                "clock. configs = every ordered list of 1..3 distinct versions from a 7-version universe (3 real; 4 invented: a later date, a date-shaped string that is no calendar day, the day before the newest, a non-date string) + 4 "
                "lists with repeats + the library default (None), x preferred in {absent, each universe member}. answers = each "
                "universe member, and offered versions with white space around them; 21 malformed results (non-string version x6, missing/ill-typed members, non-object results, "
                "envelope fallback, peer closes before the notification); JSON-RPC errors of every named code and 20 further "
                "codes with and without 'protocol version' + 19 boundary messages on -32602 + rejections carrying data.supported from a peer that WOULD answer a second initialize; silence / late answer / closed "
                "stream / only foreign ids; rotating noise prefixes (notification, foreign id, same-id server request, batch) and "
                "timeouts. quick: configs x (version + malformed) in full, errors and no-answer kinds rotated over the configs (8+1 "
                "per config); thorough/escalated: the full product in both variants (exhaustive=true). Observed: every message on "
                "the write stream with its position relative to the hand-over of the answer and to the end of the call, return "
                "value / exception class (+code), StdioClient.get_batching_info(). Plus a seeded fuzz of the error-text test.")
    return lib.finish(ctx, TRUSTED, ASSUME)


def replay(ctx, data):
    from chuk_mcp.protocol.types.versioning import SUPPORTED_VERSIONS
    spec = lib.Driver("C03Spec")
    case = data.get("case", {})
    if "answer" not in case:
        print("nothing to replay in", data.get("kind"))
        return 0
    impl = run_impl([case])
    judge(ctx, [case], impl, None, spec, list(SUPPORTED_VERSIONS))
    print("case:", case)
    print("observed:", N.canon_impl(impl[0]))
    for f in ctx.spec_fail:
        print("REPRODUCED", f["class"], f["detail"])
    return 1 if ctx.spec_fail else 0

"""C04 — a library server never acknowledges a protocol version it does not support."""
from __future__ import annotations

import asyncio
import json

import anyio

import lib
from lib import sx, sxo, call
import negot_lib as N
import c03
from vloop import vrun

META = {
    "level": "Proof: the default literal and the decision chain of ProtocolHandler._handle_initialize are re-translated from its AST "
             "on every run (the translator also establishes that create_session and result['protocolVersion'] use the decided "
             "variable after the decision); for EVERY requested value (absent, any string, any non-string) the answered version is a "
             "string in SUPPORTED_VERSIONS, equals the request when the request is supported, and is what the session records; "
             "composed with the C03 client model: for every client list and preferred version the handshake ends Ok v with v in "
             "both lists and in the session, with exactly one initialized notification after the answer, or VersionMismatch with "
             "none. The spec checkers written from the property text are proved to decide the declarative spec and judge the real "
             "handler's and the real client<->handler pipe's observations.",
    "note": "Trusted: Coq kernel, harness/translate_c04.py (statement template of _handle_initialize; fail-closed), "
            "translate.py (SUPPORTED_VERSIONS / CURRENT_VERSION), extraction (ExtrOcamlBasic only), the harness. Modelled not "
            "verified: Python's `in` on a list of str for non-string JSON values (never a member), dict.get, pydantic envelopes, "
            "the session store beyond create_session/get_session (C19). 'A server built on the library' = ProtocolHandler and "
            "MCPServer (which delegates initialize to it). An initialize sent as a NOTIFICATION is not answered at all (nothing is "
            "acknowledged; an orphan session with a supported version is left behind) - outside the property.",
    "technique": "Coq proof over a model regenerated from the handler's AST + composition with the C03 client model; exhaustive "
                 "differential correspondence (every calendar date 1900-2099, malformed strings, non-strings, absent; real client "
                 "piped to real handler for every client list)",
    "design_ref": "DESIGN.md section 6 (C04)",
}
GEN = ["VersionsGen.v", "ServerInitGen.v", "ErrorsGen.v", "BatchingGen.v"]
TARGETS = ["Gen/VersionsGen", "Gen/ServerInitGen", "Gen/ErrorsGen", "Gen/BatchingGen", "Model/Batching", "Model/Negotiation",
           "Model/ServerInit", "Spec/C04", "Proofs/NegotFacts", "Proofs/Batching", "Proofs/Negotiation", "Proofs/ServerInit",
           "Props/C04"]

TRUSTED = [
    "Coq 8.16.1 kernel (coqc); coqchk re-check in the thorough tier; vm_compute only for 'CURRENT_VERSION is a member of "
    "SUPPORTED_VERSIONS' (finite generated constants)",
    "axioms: none (every C04 theorem prints 'Closed under the global context')",
    "translator plugin harness/translate_c04.py: default literal, decision chain, and the use of the decided variable for the "
    "session and the result are extracted from the AST of _handle_initialize; any unrecognised statement shape fails closed",
    "translator harness/translate.py: SUPPORTED_VERSIONS, CURRENT_VERSION from versioning.py",
    "client model Model/Negotiation.v (tied by check C03 and again here end-to-end)",
    "extraction: ExtrOcamlBasic only; ocaml/main.ml text<->sexp",
    "modelled, not verified: CPython `in` / dict.get, pydantic message classes, json round trip of the pipe, uuid session ids",
]
ASSUME = [
    "a non-string JSON value is never a member of SUPPORTED_VERSIONS (a list of str) - checked for every non-string probe",
    "the server's supported list is the library's SUPPORTED_VERSIONS (the property leaves it to the code)",
    "the handshake composition assumes the connection stays open (the peer-closes case is part of C03)",
]

SERVER_CLAUSES = {1: "answer-not-a-string", 2: "unsupported-version-answered", 3: "supported-version-not-echoed",
                  4: "session-version-differs-from-answer"}


# --------------------------------------------------------------------------- #
# Requested values
# --------------------------------------------------------------------------- #
def fmt(y, m, d):
    return f"{y:04d}-{m:02d}-{d:02d}"


def calendar_dates():
    for y in range(1900, 2100):
        for m in range(1, 13):
            for d in range(1, 32):
                yield fmt(y, m, d)


def full_grid():
    for y in range(1900, 2100):
        for m in range(100):
            for d in range(100):
                yield fmt(y, m, d)


NON_STRINGS = [None, 0, 1, 123, 20250618, -1, True, False, 1.5, 2025.0618, [], ["2025-06-18"], [["2025-06-18"]],
               ["2025-06-18", "2025-03-26", "2024-11-05"], {}, {"protocolVersion": "2025-06-18"}, {"2025-06-18": 1}, [None], 10 ** 30]


def malformed_strings(ctx, supported):
    rng = ctx.rng
    out = ["", " ", "latest", "null", "2025", "2025-06", "20250618", "2025/06/18", "2025-6-18", "18-06-2025", "2025-06-18Z",
           "2025-06-18T00:00:00", "v2025-06-18", "２０２５-06-18", "2025‐06‐18", "2025-06-18\u0000", "DRAFT-2025-v2", "1.0", "2.0"]
    for s in supported:
        out += [s + "\n", " " + s, s + " ", s.upper() + "x", s[:-1], s + "0", s.replace("-", "_"), s.replace("-", ""),
                s[::-1], "﻿" + s, s + "\r\n", s.replace("0", "O"), "'" + s + "'", '"' + s + '"']
    alphabet = "0123456789-+_ \t\nabcTZ.:/"
    for _ in range(ctx.budget(2000, 20000)):
        s = list(rng.choice(supported) if rng.random() < 0.7 else fmt(rng.randrange(1900, 2100), rng.randrange(0, 100), rng.randrange(0, 100)))
        for _k in range(rng.randrange(1, 4)):
            op = rng.randrange(3)
            pos = rng.randrange(0, len(s) + 1)
            if op == 0 and s:
                del s[min(pos, len(s) - 1)]
            elif op == 1:
                s.insert(pos, rng.choice(alphabet))
            elif s:
                s[min(pos, len(s) - 1)] = rng.choice(alphabet)
        out.append("".join(s))
    return out


def gen_requests(ctx, supported):
    rng = ctx.rng
    reqs = [{"req": "absent", "how": h} for h in ("no-params", "params-null", "params-empty", "params-other-members")]
    reqs += [{"req": "nonstr", "value": v} for v in NON_STRINGS]
    reqs += [{"req": "str", "value": s} for s in supported + N.INVENTED]
    reqs += [{"req": "str", "value": s} for s in malformed_strings(ctx, supported)]
    if ctx.thorough or ctx.escalated:
        reqs += [{"req": "str", "value": s} for s in full_grid()]
    else:
        reqs += [{"req": "str", "value": s} for s in calendar_dates()]
        # dddd-dd-dd strings that are not calendar dates, biased to the neighbourhood of the supported versions
        for s in supported:
            y, m, d = int(s[:4]), int(s[5:7]), int(s[8:10])
            for dy in (-1, 0, 1):
                for mm in (0, m - 1, m, m + 1, 13, 99):
                    for dd in (0, d - 1, d, d + 1, 32, 99):
                        reqs.append({"req": "str", "value": fmt(y + dy, mm % 100, dd % 100)})
        for _ in range(5000):
            reqs.append({"req": "str", "value": fmt(rng.randrange(1900, 2100), rng.randrange(0, 100), rng.randrange(0, 100))})
    return reqs


def request_dict(r, i):
    base = {"jsonrpc": "2.0", "id": i if i % 2 else f"r{i}", "method": "initialize"}
    info = {"capabilities": {}, "clientInfo": {"name": "c", "version": "1"}}
    if r["req"] == "absent":
        h = r["how"]
        if h == "no-params":
            return base
        if h == "params-null":
            return {**base, "params": None}
        if h == "params-empty":
            return {**base, "params": {}}
        return {**base, "params": info}
    params = {"protocolVersion": r["value"]}
    if i % 3:
        params.update(info)
    return {**base, "params": params}


def value_of(v, present=True):
    if not present:
        return ["none"]
    return ["str", v] if isinstance(v, str) else ["nonstr", repr(v)]


def enc_value(v):
    if v[0] == "none":
        return "()"
    return f"(1 {sx(v[1])})" if v[0] == "str" else "(0)"


def enc_requested(r):
    if r["req"] == "absent":
        return "(0)"
    return f"(1 {sx(r['value'])})" if r["req"] == "str" else "(2)"


def make_handlers():
    from chuk_mcp.server.protocol_handler import ProtocolHandler
    from chuk_mcp.server.server import MCPServer
    from chuk_mcp.protocol.types.info import ServerInfo
    from chuk_mcp.protocol.types.capabilities import ServerCapabilities
    from chuk_mcp.protocol.types import capabilities as C
    full = {}
    for name, cls in (("logging", "LoggingCapability"), ("prompts", "PromptsCapability"), ("resources", "ResourcesCapability"),
                      ("tools", "ToolsCapability"), ("completion", "CompletionCapability")):
        if hasattr(C, cls):
            try:
                full[name] = getattr(C, cls)()
            except Exception:                       # noqa: BLE001
                pass
    # what the server ADVERTISES has no bearing on which version it answers: a handler with every capability, one with none
    return [ProtocolHandler(ServerInfo(name="bare", version="1"), ServerCapabilities()),
            MCPServer("wrapped", "2.0").protocol_handler,
            ProtocolHandler(ServerInfo(name="full", version="1"), ServerCapabilities(experimental={"x": {"y": 1}}, **full)),
            ProtocolHandler(ServerInfo(name="completion-only", version="1"),
                            ServerCapabilities(**({"completion": full["completion"]} if "completion" in full else {})))]


def observe_response(handler, resp, sid):
    answered = ["none"]
    result = getattr(resp, "result", None) if resp is not None else None
    if isinstance(result, dict) and "protocolVersion" in result:
        answered = value_of(result["protocolVersion"])
    session = ["none"]
    if sid is not None:
        s = handler.session_manager.get_session(sid)
        if s is not None:
            session = value_of(s.protocol_version)
    return answered, session


def run_server(reqs):
    from chuk_mcp.protocol.messages.json_rpc_message import parse_message
    handlers = make_handlers()

    async def main():
        out = []
        for i, r in enumerate(reqs):
            h = handlers[i % len(handlers)]
            try:
                msg = parse_message(request_dict(r, i))
                resp, sid = await h.handle_message(msg)
                out.append(observe_response(h, resp, sid))
                if sid is not None and i % 64 != 0:
                    h.session_manager.delete_session(sid)      # keep the store small; the observation is already taken
            except Exception as e:                              # noqa: BLE001
                out.append((["raised", type(e).__name__], ["none"]))
        return out
    return asyncio.run(main())


def check_server(ctx, model, spec, supported):
    reqs = gen_requests(ctx, supported)
    obs = run_server(reqs)
    mres = model.run([call(30, enc_requested(r)) for r in reqs]) if model else None
    sres = spec.run([call(40, sx(supported), enc_requested(r), enc_value(a) if a[0] != "raised" else "()", enc_value(s))
                     for r, (a, s) in zip(reqs, obs)])
    for i, (r, (a, s)) in enumerate(zip(reqs, obs)):
        ctx.case(r, nontrivial=True)
        kind = r["req"]
        if kind == "str":
            kind = "str:supported" if r["value"] in supported else "str:unsupported"
        ctx.count("requested:" + kind)
        ctx.count("answered:" + (a[1] if a[0] == "str" else a[0]))
        if r["req"] == "nonstr" and r["value"] in supported:
            raise lib.HarnessError(f"non-string probe {r['value']!r} compares equal to a supported version")
        if mres is not None:
            ma, ms = mres[i]
            dec = lambda x: ["str", lib.as_str(x[1])] if x[0] == 1 else ["nonstr"]  # noqa: E731
            can = lambda x: x if x[0] == "str" else [x[0]]                          # noqa: E731
            if dec(ma) != can(a) or dec(ms) != can(s):
                ctx.mismatch(r, {"answered": a, "session": s}, {"answered": dec(ma), "session": dec(ms)},
                             "_handle_initialize: model != implementation")
        ctx.spec_total += 1
        ok, clause = sres[i]
        if not ok:
            klass = SERVER_CLAUSES.get(clause, f"clause-{clause}")
            if clause in (1, 2) and r["req"] != "absent" and a[0] != "raised" and a[1:] == value_of(r["value"])[1:]:
                klass = "unsupported-version-echoed"
            ctx.spec_violation(klass, r, f"answered {a}, session {s}")


def check_histories(ctx, model, spec, supported):
    """Several initialize requests on ONE connection: every later call is handled with the session id the previous one
    returned (what a server loop does).  Each step is judged like a single request: the version answered is supported and
    is what the session returned by THAT call records."""
    import itertools
    from chuk_mcp.protocol.messages.json_rpc_message import parse_message
    pool = [{"req": "str", "value": v} for v in supported] + [{"req": "str", "value": "1999-01-01"},
                                                              {"req": "absent", "how": "params-empty"},
                                                              {"req": "nonstr", "value": 7}]
    hists = [list(h) for n in (2, 3) for h in itertools.product(pool, repeat=n)]

    async def main():
        out = []
        for hi, hist in enumerate(hists):
            h = make_handlers()[hi % 4]
            sid, steps, kept = None, [], []
            for i, r in enumerate(hist):
                try:
                    resp, new_sid = await h.handle_message(parse_message(request_dict(r, 2 * i + 1)), sid)
                    steps.append(observe_response(h, resp, new_sid))
                    kept.append((resp, new_sid))
                    sid = new_sid if new_sid is not None else sid
                except Exception as e:                          # noqa: BLE001
                    steps.append((["raised", type(e).__name__], ["none"]))
                    kept.append(None)
            # the answers are CONSUMED (serialised by the transport) only now, after the later requests were handled:
            # each must still say what it said when it was returned
            late.append([observe_response(h, *k) if k is not None else st for k, st in zip(kept, steps)])
            out.append(steps)
        return out
    late = []
    obs = asyncio.run(main())
    for hist, steps, lsteps in zip(hists, obs, late):
        for i, (st, lt) in enumerate(zip(steps, lsteps)):
            ctx.spec_total += 1
            if st != lt:
                ctx.spec_violation("reinitialize:answer-changed-after-it-was-returned", {"history": hist, "step": i, "late": True},
                                   f"at return: answered {st[0]}, session {st[1]}; when consumed after the later requests: "
                                   f"answered {lt[0]}, session {lt[1]}")
    flat = [(hist, i, r, a, s) for hist, steps in zip(hists, obs) for i, (r, (a, s)) in enumerate(zip(hist, steps))]
    sres = spec.run([call(40, sx(supported), enc_requested(r), enc_value(a) if a[0] != "raised" else "()", enc_value(s))
                     for _h, _i, r, a, s in flat])
    mres = model.run([call(30, enc_requested(r)) for _h, _i, r, _a, _s in flat]) if model else None
    for k, (hist, i, r, a, s) in enumerate(flat):
        case = {"history": hist, "step": i}
        if i == len(hist) - 1:
            ctx.case(case, nontrivial=True)
            ctx.count(f"history-length:{len(hist)}")
        if mres is not None:
            ma, ms = mres[k]
            dec = lambda x: ["str", lib.as_str(x[1])] if x[0] == 1 else ["nonstr"]  # noqa: E731
            can = lambda x: x if x[0] == "str" else [x[0]]                          # noqa: E731
            if dec(ma) != can(a) or dec(ms) != can(s):
                ctx.mismatch(case, {"answered": a, "session": s}, {"answered": dec(ma), "session": dec(ms)},
                             "_handle_initialize at a later step of a connection: model != implementation")
        ctx.spec_total += 1
        ok, clause = sres[k]
        if not ok:
            ctx.spec_violation("reinitialize:" + SERVER_CLAUSES.get(clause, f"clause-{clause}"), case, f"answered {a}, session {s}")



def check_connections(ctx, spec, supported):
    """Several CONNECTIONS on one server (each initialize arrives without a session id), with application code in between that
    touches process-wide state a session id might be drawn from - it re-seeds `random`, as a tool with reproducible output
    does.  Every connection keeps a session of its own, and that session keeps recording the version answered on ITS
    connection."""
    import itertools
    import random
    from chuk_mcp.protocol.messages.json_rpc_message import parse_message
    pool = [{"req": "str", "value": v} for v in supported] + [{"req": "absent", "how": "params-empty"}]
    hists = [list(h) for n in (2, 3) for h in itertools.product(pool, repeat=n)]
    state = random.getstate()

    async def main():
        out = []
        for hi, hist in enumerate(hists):
            h = make_handlers()[hi % 4]
            for reseed in (False, True):
                steps, kept = [], []
                for i, r in enumerate(hist):
                    if reseed:
                        random.seed(20250618)
                    try:
                        resp, new_sid = await h.handle_message(parse_message(request_dict(r, 2 * i + 1)), None)
                        steps.append(observe_response(h, resp, new_sid))
                        kept.append((resp, new_sid))
                    except Exception as e:                          # noqa: BLE001
                        steps.append((["raised", type(e).__name__], ["none"]))
                        kept.append(None)
                late = [observe_response(h, *k) if k is not None else st for k, st in zip(kept, steps)]
                sids = [k[1] for k in kept if k is not None and k[1] is not None]
                out.append((hist, reseed, steps, late, sids))
        return out
    try:
        obs = asyncio.run(main())
    finally:
        random.setstate(state)
    for hist, reseed, steps, late, sids in obs:
        case = {"connections": hist, "application_reseeds_random_before_each": reseed}
        ctx.case(case, nontrivial=True)
        ctx.count("connections:" + ("reseeded" if reseed else "plain"))
        ctx.spec_total += 1
        if len(set(sids)) != len(sids):
            ctx.spec_violation("connections-share-one-session", case, f"{len(sids)} handshakes answered, session ids {sids}")
        for i, (st, lt) in enumerate(zip(steps, late)):
            ctx.spec_total += 1
            if st != lt:
                ctx.spec_violation("session-of-one-connection-rewritten-by-another", {**case, "connection": i},
                                   f"at return: answered {st[0]}, session {st[1]}; after the other handshakes: answered {lt[0]}, "
                                   f"session {lt[1]}")

# --------------------------------------------------------------------------- #
# End to end: real client piped to the real handler
# --------------------------------------------------------------------------- #
async def run_handshake(sup, pref, handler, wire):
    from chuk_mcp.protocol.messages.initialize.send_messages import send_initialize
    from chuk_mcp.protocol.messages.json_rpc_message import parse_message
    c2s_s, c2s_r = anyio.create_memory_object_stream(64)
    s2c_s, s2c_r = anyio.create_memory_object_stream(64)
    log = {"proposed": [], "initialized": 0, "stray": 0, "answered": ["none"], "session": ["none"], "outcome": None}

    def over_the_wire(m):
        return parse_message(json.loads(json.dumps(m.model_dump(exclude_none=True)))) if wire else m

    async def pump():
        async for msg in c2s_r:
            d = N.describe_written(msg)
            resp, sid = await handler.handle_message(over_the_wire(msg))
            if d[0] == "initialize":
                log["proposed"].append(d[1])
                log["answered"], log["session"] = observe_response(handler, resp, sid)
            elif d[0] == "initialized":
                log["initialized"] += 1
            else:
                log["stray"] += 1
            if resp is not None:
                await s2c_s.send(over_the_wire(resp))

    async with anyio.create_task_group() as tg:
        tg.start_soon(pump)
        try:
            r = await send_initialize(s2c_r, c2s_s, timeout=5.0,
                                      supported_versions=None if sup is None else list(sup), preferred_version=pref)
            pv = getattr(r, "protocolVersion", None)
            log["outcome"] = ["ok", pv] if isinstance(pv, str) else ["ok-nonstr", repr(pv)]
        except Exception as e:                                  # noqa: BLE001
            log["outcome"] = N.classify_exception(e)
        await anyio.sleep(0.5)
        tg.cancel_scope.cancel()
    for s in (c2s_s, c2s_r, s2c_s, s2c_r):
        s.close()
    return log


async def run_retry(sup, pref1, pref2, handler, slow, t1):
    """A slow server: the first send_initialize on the connection gives up after t1 s; the caller tries again ON THE SAME STREAMS,
    preferring another version of its list; the server then answers both requests, in order, `slow` s after each arrived.  What
    counts is the outcome of the SECOND call against the session the server has in force (the last one it created)."""
    from chuk_mcp.protocol.messages.initialize.send_messages import send_initialize
    c2s_s, c2s_r = anyio.create_memory_object_stream(64)
    s2c_s, s2c_r = anyio.create_memory_object_stream(64)
    log = {"first": None, "outcome": None, "session": ["none"], "answers": []}

    async def pump():
        async def answer(msg):
            await anyio.sleep(slow)
            resp, sid = await handler.handle_message(msg)
            if N.describe_written(msg)[0] == "initialize":
                a, s_ = observe_response(handler, resp, sid)
                log["answers"].append(a)
                log["session"] = s_
            if resp is not None:
                await s2c_s.send(resp)
        async with anyio.create_task_group() as tg2:
            async for msg in c2s_r:
                tg2.start_soon(answer, msg)

    async with anyio.create_task_group() as tg:
        tg.start_soon(pump)
        for which, pref, tmo in (("first", pref1, t1), ("outcome", pref2, 5.0)):
            try:
                r = await send_initialize(s2c_r, c2s_s, timeout=tmo, supported_versions=list(sup), preferred_version=pref)
                pv = getattr(r, "protocolVersion", None)
                log[which] = ["ok", pv] if isinstance(pv, str) else ["ok-nonstr", repr(pv)]
            except Exception as e:                                  # noqa: BLE001
                log[which] = N.classify_exception(e)
        await anyio.sleep(slow + 0.5)
        tg.cancel_scope.cancel()
    for st in (c2s_s, c2s_r, s2c_s, s2c_r):
        st.close()
    return log


def check_retry(ctx, spec, supported):
    """the handshake is RETRIED on the same connection after a first attempt that timed out"""
    import itertools
    handlers = make_handlers()
    pairs = [(a, b) for a, b in itertools.permutations(supported, 2)]
    k = 0
    for (a, b) in pairs:
        for slow, t1 in ((0.5, 0.3), (1.0, 0.3)):
            h = handlers[k % len(handlers)]
            k += 1
            lg = vrun(run_retry, [a, b], a, b, h, slow, t1)
            case = {"retry_on_the_same_connection": True, "supported": [a, b], "first_preferred": a, "second_preferred": b,
                    "server_delay": slow, "first_timeout": t1}
            ctx.case(case, nontrivial=True)
            ctx.count("retry:first-" + str(lg["first"][0]))
            o = lg["outcome"]
            s_out = f"(0 {sx(o[1])})" if o[0] == "ok" else ("(1)" if o[0] == "mismatch" else "(2)")
            ok = spec.run([call(41, sx([a, b]), sx(supported), s_out, enc_value(lg["session"]))])[0]
            ctx.spec_total += 1
            if not ok:
                ctx.spec_violation("handshake-neither-agreed-nor-mismatch:retry-after-timeout", case,
                                   f"first attempt {lg['first']}, second attempt {o}; the server answered {lg['answers']} and the session "
                                   f"in force records {lg['session']}")


def check_handshake(ctx, model, spec, supported):
    cfgs = c03.configs()
    handlers = make_handlers()

    async def main():
        out = []
        for i, (sup, pref) in enumerate(cfgs):
            out.append(await run_handshake(sup, pref, handlers[i % len(handlers)], wire=(i // 2) % 2 == 0))
        return out
    logs = vrun(main)
    enc_sup = lambda sup: "()" if sup is None else "(" + sx(list(sup)) + ")"  # noqa: E731
    mres = model.run([call(31, enc_sup(sup), sxo(pref)) for sup, pref in cfgs]) if model else None
    reqs = []
    for (sup, pref), lg in zip(cfgs, logs):
        o = lg["outcome"]
        s_out = f"(0 {sx(o[1])})" if o[0] == "ok" else ("(1)" if o[0] == "mismatch" else "(2)")
        reqs.append(call(41, sx(supported if sup is None else list(sup)), sx(supported), s_out, enc_value(lg["session"])))
    sres = spec.run(reqs)
    for i, ((sup, pref), lg) in enumerate(zip(cfgs, logs)):
        case = {"handshake": True, "supported": sup, "preferred": pref}
        eff = supported if sup is None else sup
        common = [v for v in eff if v in supported]
        ctx.case(case, nontrivial=True)
        ctx.count("handshake:" + lg["outcome"][0])
        ctx.count("handshake-common-versions:" + str(len(set(common))))
        if mres is not None:
            p, mo, trace, ma, ms = mres[i]
            m = {"proposed": [lib.as_str(p)], "initialized": sum(1 for e in trace if e[0] == 1), "stray": 0,
                 "answered": ["str", lib.as_str(ma[1])] if ma[0] == 1 else ["nonstr"],
                 "session": ["str", lib.as_str(ms[1])] if ms[0] == 1 else ["nonstr"],
                 "outcome": N.decode_outcome(mo)}
            if m != lg:
                ctx.mismatch(case, lg, m, "client<->handler handshake: model != implementation")
        ctx.spec_total += 1
        if not sres[i]:
            ctx.spec_violation("handshake-neither-agreed-nor-mismatch", case, f"observed {lg}")
        # the notification reaches the server exactly when the client succeeded
        ctx.spec_total += 1
        if lg["initialized"] != (1 if lg["outcome"][0] == "ok" else 0):
            ctx.spec_violation("handshake-initialized-count", case, f"observed {lg}")


# --------------------------------------------------------------------------- #
def explore(ctx, model, spec):
    from chuk_mcp.protocol.types.versioning import SUPPORTED_VERSIONS
    supported = list(SUPPORTED_VERSIONS)
    check_server(ctx, model, spec, supported)
    check_histories(ctx, model, spec, supported)
    check_connections(ctx, spec, supported)
    check_handshake(ctx, model, spec, supported)
    check_retry(ctx, spec, supported)
    ctx.extra["server_supported"] = supported
    ctx.extra["full_grid_1900_2099"] = bool(ctx.thorough or ctx.escalated)
    ctx.exhaustive = True


def run(ctx):
    lib.standard_obligations(ctx, GEN, TARGETS)
    spec = lib.Driver("C04Spec")
    stale = [n for n, ok, _d in ctx.obligations if not ok and n.startswith(("translate:", "build:Gen/", "build:Model/"))]
    try:
        if stale:     # a left-over driver would be a model of some OTHER source text
            raise lib.HarnessError("model not rebuilt from the current source: " + ", ".join(stale))
        model = lib.Driver("C04")
        ctx.oblige("build:driver-model(C04)", True)
    except lib.HarnessError as e:
        model = None
        ctx.oblige("build:driver-model(C04)", False, str(e)[-600:])
    if ctx.broken_obligations:
        ctx.escalated = True
    explore(ctx, model, spec)
    if ctx.corr_mismatch and not ctx.escalated and not ctx.spec_fail:
        ctx.escalated = True
        explore(ctx, model, spec)
    if ctx.thorough:
        lib.coqchk(ctx, "C04")
    ctx.rule = ("server: real ProtocolHandler (bare and inside MCPServer, alternating) fed initialize requests parsed from JSON: "
                "protocolVersion absent (4 ways), 19 non-string values, each supported and invented version, EVERY calendar date "
                "1900-01-01..2099-12-31 (74 400), the dddd-dd-dd neighbourhood of each supported version, 5 000 seeded dddd-dd-dd "
                "strings, ~2 000 seeded mutations of supported versions and a list of hand-made malformed strings; "
                "thorough/escalated: every dddd-dd-dd string for the years 1900-2099 (2 000 000). Observed: "
                "result.protocolVersion and the protocol_version of the session the call created. handshake: the real "
                "send_initialize piped in memory to the real handler (alternately object-passing and JSON round trip) for every "
                "client list of C03 (1..3 of 6 versions, repeats, default) x preferred; observed: proposal, outcome, version "
                "answered and recorded, notifications reaching the server; histories of 2-3 initialize requests on one handler, each answer read again after the later requests were handled. distinct = distinct requests / configurations")
    return lib.finish(ctx, TRUSTED, ASSUME)


def replay(ctx, data):
    from chuk_mcp.protocol.types.versioning import SUPPORTED_VERSIONS
    supported = list(SUPPORTED_VERSIONS)
    spec = lib.Driver("C04Spec")
    case = data.get("case", {})
    if case.get("retry_on_the_same_connection"):
        check_retry(ctx, spec, supported)
        for f in ctx.spec_fail:
            print("REPRODUCED", f["class"], f["detail"][:300])
        return 1 if ctx.spec_fail else 0
    if "connections" in case:
        check_connections(ctx, spec, supported)          # the whole (small) family: it is its own minimal history
        for f in ctx.spec_fail:
            print("REPRODUCED", f["class"], f["detail"][:300])
        return 1 if ctx.spec_fail else 0
    if case.get("handshake"):
        bad = False
        for hi, h in enumerate(make_handlers()):        # the case does not say which of the handler configurations it ran on
            lg = vrun(run_handshake, case["supported"], case["preferred"], h, True)
            o = lg["outcome"]
            s_out = f"(0 {sx(o[1])})" if o[0] == "ok" else ("(1)" if o[0] == "mismatch" else "(2)")
            eff = supported if case["supported"] is None else list(case["supported"])
            ok = spec.run([call(41, sx(eff), sx(supported), s_out, enc_value(lg["session"]))])[0]
            print("handler", hi, "case:", case, "\nobserved:", lg)
            bad = bad or (not ok) or lg["initialized"] != (1 if o[0] == "ok" else 0)
        if bad:
            print("REPRODUCED", data.get("class"))
        return 1 if bad else 0
    if "history" in case:
        from chuk_mcp.protocol.messages.json_rpc_message import parse_message

        async def main():
            bad = False
            for h in make_handlers():
                bad = (await one(h)) or bad
            return bad

        async def one(h):
            sid, bad, kept = None, False, []
            for i, r in enumerate(case["history"]):
                resp, new_sid = await h.handle_message(parse_message(request_dict(r, 2 * i + 1)), sid)
                a, s_ = observe_response(h, resp, new_sid)
                kept.append((resp, new_sid, a, s_))
                sid = new_sid if new_sid is not None else sid
                ok, clause = spec.run([call(40, sx(supported), enc_requested(r), enc_value(a), enc_value(s_))])[0]
                print("step", i, r, "answered", a, "session", s_, "ok" if ok else "FAILS " + SERVER_CLAUSES.get(clause, "?"))
                bad = bad or not ok
            for i, (resp, new_sid, a, s_) in enumerate(kept):
                la, ls = observe_response(h, resp, new_sid)
                if (la, ls) != (a, s_):
                    print("step", i, "answer read again after the later requests: answered", la, "session", ls, "(was", a, s_, ") FAILS")
                    bad = True
            return bad
        bad = asyncio.run(main())
        if bad:
            print("REPRODUCED", data.get("class"))
        return 1 if bad else 0
    if "req" not in case:
        print("nothing to replay in", data.get("kind"))
        return 0
    rc = 0
    for (a, s) in run_server([case] * 4):               # once on each handler configuration
        ok, clause = spec.run([call(40, sx(supported), enc_requested(case), enc_value(a) if a[0] != "raised" else "()", enc_value(s))])[0]
        print("case:", case, "\nobserved: answered", a, "session", s)
        if not ok:
            print("REPRODUCED", data.get("class"), "(" + SERVER_CLAUSES.get(clause, "?") + ")")
            rc = 1
    return rc

"""Translator plugin for C13: regenerates Gen/BatchingGen.v from supports_batching (protocol/features/batching.py) by SYMBOLIC
EXECUTION of a small Python subset (it replaces the statement-template version in translate.py, which raised a false alarm when
the date comparison was rewritten as a tuple comparison in a helper - trial H-C13-1 of DESIGN section 11.5).

supports_batching(protocol_version) and the module-level helpers it calls (inlined) are executed over symbolic values: the
argument, protocol_version.split("-") and its length, int(<part i>) for i = 0, 1, 2 (the integers year, month, day), integer
literals and module-level names bound once to an integer literal or to a tuple of them, tuples, None, conditionals, comparisons
(of integers, and of equal-length integer tuples: lexicographic), and / or / not, `x is None`.  What must come out:
    * falsy argument                          -> True
    * not exactly three dash-separated parts  -> True
    * otherwise all three parts are converted by int() INSIDE a try whose handler catches ValueError and returns True, and the
      answer is a boolean function of (year, month, day) only
and that function is emitted as `decide (year month day : Z) : bool`.  Model/Batching.v supplies the prelude (splitting, the
integer syntax int() accepts) by hand; Proofs/Batching.v proves `decide` equal to "before 2025-06-18" on every run.  Anything
outside the subset raises TranslateError (fail-closed, the Gen file is removed).
"""
from __future__ import annotations

import ast

import translate as T

PATH = "protocol/features/batching.py"
PV, PARTS, NONE = ("pv",), ("parts",), ("none",)
TRUE, FALSE = ("bool", "true"), ("bool", "false")
NAMES = ["year", "month", "day"]
CMPZ = {ast.Lt: "Z.ltb", ast.LtE: "Z.leb", ast.Gt: "Z.gtb", ast.GtE: "Z.geb", ast.Eq: "Z.eqb"}
MAX_DEPTH = 5


def cond(t, a, b):
    if a == b:
        return a
    if t == TRUE:
        return a
    if t == FALSE:
        return b
    return ("cond", t, a, b)


def lift1(v, f):
    """apply f below the conditionals of v"""
    if v[0] == "cond":
        return cond(v[1], lift1(v[2], f), lift1(v[3], f))
    return f(v)


def lift2(a, b, f):
    return lift1(a, lambda x: lift1(b, lambda y: f(x, y)))


def b_and(x, y):
    if x == FALSE or y == FALSE:
        return FALSE
    if x == TRUE:
        return y
    if y == TRUE:
        return x
    return ("bool", f"({x[1]} && {y[1]})")


def b_or(x, y):
    if x == TRUE or y == TRUE:
        return TRUE
    if x == FALSE:
        return y
    if y == FALSE:
        return x
    return ("bool", f"({x[1]} || {y[1]})")


def b_not(x):
    if x == TRUE:
        return FALSE
    if x == FALSE:
        return TRUE
    return ("bool", f"(negb {x[1]})")


def is_test(v):
    return v[0] in ("bool", "empty", "malformed") or (v[0] == "not" and is_test(v[1]))


class Path:
    def __init__(self):
        self.parsed = frozenset()
        self.guard = False           # inside a try whose handler catches ValueError and returns True

    def copy(self):
        p = Path()
        p.parsed, p.guard = self.parsed, self.guard
        return p


class Sym:
    def __init__(self, tree):
        self.tree = tree
        self.functions = {n.name: n for n in tree.body if isinstance(n, (ast.FunctionDef, ast.AsyncFunctionDef))}

    def const(self, name):
        v = T.numeric_value(ast.Name(id=name, ctx=ast.Load()), self.tree)
        if v is not None and isinstance(v, int):
            return ("num", T.zlit(v))
        stores = [n for n in ast.walk(self.tree) if isinstance(n, ast.Name) and n.id == name and isinstance(n.ctx, (ast.Store, ast.Del))]
        if len(stores) == 1:
            for st in self.tree.body:
                tgt = val = None
                if isinstance(st, ast.Assign) and len(st.targets) == 1:
                    tgt, val = st.targets[0], st.value
                elif isinstance(st, ast.AnnAssign) and st.value is not None:
                    tgt, val = st.target, st.value
                if tgt is stores[0] and isinstance(val, ast.Tuple):
                    items = [T.numeric_value(e, self.tree) for e in val.elts]
                    if all(isinstance(i, int) and not isinstance(i, bool) for i in items):
                        return ("tuple", [("num", T.zlit(i)) for i in items])
        return None

    # ------------------------------------------------------------------ expressions
    def ev(self, n, env, path, depth):
        if isinstance(n, ast.Constant):
            if n.value is True:
                return TRUE
            if n.value is False:
                return FALSE
            if n.value is None:
                return NONE
            if isinstance(n.value, int):
                return ("num", T.zlit(n.value))
            if isinstance(n.value, str):
                return ("str", n.value)
            raise T.TranslateError("supports_batching: unsupported constant", n)
        if isinstance(n, ast.JoinedStr):
            return ("opaque",)
        if isinstance(n, ast.Name):
            if n.id in env:
                return env[n.id]
            c = self.const(n.id)
            if c is not None:
                return c
            raise T.TranslateError(f"supports_batching: unknown name {n.id}", n)
        if isinstance(n, ast.Tuple):
            return ("tuple", [self.ev(e, env, path, depth) for e in n.elts])
        if isinstance(n, ast.Subscript):
            b = self.ev(n.value, env, path, depth)
            i = n.slice.value if isinstance(n.slice, ast.Constant) and isinstance(n.slice.value, int) else None
            if b == PARTS and i in (0, 1, 2):
                return ("part", i)
            if b[0] == "tuple" and i is not None and -len(b[1]) <= i < len(b[1]):
                return b[1][i]
            raise T.TranslateError("supports_batching: unsupported subscript", n)
        if isinstance(n, ast.UnaryOp) and isinstance(n.op, ast.Not):
            return self.truth_not(self.ev(n.operand, env, path, depth), n)
        if isinstance(n, ast.BoolOp):
            vs = [self.as_test(self.ev(v, env, path, depth), v) for v in n.values]
            out = vs[0]
            for v in vs[1:]:
                out = self.combine(out, v, isinstance(n.op, ast.And), n)
            return out
        if isinstance(n, ast.IfExp):
            t = self.as_test(self.ev(n.test, env, path, depth), n.test)
            return cond(t, self.ev(n.body, env, path, depth), self.ev(n.orelse, env, path, depth))
        if isinstance(n, ast.Compare) and len(n.ops) == 1:
            a, b = self.ev(n.left, env, path, depth), self.ev(n.comparators[0], env, path, depth)
            return lift2(a, b, lambda x, y: self.compare(n.ops[0], x, y, n))
        if isinstance(n, ast.Call):
            return self.call(n, env, path, depth)
        raise T.TranslateError(f"supports_batching: unsupported expression {type(n).__name__}", n)

    def as_test(self, v, node):
        if v == PV:
            return ("not", ("empty",))
        if is_test(v) or v[0] == "cond":
            return v
        raise T.TranslateError("supports_batching: truth value of something that is not a test", node)

    def truth_not(self, v, node):
        v = self.as_test(v, node)
        return lift1(v, lambda x: x[1] if x[0] == "not" else b_not(x) if x[0] == "bool" else ("not", x))

    def combine(self, a, b, is_and, node):
        def f(x, y):
            if x[0] == "bool" and y[0] == "bool":
                return b_and(x, y) if is_and else b_or(x, y)
            # a structural test (empty / malformed) mixed in: keep as a conditional
            return cond(x, y, FALSE) if is_and else cond(x, TRUE, y)
        return lift2(a, b, f)

    def compare(self, op, a, b, node):
        if isinstance(op, (ast.Is, ast.IsNot)) and (a == NONE or b == NONE):
            other = b if a == NONE else a
            r = TRUE if other == NONE else FALSE
            if other[0] not in ("none", "tuple", "num", "bool"):
                raise T.TranslateError("supports_batching: `is None` on a value the translator cannot follow", node)
            return r if isinstance(op, ast.Is) else b_not(r)
        if a == ("len",) or b == ("len",):
            other, flip = (b, False) if a == ("len",) else (a, True)
            if other == ("num", "3") and isinstance(op, (ast.NotEq, ast.Eq)):
                return ("malformed",) if isinstance(op, ast.NotEq) else ("not", ("malformed",))
            raise T.TranslateError("supports_batching: the number of parts is compared with something other than `!= 3` / `== 3`", node)
        if a[0] == "num" and b[0] == "num":
            if isinstance(op, ast.NotEq):
                return ("bool", f"(negb (Z.eqb {a[1]} {b[1]}))")
            if type(op) in CMPZ:
                return ("bool", f"({CMPZ[type(op)]} {a[1]} {b[1]})")
        if a[0] == "tuple" and b[0] == "tuple" and len(a[1]) == len(b[1]) and a[1] and \
                all(x[0] == "num" for x in a[1] + b[1]):
            return self.lex(op, a[1], b[1], node)
        raise T.TranslateError("supports_batching: unsupported comparison", node)

    def lex(self, op, xs, ys, node):
        eq = lambda x, y: ("bool", f"(Z.eqb {x[1]} {y[1]})")   # noqa: E731
        if isinstance(op, (ast.Eq, ast.NotEq)):
            r = TRUE
            for x, y in zip(xs, ys):
                r = b_and(r, eq(x, y))
            return r if isinstance(op, ast.Eq) else b_not(r)
        if type(op) not in (ast.Lt, ast.LtE, ast.Gt, ast.GtE):
            raise T.TranslateError("supports_batching: unsupported tuple comparison", node)
        strict = "Z.ltb" if isinstance(op, (ast.Lt, ast.LtE)) else "Z.gtb"
        last = CMPZ[type(op)]
        # (x1, rest) < (y1, rest')  <->  x1 < y1  or  (x1 = y1 and rest < rest')
        r = ("bool", f"({last} {xs[-1][1]} {ys[-1][1]})")
        for x, y in reversed(list(zip(xs[:-1], ys[:-1]))):
            r = b_or(("bool", f"({strict} {x[1]} {y[1]})"), b_and(eq(x, y), r))
        return r

    def call(self, n, env, path, depth):
        if any(isinstance(a, ast.Starred) for a in n.args) or any(k.arg is None for k in n.keywords):
            raise T.TranslateError("supports_batching: star-arguments", n)
        f = n.func
        if isinstance(f, ast.Attribute) and f.attr == "split" and len(n.args) == 1 and not n.keywords \
                and self.ev(f.value, env, path, depth) == PV and self.ev(n.args[0], env, path, depth) == ("str", "-"):
            return PARTS
        if isinstance(f, ast.Name) and f.id == "len" and len(n.args) == 1 and self.ev(n.args[0], env, path, depth) == PARTS:
            return ("len",)
        if isinstance(f, ast.Name) and f.id == "int" and len(n.args) == 1 and not n.keywords:
            v = self.ev(n.args[0], env, path, depth)
            if v[0] == "part":
                if not path.guard:
                    raise T.TranslateError("supports_batching: int(<part>) outside a try whose handler catches ValueError and "
                                           "returns True", n)
                path.parsed = path.parsed | {v[1]}
                return ("num", NAMES[v[1]])
            raise T.TranslateError("supports_batching: int() of something that is not one of the three parts", n)
        if isinstance(f, ast.Name) and f.id in self.functions:
            fn = self.functions[f.id]
            if depth >= MAX_DEPTH or fn.decorator_list or fn.args.vararg or fn.args.kwarg or fn.args.posonlyargs \
                    or isinstance(fn, ast.AsyncFunctionDef):
                raise T.TranslateError(f"helper {fn.name}: outside the subset", n)
            names = [a.arg for a in fn.args.args]
            args = [self.ev(a, env, path, depth) for a in n.args]
            kws = {k.arg: self.ev(k.value, env, path, depth) for k in n.keywords}
            sub = {}
            for i, nm in enumerate(names):
                if i < len(args):
                    sub[nm] = args[i]
                elif nm in kws:
                    sub[nm] = kws[nm]
                else:
                    j = i - (len(names) - len(fn.args.defaults))
                    if j < 0:
                        raise T.TranslateError(f"helper {fn.name}: missing argument {nm}", n)
                    sub[nm] = self.ev(fn.args.defaults[j], {}, path, depth + 1)
            tree = self.block(list(fn.body), sub, path, depth + 1)
            # the helper's effects (which parts it converted) must not depend on its path, except that a path that returns
            # None / stops early on a structural test converts nothing
            return self.fold(tree, path, fn)
        if isinstance(f, ast.Attribute) and isinstance(f.value, ast.Name) and f.value.id in T.LOG_NAMES:
            return ("opaque",)
        raise T.TranslateError("supports_batching: call of code the translator cannot follow", n)

    def fold(self, tree, path, fn):
        if tree[0] == "leaf":
            path.parsed = path.parsed | tree[2].parsed
            return tree[1]
        _t, test, a, b = tree
        pa, pb = path.copy(), path.copy()
        va, vb = self.fold(a, pa, fn), self.fold(b, pb, fn)
        # conversions done on one side only are recorded as done (the check at the leaves of the main function is about the
        # well-formed case; a side that converts less must be one the structural tests exclude there - verified below)
        path.parsed = pa.parsed | pb.parsed
        self.partial = getattr(self, "partial", []) + ([(test, pa.parsed, pb.parsed)] if pa.parsed != pb.parsed else [])
        return cond(test, va, vb)

    # ------------------------------------------------------------------ statements
    def block(self, stmts, env, path, depth):
        env = dict(env)
        for k, st in enumerate(stmts):
            if isinstance(st, ast.Expr) and isinstance(st.value, ast.Constant) and st.value.value == "$unguard":
                path.guard = False           # end of the try body
                continue
            if T.is_docstring(st) or isinstance(st, ast.Pass) or T.is_log_call(st):
                continue
            rest = stmts[k + 1:]
            if isinstance(st, ast.Return):
                return ("leaf", NONE if st.value is None else self.ev(st.value, env, path, depth), path)
            if isinstance(st, ast.AnnAssign):
                if st.value is None:
                    continue
                st = ast.Assign(targets=[st.target], value=st.value, lineno=st.lineno)
            if isinstance(st, ast.Assign):
                if len(st.targets) != 1:
                    raise T.TranslateError("supports_batching: chained assignment", st)
                tg, val = st.targets[0], self.ev(st.value, env, path, depth)
                if isinstance(tg, ast.Name):
                    env[tg.id] = val
                elif isinstance(tg, ast.Tuple) and val[0] == "tuple" and len(val[1]) == len(tg.elts) \
                        and all(isinstance(e, ast.Name) for e in tg.elts):
                    for e, v in zip(tg.elts, val[1]):
                        env[e.id] = v
                else:
                    raise T.TranslateError("supports_batching: unsupported assignment target", st)
                continue
            if isinstance(st, ast.Expr):
                self.ev(st.value, env, path, depth)
                continue
            if isinstance(st, ast.If):
                t = self.as_test(self.ev(st.test, env, path, depth), st.test)
                return self.branch(t, list(st.body) + rest, list(st.orelse) + rest, env, path, depth)
            if isinstance(st, ast.Try):
                if st.finalbody or len(st.handlers) != 1:
                    raise T.TranslateError("supports_batching: try shape outside the subset", st)
                h = st.handlers[0]
                names = [h.type.id] if isinstance(h.type, ast.Name) else \
                    [e.id for e in h.type.elts if isinstance(e, ast.Name)] if isinstance(h.type, ast.Tuple) else []
                hb = [s for s in h.body if not (T.is_log_call(s) or T.is_docstring(s) or isinstance(s, ast.Pass))]
                if not ({"ValueError", "Exception"} & set(names)) or len(hb) != 1 \
                        or ast.dump(hb[0]) != "Return(value=Constant(value=True))":
                    raise T.TranslateError("supports_batching: the handler does not catch ValueError and return True", h)
                if path.guard:
                    raise T.TranslateError("supports_batching: nested try", st)
                # the guarded region is the try body only; what follows (orelse, rest) runs unguarded
                marker = ast.Expr(value=ast.Constant(value="$unguard"))
                path.guard = True
                return self.block(list(st.body) + [marker] + list(st.orelse) + rest, env, path, depth)
            raise T.TranslateError(f"supports_batching: unsupported statement {type(st).__name__}", st)
        return ("leaf", NONE, path)

    def branch(self, t, sa, sb, env, path, depth):
        def spec(v, test, truth):
            if v[0] == "cond":
                if v[1] == test:
                    return spec(v[2] if truth else v[3], test, truth)
                return cond(v[1], spec(v[2], test, truth), spec(v[3], test, truth))
            if v[0] == "tuple":
                return ("tuple", [spec(x, test, truth) for x in v[1]])
            return v

        def under(test, truth):
            return {k: spec(v, test, truth) for k, v in env.items()}
        if t[0] == "cond":
            _c, tt, x, y = t
            return ("if", tt, self.branch(x, sa, sb, under(tt, True), path.copy(), depth),
                    self.branch(y, sa, sb, under(tt, False), path.copy(), depth))
        if t == TRUE:
            return self.block(sa, env, path, depth)
        if t == FALSE:
            return self.block(sb, env, path, depth)
        if t[0] == "not":
            return self.branch(t[1], sb, sa, env, path, depth)
        return ("if", t, self.block(sa, under(t, True), path.copy(), depth), self.block(sb, under(t, False), path.copy(), depth))


def gen_batching() -> str:
    tree = T.read(PATH)
    fn = T.find_def(tree, "supports_batching")
    if fn.decorator_list or [a.arg for a in fn.args.args] != ["protocol_version"] or fn.args.defaults \
            or fn.args.vararg or fn.args.kwarg or fn.args.kwonlyargs:
        raise T.TranslateError("supports_batching: signature differs from template", fn)
    sym = Sym(tree)
    rets = sym.block(list(fn.body), {"protocol_version": PV}, Path(), 0)

    def restrict(t, empty, malformed):
        """the decision tree under the given truth of the structural tests; leaves: (value, parsed)"""
        if t[0] == "leaf":
            return lift1(t[1], lambda v: ("leaf", v, t[2].parsed))
        _i, test, a, b = t
        if test == ("empty",):
            return restrict(a if empty else b, empty, malformed)
        if test == ("malformed",):
            if empty:
                raise T.TranslateError("supports_batching: the argument is split before it is tested for emptiness", fn)
            return restrict(a if malformed else b, empty, malformed)
        if empty or malformed:
            # an integer test cannot be reached before the structural ones have passed
            raise T.TranslateError("supports_batching: a date test is made on an empty / malformed version", fn)
        return ("if", test, restrict(a, empty, malformed), restrict(b, empty, malformed))

    def all_leaves(t):
        if t[0] == "leaf":
            return [t]
        if t[0] == "cond":
            return all_leaves(t[2]) + all_leaves(t[3])
        return all_leaves(t[2]) + all_leaves(t[3])
    for e, m, what in ((True, False, "a falsy version"), (False, True, "a version that has not three parts")):
        for leaf in all_leaves(restrict(rets, e, m)):
            if leaf[1] != TRUE:
                raise T.TranslateError(f"supports_batching: {what} is not answered True", fn)
    core = restrict(rets, False, False)

    def emit(t):
        if t[0] == "leaf":
            if t[1][0] != "bool":
                raise T.TranslateError("supports_batching: a well-formed version is not answered by a boolean", fn)
            if t[2] != frozenset({0, 1, 2}):
                raise T.TranslateError("supports_batching: an answer is given before all three parts were converted by int()", fn)
            return t[1][1]
        if t[0] == "cond":
            return f"(if {emit_test(t[1])} then {emit(t[2])} else {emit(t[3])})"
        return f"(if {emit_test(t[1])} then {emit(t[2])} else {emit(t[3])})"

    def emit_test(t):
        if t[0] != "bool":
            raise T.TranslateError("supports_batching: unexpected test in the date decision", fn)
        return t[1]
    body = emit(core)
    out = T.HEADER.format(src=PATH + " (supports_batching) by harness/translate_c13.py")
    out += "(* the answer of supports_batching for a version made of three integer parts (symbolic execution of the function and\n"
    out += "   its helpers; a falsy version, a version without exactly three parts and a part int() rejects are answered True) *)\n"
    out += f"Definition decide (year : Z) (month : Z) (day : Z) : bool :=\n  {body}.\n"
    return out


GEN_FILES = {"BatchingGen.v": gen_batching}

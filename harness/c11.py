"""C11 — Streamable HTTP: exactly one terminal message per request, whatever the server."""
from __future__ import annotations

import json

import lib
from lib import sx, sxo, call
import c11_real as R

META = {
    "level": "Proof: for the model of StreamableHTTPTransport (one POST = status/content-type dispatch, SSE text parser, routing, "
             "completion check, session id; sender loop = fold over (request, answer) pairs): the SSE parser recovers, in order, exactly "
             "the messages of EVERY body produced by a spec-conformant encoder (all message lists x all per-event choices: event field "
             "absent/before/after the data, space after the colon or not, LF/CRLF, comment / id: / retry: lines before and after, extra "
             "blank lines); for EVERY answer (all integer statuses, all content-type strings, all bodies, all exceptions) a request "
             "ends with the server's own response or exactly one synthesised terminal message carrying its id, a notification with "
             "nothing synthesised carrying an id; JSON and SSE bodies lose and invent nothing; the n-th request of every answer list is "
             "processed; the session header sent is always the most recent one issued.  The model is tied to the real http_client() "
             "(httpx.MockTransport) by a differential run over the property's matrix.",
    "note": "The theorems are about the transport WITH fixes/C11-1..7 applied (HEAD before those commits fails the classes listed in "
            "notes/C11.md; the pre-fix parser and its refutations are in History/C11_prefix.v).  Trusted: Coq kernel, extraction "
            "(ExtrOcamlBasic), the harness, the hand-written model tied by correspondence.  Section variables (external code): the JSON "
            "codec, pydantic's JSONRPCMessage validation.  Modelled, not verified: httpx (redirects, text decoding), anyio streams.",
    "technique": "Coq proof (induction over encoder output / answer lists, case analysis over Z status ranges and body classes); "
                 "differential correspondence against the real http_client over httpx.MockTransport on a virtual-clock loop",
    "design_ref": "DESIGN.md section 6 (C11)",
}
GEN: list = []
TARGETS = ["Base/HttpBase", "Model/HttpSse", "Model/HttpDispatch", "Spec/C11", "Proofs/HttpSse", "Proofs/HttpDispatch",
           "Proofs/C11Spec", "History/C11_prefix", "Props/C11"]

TRUSTED = [
    "Coq 8.16.1 kernel (coqc); coqchk re-check in the thorough tier",
    "axioms: none (every C11 theorem prints 'Closed under the global context')",
    "hand-written model Model/HttpSse.v + Model/HttpDispatch.v of transport.py (as patched by fixes/C11-1..7), tied to the real "
    "http_client() by the correspondence run below (every case: same messages per POST, same session headers)",
    "Section variables = external code: json.loads (oracle: CPython's stdlib json in the harness), JSONRPCMessage.model_validate "
    "(oracle: the library's own validator on the decoded object); the theorems hold for EVERY such function",
    "extraction: ExtrOcamlBasic only; ocaml/main.ml text<->sexp",
    "modelled, not verified: httpx (MockTransport seam, follow_redirects, response.text decoding with errors=replace), anyio memory "
    "streams, CPython str methods split/rstrip/strip/partition/startswith (modelled by structural recursion, tied by correspondence)",
]
ASSUME = [
    "client ids are JSON integers or strings (the types JSON-RPC allows); an SSE message is a single-line JSON object text",
    "a session id is 'issued' by an Mcp-Session-Id header on a response with status < 400, and issued ids are non-empty",
    "no-loss is demanded when a body is served under its own label: JSON framing under any content-type that does not say "
    "text/event-stream, SSE framing under text/event-stream; otherwise only exactly-one-terminal and nothing-invented are demanded",
    "line ends of SSE bodies are LF or CRLF (the property's list); a lone CR as line terminator and a leading BOM are outside it",
    "the read stream is being consumed (capacity 100 is never reached by one answer of the matrix)",
]

# --------------------------------------------------------------------------- #
# The matrix
# --------------------------------------------------------------------------- #
REQ_KINDS = ["req-int", "req-str", "req-zero", "notif"]
STATUSES_OK = [200, 202, 204, 302, 399]
STATUSES_ERR = [400, 404, 500]
CTYPES = {"json": "application/json", "json-charset": "application/json; charset=utf-8", "sse": "text/event-stream",
          "other": "text/plain", "absent": None}
EXCS = ["connect", "read-timeout", "protocol", "asyncio-timeout"]

CONTENTS = {
    "response": ["resp"],
    "error-response": ["err"],
    "unicode-response": ["uresp"],
    "notifs+response": ["notif", "srvreq", "resp"],
    "response+notif": ["resp", "notif"],
    "only-notif": ["notif"],
    "wrong-id": ["wrong"],
    "wrong-id-type": ["wrongtype"],
    "nonmsg": ["junk"],
    # the SERVER's own request happens to carry the id of the client's pending request (ids are per direction): not an answer
    "server-request-same-id": ["srvreq-same"],
    "server-request-same-id+notif": ["srvreq-same", "notif"],
    "server-request-same-id+response": ["srvreq-same", "resp"],
    "non-message+response": ["junk", "resp"],
    # objects that bear the request's id and are NOT a response the client can deliver: `"result": null`, `"error": null`, no
    # result member at all - each leaves the request unanswered by the server, so the transport still owes its one terminal message
    "response-with-a-lone-surrogate-escape": ["sresp"],
    "notif-with-a-lone-surrogate-escape+response": ["snotif", "resp"],
    "null-result-with-the-id": ["nullres"],
    "null-error-with-the-id": ["nullerr"],
    "id-and-nothing-else": ["idonly"],
    "null-result-with-the-id+response": ["nullres", "resp"],
    "notif+null-result-with-the-id": ["notif", "nullres"],
}

# name -> (before, after, evpos, space, crlf, blanks); extras: (kind, text) kind 0 comment 1 id 2 retry
ENCS = {
    "canonical": ([], [], 1, True, False, 0),
    "nospace": ([], [], 1, False, False, 0),
    "noevent": ([], [], 0, True, False, 0),
    "crlf": ([], [], 1, True, True, 0),
    "comments": ([(0, " keep-alive"), (0, "")], [(0, "x")], 1, True, False, 0),
    "id-retry": ([(1, "41"), (2, "3000")], [(1, "42")], 1, True, False, 0),
    "event-after-data": ([], [], 2, True, False, 0),
    "blanks": ([], [], 1, True, False, 2),
    "nospace-noevent-crlf": ([], [], 0, False, True, 0),
    "tricky-comments": ([(0, 'data: {"jsonrpc":"2.0","id":1,"result":{}}'), (0, "event: message")], [(0, ":")], 0, True, False, 0),
    "kitchen-sink": ([(0, "c"), (1, "7"), (2, "10")], [(0, "")], 2, False, True, 1),
}
ENCS_SHORT = ["canonical", "nospace-noevent-crlf", "kitchen-sink"]
RAW = {"empty": b"", "non-json": b"accepted!", "html": b"<html><body>502</body></html>", "garbage-bytes": b"\xff\xfe\x00garbage"}
SCALARS = {"json-scalar": b"5", "json-null": b"null", "json-string": b'"ok"', "json-empty-array": b"[]"}


def make_request(kind, step):
    if kind == "resp-post":
        return {"jsonrpc": "2.0", "id": 500 + step, "result": {"_step": step}}
    d = {"jsonrpc": "2.0", "method": "tools/list", "params": {"_step": step}}
    if kind == "req-int":
        d["id"] = 100 + step
    elif kind == "req-str":
        d["id"] = f"r{step}"
    elif kind == "req-zero":
        d["id"] = 0
    elif kind != "notif":
        raise ValueError(kind)
    return d


def srv_msg(kind, tag, rid):
    base_id = rid if rid is not None else 900 + tag          # a notification POST answered with somebody's response
    if kind == "resp":
        return {"jsonrpc": "2.0", "id": base_id, "result": {"k": tag}}
    if kind == "uresp":
        return {"jsonrpc": "2.0", "id": base_id, "result": {"k": tag, "s": "é \u0085 x"}}
    if kind == "err":
        return {"jsonrpc": "2.0", "id": base_id, "error": {"code": -32001, "message": "srv", "data": {"k": tag}}}
    if kind == "wrong":
        return {"jsonrpc": "2.0", "id": (base_id + 1000) if isinstance(base_id, int) else base_id + "x", "result": {"k": tag}}
    if kind == "wrongtype":
        return {"jsonrpc": "2.0", "id": str(base_id) if isinstance(base_id, int) else 4242, "result": {"k": tag}}
    if kind == "notif":
        return {"jsonrpc": "2.0", "method": "notifications/progress", "params": {"k": tag}}
    if kind == "srvreq":
        return {"jsonrpc": "2.0", "id": f"s{tag}", "method": "sampling/createMessage", "params": {"k": tag}}
    if kind == "srvreq-same":
        return {"jsonrpc": "2.0", "id": base_id, "method": "sampling/createMessage", "params": {"k": tag}}
    if kind == "sresp":
        return {"jsonrpc": "2.0", "id": base_id, "result": {"k": tag, "s": "the weather is sunny \ud83d"}}
    if kind == "snotif":
        return {"jsonrpc": "2.0", "method": "notifications/progress", "params": {"k": tag, "message": "\udc00 tail of a cut emoji"}}
    if kind == "nullres":
        return {"jsonrpc": "2.0", "id": base_id, "result": None}
    if kind == "nullerr":
        return {"jsonrpc": "2.0", "id": base_id, "error": None}
    if kind == "idonly":
        return {"jsonrpc": "2.0", "id": base_id}
    if kind == "junk":
        return {"foo": 1, "k": tag}
    raise ValueError(kind)


def is_jsonrpc_kind(kind):
    # an object with an id and a null / missing result is no more a JSON-RPC message than {"foo": 1}
    return kind not in ("junk", "nullres", "nullerr", "idonly")


def dumps(o):
    t = json.dumps(o, separators=(",", ":"), ensure_ascii=False)
    try:
        t.encode("utf-8")
    except UnicodeEncodeError:
        # a string holding an unpaired UTF-16 surrogate (a JavaScript server that cut a text inside an emoji and then
        # JSON.stringify-ed it): on the wire it can only be written as the escape \udXXX, which is legal JSON
        t = json.dumps(o, separators=(",", ":"), ensure_ascii=True)
    return t


def marker(d):
    """The tag a server message carries, wherever the generator put it."""
    if not isinstance(d, dict):
        return None
    if isinstance(d.get("k"), int):
        return d["k"]
    for key in ("result", "params"):
        v = d.get(key)
        if isinstance(v, dict) and isinstance(v.get("k"), int):
            return v["k"]
    e = d.get("error")
    if isinstance(e, dict) and isinstance(e.get("data"), dict) and isinstance(e["data"].get("k"), int):
        return e["data"]["k"]
    return None


def all_bodies(thorough):
    """Abstract body descriptions: {"framing", "content", "enc", "damage"}."""
    out = []
    for c in CONTENTS:
        out.append({"framing": "json", "content": c})
    out.append({"framing": "json-array", "content": "response"})           # a batch of one
    for name in SCALARS:
        out.append({"framing": name})
    for name in RAW:
        out.append({"framing": name})
    for c in CONTENTS:
        encs = list(ENCS) if (thorough or c in ("response", "notifs+response")) else ENCS_SHORT
        for e in encs:
            out.append({"framing": "sse", "content": c, "enc": e})
    out.append({"framing": "sse", "content": "notifs+response", "enc": "mixed"})
    # events WITHOUT data ahead of every message (typed keep-alives, comment-only blocks, a data-less "event: message"), written
    # by the specification's own encoder (sse_encode_noisy; C11_dataless_events_change_nothing): nothing to dispatch, and the
    # event type they set must not stick to the events that follow
    for c in ("response", "notifs+response"):
        for e in (list(ENCS) if thorough else ENCS_SHORT):
            out.append({"framing": "sse", "content": c, "enc": e, "noise": "dataless-events-first"})
    out.append({"framing": "sse-array-event", "content": "notifs+response"})
    out.append({"framing": "sse-array-event", "content": "response"})
    for fr, c, e in (("json", "response", None), ("json", "notifs+response", None), ("sse", "response", "canonical"),
                     ("sse", "notifs+response", "canonical"), ("sse", "notifs+response", "kitchen-sink")):
        out.append({"framing": fr, "content": c, "enc": e, "damage": "truncated"})
    for fr, c, e in (("json", "unicode-response", None), ("sse", "unicode-response", "canonical")):
        out.append({"framing": fr, "content": c, "enc": e, "damage": "non-utf8"})
    return out


ERR_BODIES = [{"framing": "json", "content": "response"}, {"framing": "sse", "content": "response", "enc": "canonical"},
              {"framing": "empty"}, {"framing": "html"}, {"framing": "garbage-bytes"}, {"framing": "json", "content": "notifs+response"}]


def all_answers(thorough):
    out = []
    for b in all_bodies(thorough):
        for st in STATUSES_OK:
            for ct in CTYPES:
                out.append({"kind": "resp", "status": st, "ctype": ct, "body": b})
    for b in ERR_BODIES:
        for st in STATUSES_ERR:
            for ct in CTYPES:
                out.append({"kind": "resp", "status": st, "ctype": ct, "body": b})
    for e in EXCS:
        out.append({"kind": "exc", "exc": e})
    return out


def body_class(ans):
    if ans["kind"] == "exc":
        return "exception:" + ans["exc"]
    b = ans["body"]
    s = b["framing"]
    if b.get("enc"):
        s += "[" + b["enc"] + "]"
    if b.get("content"):
        s += ":" + b["content"]
    if b.get("noise"):
        s += ":" + b["noise"]
    if b.get("damage"):
        s += ":" + b["damage"]
    return s


# --------------------------------------------------------------------------- #
# Materialising a scenario (abstract description -> bytes on the wire + the server's intent)
# --------------------------------------------------------------------------- #
def rid_of(req):
    return req.get("id") if "method" in req else None


def plan_step(step_no, st):
    """Adds to the step: the request dict, the server messages (intent) and, for SSE framings, the encoder input."""
    req = make_request(st["req"], step_no)
    st["_req"] = req
    ans = st["ans"]
    rid = req.get("id")
    st["_rid"] = rid if "method" in req else None
    st["_msgs"] = []
    st["_encode"] = None
    if ans["kind"] != "resp":
        return
    b = ans["body"]
    kinds = CONTENTS.get(b.get("content"), [])
    msgs = [(step_no * 10 + i, k, srv_msg(k, step_no * 10 + i, rid)) for i, k in enumerate(kinds)]
    st["_msgs"] = msgs
    if b["framing"] == "sse":
        names = list(ENCS)
        evs = []
        for i, (_t, _k, m) in enumerate(msgs):
            e = ENCS[names[(i * 3 + 1) % len(names)] if b["enc"] == "mixed" else b["enc"]]
            evs.append((e, dumps(m)))
        st["_encode"] = evs
    elif b["framing"] == "sse-array-event":
        st["_encode"] = [(ENCS["canonical"], dumps([m for _t, _k, m in msgs]))]


def sx_events(evs):
    def ch(e):
        before, after, pos, space, crlf, blanks = e
        return sx([[[k, t] for k, t in before], [[k, t] for k, t in after], pos, space, crlf, blanks])
    return "(" + " ".join("(" + ch(e) + " " + sx(m) + ")" for e, m in evs) + ")"


NOISES = [[0, "ping"], [1, " keep-alive"], [0, "message"], [0, "x y"], [1, ""]]


def sx_noisy_events(evs):
    """the same events, each preceded by data-less events (a typed keep-alive, a comment-only block, a data-less "event: message")"""
    def ch(e):
        before, after, pos, space, crlf, blanks = e
        return sx([[[k, t] for k, t in before], [[k, t] for k, t in after], pos, space, crlf, blanks])
    out = []
    for i, (e, m) in enumerate(evs):
        ns = [NOISES[(i + j) % len(NOISES)] for j in range(1 + i % 3)]
        out.append("(" + sx([[k, t] for k, t in ns]) + " " + ch(e) + " " + sx(m) + ")")
    return "(" + " ".join(out) + ")"


def finish_step(st, encoded):
    """Computes the bytes of the body."""
    ans = st["ans"]
    if ans["kind"] != "resp":
        return
    b = ans["body"]
    fr = b["framing"]
    msgs = [m for _t, _k, m in st["_msgs"]]
    if fr == "json":
        raw = dumps(msgs[0] if len(msgs) == 1 else msgs).encode()
    elif fr == "json-array":
        raw = dumps(msgs).encode()
    elif fr in SCALARS:
        raw = SCALARS[fr]
    elif fr in RAW:
        raw = RAW[fr]
    elif fr in ("sse", "sse-array-event"):
        raw = encoded.encode()
    else:
        raise lib.HarnessError(f"unknown framing {fr}")
    dmg = b.get("damage")
    if dmg == "truncated":
        raw = raw[: max(1, (len(raw) * 7) // 10)]
        while raw and (raw[-1] & 0xC0) == 0x80:      # do not cut inside a UTF-8 sequence: that is the non-utf8 class
            raw = raw[:-1]
        if raw and raw[-1] >= 0xC0:
            raw = raw[:-1]
    elif dmg == "non-utf8":
        raw = raw.replace("é".encode(), b"\xe9")            # latin-1 byte inside a JSON string
    elif dmg:
        raise lib.HarnessError(f"unknown damage {dmg}")
    st["_raw"] = raw
    try:
        raw.decode("utf-8")
        st["_utf8"] = True
    except UnicodeDecodeError:
        st["_utf8"] = False
    st["_text"] = raw.decode("utf-8", errors="replace")


def materialise(scenarios, drv):
    for sc in scenarios:
        for i, st in enumerate(sc["steps"]):
            plan_step(i, st)
    todo = [st for sc in scenarios for st in sc["steps"] if st["_encode"] is not None]
    noisy = lambda st: st["ans"]["body"].get("noise") == "dataless-events-first"      # noqa: E731
    enc = drv.run([call(17, sx_noisy_events(st["_encode"])) if noisy(st) else call(13, sx_events(st["_encode"])) for st in todo])
    adm = drv.run([call(18, sx_noisy_events(st["_encode"])) if noisy(st) else call(14, sx_events(st["_encode"]))
                   for st in todo if st["ans"]["body"]["framing"] == "sse"])
    if not all(adm):
        raise lib.HarnessError("generator produced an SSE event outside the encoder's admissible domain")
    texts = {id(st): lib.as_str(t) for st, t in zip(todo, enc)}
    for sc in scenarios:
        for st in sc["steps"]:
            finish_step(st, texts.get(id(st)))


def real_steps(sc):
    out = []
    for st in sc["steps"]:
        a = st["ans"]
        if a["kind"] == "exc":
            ans = {"kind": "exc", "exc": a["exc"]}
        else:
            ans = {"kind": "resp", "status": a["status"], "ctype": CTYPES[a["ctype"]], "body": st["_raw"],
                   "session": a.get("session"), "redirect": bool(a.get("redirect")),
                   "te": a.get("te", "length"), "split": a.get("split", 0), "pace": a.get("pace", 0.0)}
        out.append({"req": st["_req"], "ans": ans})
    return out


# --------------------------------------------------------------------------- #
# Oracles for the model's Section variables
# --------------------------------------------------------------------------- #
_valid_cache: dict = {}


def lib_valid(d):
    """JSONRPCMessage.model_validate accepts the object (the library's own validator as the oracle for obj_valid)."""
    key = dumps(d)
    if key not in _valid_cache:
        from chuk_mcp.protocol.messages.json_rpc_message import JSONRPCMessage
        try:
            JSONRPCMessage.model_validate(d)
            _valid_cache[key] = True
        except Exception:
            _valid_cache[key] = False
    return _valid_cache[key]


def sx_jid(v):
    if isinstance(v, bool) or v is None:
        return "()"
    if isinstance(v, int):
        return f"((0 {v}))"
    if isinstance(v, str):
        return "((1 " + sx(v) + "))"
    return "()"


def sx_jv(v):
    if isinstance(v, dict):
        t = marker(v)
        return "(1 {} {} {} {} {})".format(
            t if t is not None else -1, sx(lib_valid(v)), sx_jid(v.get("id")), sx(v.get("method") is not None),
            sx(v.get("result") is not None or v.get("error") is not None))
    if isinstance(v, list):
        return "(2 " + " ".join(sx_jv(x) for x in v) + ")"
    return "(0)"


_loads_cache: dict = {}


def table_entry(text):
    if text not in _loads_cache:
        try:
            v = json.loads(text)
            _loads_cache[text] = "(" + sx(text) + " (" + sx_jv(v) + "))"
        except Exception:
            _loads_cache[text] = "(" + sx(text) + " ())"
    return _loads_cache[text]


def model_run(scenarios, drv):
    texts = sorted({st["_text"] for sc in scenarios for st in sc["steps"] if st["ans"]["kind"] == "resp"})
    pay = drv.run([call(1, sx(t)) for t in texts])
    payloads = {t: [lib.as_str(p) for p in ps] for t, ps in zip(texts, pay)}
    reqs = []
    for sc in scenarios:
        steps, tbl = [], {}
        for st in sc["steps"]:
            a = st["ans"]
            req = st["_req"]
            if a["kind"] == "exc":
                ans = f"(1 {EXCS.index('protocol' if a['exc'] == 'aborted' else a['exc'])})"
            else:
                ans = "(0 {} {} {} {} {})".format(a["status"], sx(CTYPES[a["ctype"]] or ""), sx(st["_text"]), sx(st["_utf8"]),
                                                  sxo(a.get("session")))
                for t in [st["_text"], *payloads[st["_text"]]]:
                    tbl[t] = table_entry(t)
            steps.append("(" + sx_jid(req.get("id")) + " " + sx("method" in req) + " " + ans + ")")
        reqs.append(call(2, sxo(sc.get("init")), "(" + " ".join(steps) + ")", "(" + " ".join(tbl.values()) + ")"))
    res = drv.run(reqs)
    out = []
    for r in res:
        final, trace = r
        out.append({"final": lib.as_str(final[0]) if final else None,
                    "steps": [{"sent": lib.as_str(s[0]) if s else None, "out": [canon_model(m) for m in o]} for s, o in trace]})
    return out


def canon_id(j):
    if not j:
        return None
    t, v = j[0]
    return v if t == 0 else lib.as_str(v)


def canon_model(m):
    if m[0] == 0:
        return ["S", m[1]]
    return ["Y", canon_id(m[1]), "result" if m[2] == 0 else "error"]


def canon_impl(d):
    """A delivered message as the property sees it: a server message (by tag) or a synthesised one."""
    t = marker(d)
    if t is not None:
        return ["S", t]
    kind = "result" if "result" in d else ("error" if "error" in d else "none")
    if "method" in d:
        kind = "method"
    return ["Y", d.get("id"), kind]


# --------------------------------------------------------------------------- #
# Judging one scenario
# --------------------------------------------------------------------------- #
def case_of(sc):
    return {"init": sc.get("init"), "steps": [{"req": st["req"], "ans": st["ans"]} for st in sc["steps"]]}


def intent_of(st):
    """(tags of the JSON-RPC messages the body contains, no_loss demanded, tags answering the request)."""
    a = st["ans"]
    if a["kind"] == "exc" or a["status"] >= 400:
        return [], True, set()
    b = a["body"]
    msgs = [(t, k, m) for t, k, m in st["_msgs"] if is_jsonrpc_kind(k)]
    intent = [t for t, _k, _m in msgs]
    rid = st["_rid"]
    answering = {t for t, k, m in msgs if k in ("resp", "uresp", "sresp", "err") and rid is not None
                 and type(m["id"]) is type(rid) and m["id"] == rid}
    ct = a["ctype"]
    if b.get("damage"):
        return intent, False, answering
    if b["framing"] in ("json", "json-array"):
        return intent, ct != "sse", answering
    if b["framing"] in ("sse", "sse-array-event"):
        return intent, ct == "sse", answering
    return [], True, answering          # raw / scalar bodies contain no message


def causes(st):
    """Features of the answer (and request) that single out a body class: the failing-input class is named after them."""
    a = st["ans"]
    if a["kind"] == "exc":
        return ["exc-" + a["exc"]]
    out = []
    b = a["body"]
    fr, ct = b["framing"], a["ctype"]
    kinds = CONTENTS.get(b.get("content"), [])
    if a["status"] >= 400:
        return [f"status-{a['status'] // 100}xx"]
    if fr == "sse":
        names = list(ENCS)
        encs = [ENCS[names[(i * 3 + 1) % len(names)]] for i in range(len(kinds))] if b["enc"] == "mixed" else [ENCS[b["enc"]]]
        if any(not e[3] for e in encs):
            out.append("nospace")
        if any(e[2] == 0 for e in encs):
            out.append("noevent")
        if any(e[4] for e in encs):
            out.append("crlf")
    if fr == "sse-array-event":
        out.append("arrayev")
    if fr == "json-array" or (fr == "json" and len(kinds) != 1):
        out.append("batch")
    if fr in SCALARS:
        out.append(fr)
    if fr in RAW:
        out.append(fr)
    if "junk" in kinds:
        out.append("nonmsg")
    if "wrong" in kinds or "wrongtype" in kinds:
        out.append("wrongid")
    if kinds and not any(k in ("resp", "uresp", "sresp", "err", "wrong", "wrongtype") for k in kinds):
        out.append("noresp")
    if b.get("damage"):
        out.append({"truncated": "trunc", "non-utf8": "nonutf8"}[b["damage"]])
    sse_framed = fr in ("sse", "sse-array-event")
    sniffable = sse_framed and st.get("_text", "").startswith(("event:", "data:"))
    if ct == "sse" and not sse_framed:
        out.append("as-sse")
    if ct in ("json", "json-charset") and (sse_framed or fr in ("non-json", "html")):
        out.append("as-json")
    if ct in ("other", "absent") and sse_framed and not sniffable:
        out.append("unsniffed")
    if a["status"] == 202 and ct in ("other", "absent") and (fr in ("non-json", "html", "garbage-bytes") or b.get("damage") == "truncated"
                                                           or (sse_framed and not sniffable)):
        out.append("202")
    if st["req"] == "req-zero" and fr == "empty" and ct in ("other", "absent"):
        out.append("id0")
    return out or ["plain"]


def judge(ctx, sc, obs, drv_calls):
    """Queues spec-checker calls; returns (number of results, closure interpreting them)."""
    case = case_of(sc)
    post = []
    if not obs["alive"]:
        ctx.spec_total += 1
        ctx.spec_violation("loop-died:" + "|".join("+".join(causes(st)) for st in sc["steps"]), case,
                           "the sentinel POST never reached the server: the sender loop stopped")
    if obs["stray"]:
        ctx.spec_violation("stray-message", case, f"messages outside any POST: {obs['stray'][:3]}")
    hist = []
    for i, (st, o) in enumerate(zip(sc["steps"], obs["steps"])):
        rk = st["req"]
        a = st["ans"]
        if not o["posted"]:
            ctx.spec_total += 1
            ctx.spec_violation("request-not-processed:after:" + "|".join("+".join(causes(x)) for x in sc["steps"][:i]), case,
                               f"step {i} was never POSTed")
            continue
        delivered = [canon_impl(d) for d in o["delivered"]]
        intent, no_loss, answering = intent_of(st)
        rid = st["_rid"]
        if rk != "resp-post":           # a POSTed response: correspondence only, the property speaks of requests and notifications
            observed = "(" + " ".join(
                f"(0 {m[1]} {sx(m[1] in answering)})" if m[0] == "S"
                else f"(1 {sx_jid(m[1])} {sx(m[2] in ('result', 'error'))})" for m in delivered) + ")"
            srv = [m[1] for m in delivered if m[0] == "S"]
            drv_calls.append(call(10, sx_jid(rid), observed))
            drv_calls.append(call(11, sx(no_loss), sx(intent), sx(srv)))

            def chk(res, i=i, st=st, rk=rk, delivered=delivered, intent=intent, srv=srv, rid=rid, a=a):
                term_ok, deliv_ok = res
                ctx.spec_total += 2
                where = f"step {i} ({body_class(a)}" + (f" status {a['status']} content-type {a['ctype']}" if a["kind"] == "resp" else "") \
                        + f", request {rk})"
                cs = causes(st)
                cz = "+".join(cs)
                if not deliv_ok:
                    invented = [t for t in srv if t not in intent]
                    what = "invented" if invented else ("lost" if len(srv) < len(intent) else "reordered")
                    # which messages a body yields does not depend on what the messages are about: name the class after
                    # the framing features only (for an invented message: after the non-message content)
                    content_causes = ("nonmsg", "wrongid", "noresp", "id0", "202")
                    dz = "nonmsg" if (invented and "nonmsg" in cs) else ("+".join(c for c in cs if c not in content_causes) or "plain")
                    ctx.spec_violation(f"{what}:{dz}", case, f"{where}: body contains messages {intent}, delivered {delivered}")
                if not term_ok:
                    syn = [m for m in delivered if m[0] == "Y"]
                    if rid is None:
                        what = "notif-synth-id"
                    elif not syn:
                        what = "no-terminal"
                    else:
                        what = "bad-synth"
                    ctx.spec_violation(f"{what}:{cz}", case, f"{where}: delivered {delivered}")
            post.append((2, chk))
        # session header carried by this POST
        drv_calls.append(call(12, sxo(sc.get("init")), "(" + " ".join(sxo(h) for h in hist) + ")", sxo(o["sent_session"])))

        def chk_s(res, i=i, o=o, hist=list(hist)):
            ctx.spec_total += 1
            if not res[0]:
                ctx.spec_violation("stale-or-missing-session-header", case,
                                   f"step {i} carried {o['sent_session']!r} after issued history {hist} (init {sc.get('init')!r})")
        post.append((1, chk_s))
        hist.append(issued(a))
    if obs["alive"]:
        drv_calls.append(call(12, sxo(sc.get("init")), "(" + " ".join(sxo(h) for h in hist) + ")", sxo(obs["sentinel_session"])))

        def chk_f(res, hist=list(hist)):
            ctx.spec_total += 1
            if not res[0]:
                ctx.spec_violation("stale-or-missing-session-header", case,
                                   f"the POST after the sequence carried {obs['sentinel_session']!r} after {hist}")
        post.append((1, chk_f))
    return post


def issued(a):
    """What the server issued with this answer (pinned in Spec/C11.v as [issues]; recomputed there for the check)."""
    if a["kind"] == "resp" and a["status"] < 400:
        return a.get("session")
    return None


# --------------------------------------------------------------------------- #
def run_cases(ctx, scenarios, drv, sockets=False):
    if not scenarios:
        return
    materialise(scenarios, drv)
    if sockets:
        impl = R.run_socket_scenarios([(real_steps(sc), sc.get("init"),
                                        0.3 if any(st["ans"].get("exc") == "read-timeout" for st in sc["steps"]) else
                                        0.4 if any(st["ans"].get("pace") for st in sc["steps"]) else 5.0)
                                       for sc in scenarios])
    else:
        impl = R.run_scenarios([(real_steps(sc), sc.get("init")) for sc in scenarios])
    model = model_run(scenarios, drv)
    calls, interp = [], []
    for sc, ob, mo in zip(scenarios, impl, model):
        case = case_of(sc)
        nontrivial = any(st["ans"]["kind"] == "exc" or st["ans"]["body"]["framing"] != "empty" or st["ans"]["status"] != 200
                         for st in sc["steps"])
        ctx.case(case, nontrivial=nontrivial)
        ctx.count(f"len:{len(sc['steps'])}")
        ctx.count("transport:" + ("loopback-socket" if sockets else "MockTransport"))
        if sockets:
            # a silent server: the transport gives up after ITS timeout (0.3 s here), not when the server finally hangs up (12x later)
            for st, o in zip(sc["steps"], ob["steps"]):
                if st["ans"].get("exc") == "read-timeout" and o.get("posted"):
                    ctx.spec_total += 1
                    busy = o.get("busy_s")
                    if busy is None or busy > ob["timeout"] * 2 + 1.2:
                        ctx.spec_violation("silent-server-not-given-up-on-within-the-timeout", case,
                                           f"configured timeout {ob['timeout']} s; the transport moved on after {busy} s")
        for st in sc["steps"]:
            a = st["ans"]
            ctx.count("req:" + st["req"])
            if a["kind"] == "exc":
                ctx.count("answer:exception:" + a["exc"])
            else:
                ctx.count(f"status:{a['status']}")
                ctx.count("ctype:" + a["ctype"])
                ctx.count("framing:" + a["body"]["framing"] + (":" + a["body"]["damage"] if a["body"].get("damage") else ""))
                if a["body"].get("enc"):
                    ctx.count("enc:" + a["body"]["enc"])
                ctx.count("session:" + ("issued" if a.get("session") else "absent"))
                if a.get("redirect"):
                    ctx.count("redirect:307")
                if sockets:
                    ctx.count(f"wire:{a.get('te', 'length')}/split{a.get('split', 0)}")
        # correspondence
        impl_obs = {"alive": ob["alive"], "final": ob["sentinel_session"] if ob["alive"] else None,
                    "steps": [{"sent": o["sent_session"], "out": [canon_impl(d) for d in o["delivered"]]} if o["posted"] else None
                              for o in ob["steps"]]}
        model_obs = {"alive": True, "final": sent_of(mo["final"]), "steps": mo["steps"]}
        if impl_obs != model_obs:
            ctx.mismatch(case, impl_obs, model_obs, "http_client over MockTransport: model != implementation "
                                                    "(messages per POST / session headers)")
        n0 = len(calls)
        for n, fn in judge(ctx, sc, ob, calls):
            interp.append((n0, n, fn))
            n0 += n
    res = drv.run(calls)
    for start, n, fn in interp:
        fn(res[start:start + n])


def sent_of(final):
    return final if final else None


def single_scenarios(ctx, thorough):
    answers = all_answers(thorough)
    out = []
    for i, a in enumerate(answers):
        kinds = REQ_KINDS + ["resp-post"] if thorough else [("req-int", "req-str", "req-zero")[i % 3], "notif"]
        if not thorough and i % 7 == 0:
            kinds = kinds + ["req-zero"]
        if not thorough and i % 31 == 0:
            kinds = kinds + ["resp-post"]
        for j, rk in enumerate(kinds):
            variants = [(None, None), (None, "sess-A"), ("init-1", None), ("init-1", "sess-B")] if thorough else \
                [((None, None), (None, "sess-A"), ("init-1", None), ("init-1", "sess-B"))[(i + j) % 4]]
            for init, sess in variants:
                aa = dict(a)
                if aa["kind"] == "resp":
                    aa["session"] = sess
                out.append({"init": init, "steps": [{"req": rk, "ans": aa}]})
    return out


def sequence_scenarios(ctx, n):
    rng = ctx.rng
    answers = all_answers(False)
    sess_n = 0
    out = []
    for _ in range(n):
        steps = []
        for _k in range(rng.choice((2, 3, 3, 4, 4))):
            a = dict(rng.choice(answers)) if rng.random() < 0.8 else {"kind": "exc", "exc": rng.choice(EXCS)}
            if rng.random() < 0.25:                # failures and a healthy answer interleaved
                a = {"kind": "resp", "status": 200, "ctype": "json", "body": {"framing": "json", "content": "response"}}
            if a["kind"] == "resp":
                r = rng.random()
                if r < 0.45:
                    sess_n += 1
                    a["session"] = f"sess-{sess_n}"
                elif r < 0.55:
                    a["session"] = "sess-same"
                if a["status"] < 400 and rng.random() < 0.08:
                    a["redirect"] = True
            rk = rng.choice(REQ_KINDS + ["req-int", "req-str", "resp-post"] if rng.random() < 0.1 else REQ_KINDS + ["req-int", "req-str"])
            steps.append({"req": rk, "ans": a})
        out.append({"init": rng.choice((None, None, "init-1")), "steps": steps})
    return out


def socket_scenarios(ctx, n):
    """The same matrix over a real loopback HTTP/1.1 server: plus body framing on the wire (Content-Length, chunked,
    close-delimited), split TCP writes, aborted transfers, a silent server."""
    rng = ctx.rng
    answers = [a for a in all_answers(False)
               if a["kind"] == "resp" and not (a["status"] == 204 and a["body"]["framing"] != "empty")]
    out = []
    sess_n = 0
    slow = 0
    for _ in range(n):
        steps = []
        for _k in range(rng.choice((1, 1, 2, 3, 4))):
            r = rng.random()
            if r < 0.12:
                kind = rng.choice(("protocol", "aborted", "read-timeout"))
                if kind == "read-timeout":
                    slow += 1
                    if slow > max(4, n // 60):
                        kind = "aborted"
                a = {"kind": "exc", "exc": kind}
            else:
                a = dict(rng.choice(answers))
                a["te"] = rng.choice(("length", "chunked", "close"))
                a["split"] = rng.choice((0, 0, 1, 3, 16, 64))
                if rng.random() < 0.4:
                    sess_n += 1
                    a["session"] = f"sock-{sess_n}"
            steps.append({"req": rng.choice(REQ_KINDS + ["req-int", "req-str"]), "ans": a})
        out.append({"init": rng.choice((None, None, "init-1")), "steps": steps})
    # an answer that TAKES LONGER than the configured timeout although no single pause comes near it (a long-running call
    # streaming progress, a big body on a slow link): the timeout limits silence, not the length of an answer
    for content, enc in (("notifs+response", "canonical"), ("notifs+response", "kitchen-sink"), ("response", "canonical")):
        for te in ("chunked", "close"):
            a = {"kind": "resp", "status": 200, "ctype": "sse", "body": {"framing": "sse", "content": content, "enc": enc},
                 "te": te, "pace": 0.1}
            out.append({"init": None, "steps": [{"req": "req-int", "ans": a}, {"req": "req-str", "ans": dict(a)}]})
    a = {"kind": "resp", "status": 200, "ctype": "json", "body": {"framing": "json", "content": "notifs+response"}, "te": "chunked", "pace": 0.1}
    out.append({"init": None, "steps": [{"req": "req-int", "ans": a}]})
    return out


def explore(ctx, drv):
    thorough = ctx.thorough          # an escalated quick run widens the seeded part (budget x4), not the encoding grid
    singles = single_scenarios(ctx, thorough)
    chunk = 3000
    for i in range(0, len(singles), chunk):
        run_cases(ctx, singles[i:i + chunk], drv)
    seqs = sequence_scenarios(ctx, ctx.budget(600, 12000))
    for i in range(0, len(seqs), chunk):
        run_cases(ctx, seqs[i:i + chunk], drv)
    socks = socket_scenarios(ctx, ctx.budget(70, 1500))   # ~40 ms per POST: httpx builds an SSL context per client
    for i in range(0, len(socks), chunk):
        run_cases(ctx, socks[i:i + chunk], drv, sockets=True)
    refused_check(ctx)
    ctx.exhaustive = False          # single answers are enumerated exhaustively, sequences of length 2-4 are sampled
    ctx.extra["single_answers_exhaustive"] = True
    ctx.extra["socket_scenarios"] = len(socks)
    import inspect
    import chuk_mcp.transports.http.transport as T
    src = inspect.getsource(T)
    ctx.extra["tree_under_test"] = lib.REPO
    ctx.extra["fixes_present_in_tree"] = {
        "C11-1-sse-field-parsing": "_parse_sse_line" in src,
        "C11-2-sse-default-event-type": 'current_event or "message"' in src,
        "C11-3-array-body-members": "isinstance(response_data, list)" in src,
        "C11-4-request-id-zero": "if message_id is None:" in src,
        "C11-5-202-unparsable-body": "status_code == 202 and message_id is None" in src,
        "C11-6-unanswered-request": "_unanswered_id" in src,
        "C11-7-non-message-object": "Ignoring non JSON-RPC object" in src,
    }
    ctx.extra["single_answers_enumerated"] = len(all_answers(thorough))
    ctx.extra["single_scenarios"] = len(singles)
    ctx.extra["sequence_scenarios"] = len(seqs)


def refused_check(ctx):
    """A refused connection (nothing listens on the port): exactly one synthesised error for a request, no id for a notification."""
    import asyncio
    for rk in ("req-int", "req-zero", "notif"):
        req = make_request(rk, 0)
        got = [canon_impl(d) for d in asyncio.run(R.run_refused(req))]
        case = {"init": None, "steps": [{"req": rk, "ans": {"kind": "exc", "exc": "connect", "real": "refused-port"}}]}
        ctx.case(case)
        ctx.count("transport:refused-port")
        ctx.spec_total += 1
        want = [["Y", req.get("id"), "error"]]
        if got != want:
            ctx.spec_violation("bad-synth:refused-connection", case, f"refused connection: delivered {got}, demanded {want}")


def run(ctx):
    lib.standard_obligations(ctx, GEN, TARGETS)
    drv = lib.Driver("C11")
    if ctx.broken_obligations:
        ctx.escalated = True
    explore(ctx, drv)
    if ctx.corr_mismatch and not ctx.escalated and not ctx.spec_fail:
        ctx.escalated = True
        explore(ctx, drv)
    if ctx.thorough:
        lib.coqchk(ctx, "C11")
    ctx.rule = ("single answers: the whole matrix {status 200/202/204/302/399 | 400/404/500} x {content-type json / json;charset / "
                "event-stream / text/plain / absent} x {bodies: 10 message contents in JSON framing (object or batch array), batch of "
                "one, 4 JSON non-objects, 4 raw bodies (empty, text, html, non-UTF-8 bytes), SSE framing in 11 encodings produced by "
                "the SPEC's encoder (extracted from Coq) + mixed + array-carrying event, truncated and non-UTF-8 damage} + 4 transport "
                "exceptions, each answer under a request (int / string / 0 id) and a notification, rotating session-header and "
                "configured-session variants (thorough: full product incl. POSTed responses); seeded sequences of length 2-4 with "
                "issued / repeated / absent session ids, 307 redirects and interleaved healthy answers.  Observed: messages on the "
                "read stream per POST, the Mcp-Session-Id header of every POST, loop liveness.  distinct = distinct case dicts; "
                "non-trivial = anything but a lone empty 200")
    return lib.finish(ctx, TRUSTED, ASSUME)


def replay(ctx, data):
    drv = lib.Driver("C11")
    case = data["case"]
    sc = {"init": case.get("init"), "steps": [{"req": s["req"], "ans": s["ans"]} for s in case["steps"]]}
    run_cases(ctx, [sc], drv)
    for f in ctx.spec_fail:
        print(f"[C11] replay: {f['class']}: {f['detail'][:400]}")
    for m in ctx.corr_mismatch:
        print(f"[C11] replay disagreement: {json.dumps(m, default=str)[:600]}")
    still = bool(ctx.spec_fail or ctx.corr_mismatch)
    print(f"[C11] replay: {'still fails' if still else 'passes now'}")
    return 1 if still else 0

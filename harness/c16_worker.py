"""Worker for the C16 tie: runs scenarios against the REAL stdio client, one after the other, in its own
process (so that /proc/self/fd is this worker's alone).  Reads a JSON list of scenarios on stdin,
writes one JSON object per scenario on stdout.

Only the harness side is touched: `anyio.open_process` is wrapped to remember the Process objects
that were created, and `Process.terminate/kill` of the asyncio backend are wrapped to record which
signals the code under test sent.  Nothing in the package under test is patched.
"""
from __future__ import annotations

import asyncio
import contextlib
import gc
import json
import logging
import os
import signal
import sys
import tempfile
import time

logging.disable(logging.CRITICAL)

import anyio  # noqa: E402
import anyio._backends._asyncio as _aio  # noqa: E402

from chuk_mcp.transports.stdio.stdio_client import StdioClient, stdio_client  # noqa: E402
from chuk_mcp.transports.stdio.transport import StdioTransport  # noqa: E402
from chuk_mcp.transports.stdio.parameters import StdioParameters  # noqa: E402
from chuk_mcp.protocol.messages.send_message import send_message  # noqa: E402

HERE = os.path.dirname(os.path.abspath(__file__))
CHILD = os.path.join(HERE, "c16_child.py")
SETTLE = 0.3

PROCS = []          # Process objects created by the code under test (in order)
SIGNALS = []        # (pid, "TERM" | "KILL")

_orig_open = anyio.open_process
_orig_term = _aio.Process.terminate
_orig_kill = _aio.Process.kill
_orig_send = _aio.Process.send_signal


async def _rec_open(*a, **k):
    p = await _orig_open(*a, **k)
    PROCS.append(p)
    return p


def _rec_term(self):
    SIGNALS.append((self.pid, "TERM"))
    return _orig_term(self)


def _rec_kill(self):
    SIGNALS.append((self.pid, "KILL"))
    return _orig_kill(self)


def _rec_send(self, sig):
    SIGNALS.append((self.pid, {signal.SIGTERM: "TERM", signal.SIGKILL: "KILL"}.get(sig, str(int(sig)))))
    return _orig_send(self, sig)


anyio.open_process = _rec_open
_aio.Process.terminate = _rec_term
_aio.Process.kill = _rec_kill
_aio.Process.send_signal = _rec_send


class Boom(Exception):
    """The exception raised in the body on the `exception` path."""


class Problem(Exception):
    """A harness-level problem (never a verdict about the code under test)."""


def pstate(pid):
    """'gone' | 'zombie' | 'running'"""
    try:
        with open(f"/proc/{pid}/stat") as f:
            s = f.read()
    except (FileNotFoundError, ProcessLookupError):
        return "gone"
    st = s[s.rindex(")") + 2]
    return "zombie" if st in "ZX" else "running"


def nfd():
    return len(os.listdir("/proc/self/fd"))


def now():
    return time.monotonic()


def read_log(logpath):
    """Tokens of the answers the child wrote (its side file), then remove the file."""
    written = []
    try:
        with open(logpath) as f:
            for ln in f:
                if ln.startswith("W "):
                    written.append(int(ln[2:]))
    except (OSError, ValueError):
        pass
    try:
        os.unlink(logpath)
    except OSError:
        pass
    return written


HANG_LIMIT = 12.0     # seconds; the property's bound is two 1 s grace periods plus slack


async def request(read, write, method, tok, timeout):
    try:
        r = await send_message(read, write, method, {"tok": tok}, timeout=timeout)
        if isinstance(r, dict) and isinstance(r.get("tok"), int):
            return ["return", r["tok"]]
        return ["return", -1]
    except TimeoutError:
        return ["timeout"]
    except asyncio.CancelledError:
        raise
    except Exception as e:   # any error class is acceptable to the property; the class name goes to the histogram only
        return ["error", type(e).__name__]


async def run_scenario(sc):
    mode, path, moment, entry = sc["mode"], sc["path"], sc["moment"], sc["entry"]
    loop = asyncio.get_running_loop()
    fdlog, logpath = tempfile.mkstemp(prefix="c16-", suffix=".log")
    os.close(fdlog)
    params = StdioParameters(command=sys.executable,
                             args=["-S", "-E", CHILD, mode, logpath, str(sc.get("delay", 0.0))])
    info = {"ready": False, "first": None, "pending": None, "exit": None, "problem": None}
    ctl = {}
    n_procs0, n_sig0 = len(PROCS), len(SIGNALS)
    bg = {}

    seen = {}

    def pid():
        if len(PROCS) > n_procs0:
            seen["pid"] = PROCS[-1].pid
        if "pid" not in seen:
            # spawned, but the Process object never came back to the code under test (cancelled inside open_process): the
            # child is found by the log path on its command line, which is unique to this scenario
            for d in os.listdir("/proc"):
                if d.isdigit():
                    try:
                        with open(f"/proc/{d}/cmdline", "rb") as f:
                            if logpath.encode() in f.read():
                                seen["pid"] = int(d)
                                break
                    except OSError:
                        pass
        return seen.get("pid")

    async def body(read, write):
        if sc["wait_ready"]:
            with anyio.fail_after(10):
                while True:
                    m = await read.receive()
                    if getattr(m, "method", None) == "notifications/ready":
                        info["ready"] = True
                        break
        if moment == "after":
            info["first"] = await request(read, write, "ping", sc["tok"], sc["req_timeout"])
        elif moment == "inflight":
            async def _bg():
                info["pending"] = await request(read, write, sc["bg_method"], sc["tok"], sc["req_timeout"])
            bg["task"] = asyncio.ensure_future(_bg())
            await anyio.sleep(0.15)
        if sc.get("backlog"):
            # more outgoing data than the child's stdin pipe and the transport buffers hold: the writer task is blocked
            # in process.stdin.send() when the context is left
            pad = "x" * 16000
            for i in range(sc["backlog"]):
                for _ in range(200):
                    try:
                        write.send_nowait({"jsonrpc": "2.0", "method": "notifications/pad", "params": {"i": i, "pad": pad}})
                        break
                    except anyio.WouldBlock:
                        await anyio.sleep(0.005)
            await anyio.sleep(0.2)
        if sc["wait_death"]:
            t_end = now() + 5
            while pstate(pid()) == "running":
                if now() > t_end:
                    raise Problem("child expected to die on its own is still running")
                await anyio.sleep(0.01)
            await anyio.sleep(0.15)      # let the child watcher publish the return code
            if sc.get("polls"):
                # a long-lived client keeps trying on the dead connection (health check / retry loop): every one of these
                # requests ends - timeout or error - however many there are (more than any queue on the way holds)
                tally = {"timeout": 0, "error": 0, "hung": 0, "returns": []}
                for i in range(sc["polls"]):
                    try:
                        o = await asyncio.wait_for(request(read, write, "ping", sc["tok"] + 100000 + i, 0.05), 3.0)
                    except asyncio.TimeoutError:
                        tally["hung"] += 1
                        if tally["hung"] >= 3:
                            break
                        continue
                    if o[0] == "return":
                        tally["returns"].append(o)
                    else:
                        tally[o[0]] += 1
                info["polls"] = tally
        if sc.get("stall"):
            # the HOST's event loop does not run for a while during the exit (a blocking call in a sibling coroutine, a
            # suspended process): timers that fell due meanwhile all fire at the same wake-up
            asyncio.get_running_loop().call_later(sc["stall"][0] + (0.05 if path not in ("normal", "exception") else 0.0),
                                                  time.sleep, sc["stall"][1])
        if path == "normal":
            info["t0"] = now()
            return
        if path == "exception":
            info["t0"] = now()
            raise Boom("boom")
        if sc.get("burst"):
            # the cancellation arrives while messages the application has just sent are still in the outgoing queue
            for i in range(sc["burst"]):
                try:
                    write.send_nowait({"jsonrpc": "2.0", "method": "notifications/burst", "params": {"i": i}})
                except anyio.WouldBlock:
                    break
            info["t0"] = now()
            ctl["trigger"](0.0)
        else:
            info["t0"] = now() + 0.05
            ctl["trigger"](0.05)
        await anyio.sleep(30)
        raise Problem("the body was not cancelled")

    async def ctx():
        try:
            if entry == "stdio_client":
                async with stdio_client(params) as (r, w):
                    await body(r, w)
            elif entry == "StdioClient":
                c = StdioClient(params)
                if sc.get("reuse"):
                    # the same client OBJECT serves an earlier conversation first; the observations below are about the
                    # second one (and the first child must be gone by then)
                    async with c:
                        r0, w0 = c.get_streams()
                        with anyio.fail_after(10):
                            while True:
                                m0 = await r0.receive()
                                if getattr(m0, "method", None) == "notifications/ready":
                                    break
                    info["first_child_state"] = pstate(PROCS[-1].pid) if len(PROCS) > n_procs0 else "never-started"
                async with c as c2:
                    r, w = c2.get_streams()
                    await body(r, w)
            else:
                async with StdioTransport(params) as t:
                    r, w = await t.get_streams()
                    await body(r, w)
        finally:
            info["t1"] = now()

    def enter_trigger():
        # the cancellation / deadline is due WHILE the context is being entered (the child may or may not have been spawned yet)
        if sc.get("enter_deadline") is not None:
            info["t0"] = now() + sc["enter_deadline"]
            ctl["trigger"](sc["enter_deadline"])

    async def drive():
        # Runs in a task of its own: a cancel scope the code under test leaks (enters and never leaves) keeps
        # cancelling the task that entered it - that must not be the worker's main task.
        if path in ("normal", "exception"):
            await ctx()
            info["exit"] = "returned"
        elif path == "cancel_scope":
            with anyio.CancelScope() as scope:
                ctl["trigger"] = lambda dt: loop.call_later(dt, scope.cancel)
                enter_trigger()
                await ctx()
            info["exit"] = "cancelled" if scope.cancelled_caught else "returned"
        elif path == "timeout_scope":
            with anyio.move_on_after(3600) as scope:
                def _trig(dt, scope=scope):
                    scope.deadline = anyio.current_time() + dt
                ctl["trigger"] = _trig
                enter_trigger()
                await ctx()
            info["exit"] = "cancelled" if scope.cancelled_caught else "returned"
        elif path == "cancel_task":
            task = asyncio.ensure_future(ctx())
            ctl["trigger"] = lambda dt: loop.call_later(dt, task.cancel)
            enter_trigger()
            try:
                await task
                info["exit"] = "returned"
            except asyncio.CancelledError:
                if not task.cancelled():
                    raise
                info["exit"] = "cancelled"
        elif path == "timeout_task":
            try:
                async with asyncio.timeout(None) as tm:
                    ctl["trigger"] = lambda dt: tm.reschedule(loop.time() + dt)
                    enter_trigger()
                    await ctx()
                info["exit"] = "returned"
            except TimeoutError:
                info["exit"] = "cancelled"
        else:
            raise Problem("unknown path " + path)

    gc.collect()
    fd_before = nfd()
    try:
        try:
            driver = asyncio.ensure_future(drive())
            try:
                # watchdog: an exit that never returns is an observation (duration beyond every bound), not a reason to
                # hang the worker; the child is killed below, which also releases a writer stuck on its pipe
                done, _pending = await asyncio.wait({driver}, timeout=HANG_LIMIT)
                if not done:
                    info["exit"] = "hung"
                    info["hung"] = True
                    info.setdefault("t0", now() - HANG_LIMIT)
                    info["t1"] = now()
                    p_ = pid()
                    info["state_at_hang"] = pstate(p_) if p_ else "never-started"
                    if p_:
                        with contextlib.suppress(ProcessLookupError, PermissionError):
                            os.kill(p_, signal.SIGKILL)
                    driver.cancel()
                    await asyncio.wait({driver}, timeout=3)
                else:
                    driver.result()
            except asyncio.CancelledError:
                if not driver.cancelled():
                    raise
                info["exit"] = "driver-task-cancelled"
                if "t0" not in info:
                    info["problem"] = "scenario did not reach its exit point: driver task cancelled"
        except Boom:
            info["exit"] = "raised-body-exception"
        except Problem as e:
            info["problem"] = str(e)
        except BaseException as e:   # what the context raised instead (goes to the histogram; the spec does not constrain it)
            if isinstance(e, (KeyboardInterrupt, SystemExit)):
                raise
            info["exit"] = "raised:" + type(e).__name__
            if "t0" not in info:
                info["problem"] = f"scenario did not reach its exit point: {type(e).__name__}: {e}"
        p = pid()
        state0 = pstate(p) if p else "never-started"
        await asyncio.sleep(SETTLE)
        state1 = pstate(p) if p else "never-started"
        fd_after = nfd()
        rc = PROCS[-1].returncode if (p and len(PROCS) > n_procs0) else None
        spawned = len(PROCS) - n_procs0
        if "task" in bg:
            try:
                await asyncio.wait_for(bg["task"], sc["req_timeout"] + 3)
            except asyncio.TimeoutError:
                info["problem"] = info["problem"] or "the pending request never completed"
            except BaseException as e:
                info["pending"] = info["pending"] or ["error", type(e).__name__]
        # informational: does a leftover descriptor disappear once the client objects are garbage collected?
        del PROCS[n_procs0:]
        gc.collect()
        await asyncio.sleep(0.02)
        fd_after_gc = nfd()
    finally:
        # never leave anything behind ourselves
        p = pid()
        if p and pstate(p) != "gone":
            try:
                os.killpg(p, signal.SIGKILL)
            except (ProcessLookupError, PermissionError):
                try:
                    os.kill(p, signal.SIGKILL)
                except ProcessLookupError:
                    pass
            for _ in range(100):
                if pstate(p) == "gone":
                    break
                await asyncio.sleep(0.02)
        written = read_log(logpath)
    t0, t1 = info.pop("t0", None), info.pop("t1", None)
    info.update({
        "pid": p, "signals": [s for q, s in SIGNALS[n_sig0:] if q == p],
        "spawned": spawned,
        "returncode": rc, "dur": (t1 - t0) if (t0 is not None and t1 is not None) else None,
        "state0": state0, "state": state1, "fd_before": fd_before, "fd_after": fd_after, "fd_after_gc": fd_after_gc,
        "written": written,
    })
    gc.collect()
    return info


async def run_spawn(sc):
    """A command that cannot be started."""
    entry = sc["entry"]
    gc.collect()
    fd_before = nfd()
    n_procs0 = len(PROCS)
    info = {"entered": False, "raised": None, "problem": None}
    try:
        params = StdioParameters(command=sc["command"], args=sc.get("args", []))
    except Exception as e:
        info["raised"] = "params:" + type(e).__name__
        params = None
    if params is not None:
        try:
            if entry == "stdio_client":
                async with stdio_client(params):
                    info["entered"] = True
            elif entry == "StdioClient":
                async with StdioClient(params):
                    info["entered"] = True
            else:
                async with StdioTransport(params):
                    info["entered"] = True
        except Exception as e:
            info["raised"] = ("OSError" if isinstance(e, OSError) else type(e).__name__)
    await asyncio.sleep(0.05)
    info["spawned"] = len(PROCS) - n_procs0
    info["fd_before"], info["fd_after"] = fd_before, nfd()
    for p in PROCS[n_procs0:]:
        try:
            os.killpg(p.pid, signal.SIGKILL)
        except Exception:
            pass
    del PROCS[n_procs0:]
    return info


async def main():
    scenarios = json.loads(sys.stdin.read())
    out = sys.stdout
    # warm-up: first use of the subprocess machinery may allocate descriptors that stay (child watcher etc.)
    try:
        await run_scenario({"mode": "well", "path": "normal", "moment": "before", "entry": "StdioClient", "wait_ready": True,
                            "wait_death": False, "tok": 1, "req_timeout": 1.0, "bg_method": "hang"})
    except Exception:
        pass
    for sc in scenarios:
        t = now()
        try:
            if sc.get("kind") == "spawn":
                res = await run_spawn(sc)
            else:
                res = await run_scenario(sc)
        except Exception as e:
            res = {"problem": f"worker exception {type(e).__name__}: {e}"}
        res["idx"] = sc["idx"]
        res["wall"] = round(now() - t, 3)
        out.write(json.dumps(res) + "\n")
        out.flush()


if __name__ == "__main__":
    asyncio.run(main())

"""Scripted replacement for `httpx.AsyncClient` used by the C12 check (legacy SSE transport).

The replacement is a subclass of the ORIGINAL `httpx.AsyncClient` that injects a scripted
`httpx.AsyncBaseTransport`, so the real `client.stream()`, `Response.aiter_text()` (incremental
UTF-8 decoding), `client.post()`, `Response.json()` and `aclose()` all run.  The name `httpx` is
replaced in the namespace of `chuk_mcp.transports.sse.transport` only, per run (`installed(world)`);
`httpx.AsyncClient` itself is never patched.

All times are virtual seconds on harness/vloop.py.

script = {
  "connect": ["status", t, code] | ["error", t] | ["hang"],
  "stream":  [[t, bytes], ...]           chunks of the event stream delivered at absolute time t
  "end":     None | ["close", t] | ["error", t]
  "posts":   [ {"delay": d, "outcome": ["status", code, body_bytes] | ["exc", kind],
                "events": [[dt, bytes], ...]} ... ]      (index = n-th POST; events are pushed on the
                                                          event stream dt after the POST was received)
}
"""
from __future__ import annotations

import asyncio
import contextlib
import json
import types

import httpx as _httpx

ORIG_ASYNC_CLIENT = _httpx.AsyncClient
_CLOSE = object()


class World:
    def __init__(self, script):
        self.script = script
        self.q = None
        self.posts = []          # (time, json body)
        self.gets = []           # (time, url)
        self.clients = []
        self.stream_closed = 0
        self.stream_opened = 0

    def queue(self):
        if self.q is None:
            self.q = asyncio.Queue()
        return self.q

    def push_at(self, t, item):
        """Deliver `item` on the event stream at virtual time t.  Items for the same instant are delivered in the
        order they were pushed (asyncio does not order equal-time timers), by one timer per instant."""
        loop = asyncio.get_running_loop()
        q = self.queue()
        if t <= loop.time():
            q.put_nowait(item)
            return
        if not hasattr(self, "_due"):
            self._due = {}
        if t in self._due:
            self._due[t].append(item)
            return
        self._due[t] = [item]

        def fire():
            for it in self._due.pop(t, []):
                q.put_nowait(it)
        loop.call_at(t, fire)


class _SSEStream(_httpx.AsyncByteStream):
    def __init__(self, world):
        self.world = world
        world.stream_opened += 1

    async def __aiter__(self):
        q = self.world.queue()
        while True:
            item = await q.get()
            if item is _CLOSE:
                return
            if isinstance(item, BaseException):
                raise item
            yield item

    async def aclose(self):
        self.world.stream_closed += 1


class _Transport(_httpx.AsyncBaseTransport):
    def __init__(self, world):
        self.world = world

    async def handle_async_request(self, request):
        loop = asyncio.get_running_loop()
        w = self.world
        sc = w.script
        if request.method == "GET":
            w.gets.append((loop.time(), str(request.url)))
            c = sc.get("connect", ["status", 0.0, 200])
            if c[0] == "hang":
                await asyncio.Event().wait()
            if c[1] > 0:
                await asyncio.sleep(c[1])
            if c[0] == "error":
                raise _httpx.ConnectError("connection refused", request=request)
            for t, b in sc.get("stream", []):
                w.push_at(t, bytes(b))
            end = sc.get("end")
            if end:
                w.push_at(end[1], _CLOSE if end[0] == "close" else _httpx.ReadError("stream reset", request=request))
            return _httpx.Response(c[2], headers={"content-type": "text/event-stream"}, stream=_SSEStream(w),
                                   request=request)
        try:
            body = json.loads(request.content)
        except Exception:
            body = None
        # the i-th DISTINCT message gets the i-th entry of the script; a message that is POSTed AGAIN (same bytes) is handled again
        # by the server exactly like the first time - its events are pushed again - and this time acknowledged with 202
        key = bytes(request.content)
        seen = getattr(w, "_post_keys", None)
        if seen is None:
            seen = w._post_keys = {}
        resent = key in seen
        idx = seen.setdefault(key, len(seen))
        t0 = loop.time()
        w.posts.append((t0, str(request.url), body))
        posts = sc.get("posts", [])
        spec = posts[idx] if idx < len(posts) else {"delay": 0.0, "outcome": ["status", 202, b""], "events": []}
        if resent:
            spec = dict(spec, outcome=["status", 202, b""])
        for dt, b in spec.get("events", []):
            w.push_at(t0 + dt, bytes(b))
        if spec.get("delay", 0.0) > 0:
            await asyncio.sleep(spec["delay"])
        out = spec["outcome"]
        if out[0] == "exc":
            kind = out[1]
            if kind == "connect":
                raise _httpx.ConnectError("connection refused", request=request)
            if kind == "timeout":
                raise _httpx.ReadTimeout("read timeout", request=request)
            if kind == "disconnect":
                raise _httpx.RemoteProtocolError("Server disconnected without sending a response.", request=request)
            raise RuntimeError("scripted failure")
        hdrs = {"content-type": out[3] if len(out) > 3 else "application/json"}
        return _httpx.Response(out[1], headers=hdrs, content=bytes(out[2]), request=request)


def make_client_class(world):
    class ScriptedAsyncClient(ORIG_ASYNC_CLIENT):
        def __init__(self, *a, **kw):
            kw.pop("transport", None)
            super().__init__(*a, transport=_Transport(world), **kw)
            world.clients.append(self)
    return ScriptedAsyncClient


@contextlib.contextmanager
def installed(world):
    """Replace the name `httpx` inside chuk_mcp.transports.sse.transport for the duration of one run."""
    import chuk_mcp.transports.sse.transport as tmod
    shim = types.SimpleNamespace(**{k: getattr(_httpx, k) for k in dir(_httpx) if not k.startswith("__")})
    shim.AsyncClient = make_client_class(world)
    saved = tmod.httpx
    tmod.httpx = shim
    try:
        yield
    finally:
        tmod.httpx = saved

"""C17 worker: runs the real chuk_mcp.protocol.fast_json in a separate process,
with or without orjson importable (the parent arranges PYTHONPATH).

stdin : pickle {"dumps": [value, ...], "kwsets": [dict, ...], "loads": [str, ...], "invalid": [str|bytes, ...]}
stdout: pickle {"has_orjson", "orjson_importable", "fast_json_file", "alias_ok",
                "dumps": [[("ok", text) | ("exc", class), per kwset] per value],
                "loads": [[("ok", value) | ("exc", class)] for (str input, bytes input)] per text],
                "invalid": [class name of what loads raised | "no-exception", isinstance of fj.JSONDecodeError]}
"""
import logging
import pickle
import sys

logging.disable(logging.CRITICAL)
sys.setrecursionlimit(1000)   # CPython's default, stated explicitly (the deep-value domain depends on it)


def main():
    req = pickle.load(sys.stdin.buffer)
    try:
        import orjson  # noqa: F401
        importable = True
    except ImportError:
        importable = False
    import json as stdlib_json
    from chuk_mcp.protocol import fast_json as fj

    out = {"has_orjson": bool(fj.HAS_ORJSON), "orjson_importable": importable,
           "fast_json_file": fj.__file__, "alias_ok": fj.JSONDecodeError is stdlib_json.JSONDecodeError,
           "dumps": [], "loads": [], "invalid": []}
    for v in req.get("dumps", []):
        row = []
        for kw in req["kwsets"]:
            try:
                t = fj.dumps(v, **kw)
                row.append(("ok", t) if isinstance(t, str) else ("exc", "returned-" + type(t).__name__))
            except Exception as e:     # noqa: BLE001
                row.append(("exc", type(e).__name__))
        out["dumps"].append(row)
    for t in req.get("loads", []):
        row = []
        for form in (t, t.encode("utf-8", "surrogatepass")):
            try:
                row.append(("ok", fj.loads(form)))
            except Exception as e:     # noqa: BLE001
                row.append(("exc", type(e).__name__))
        out["loads"].append(row)
    # very deep values: built, encoded, decoded and measured HERE, iteratively (pickling them would need the recursion
    # the test is about); only texts and small summaries cross the process boundary
    def build(kind, depth, leaf):
        v = leaf
        for i in range(depth):
            v = [v] if (kind == "array" or (kind == "mixed" and i % 2)) else {"k": v}
        return v

    def measure(v):
        d = 0
        while isinstance(v, (list, dict)) and len(v) == 1:
            v = v[0] if isinstance(v, list) else next(iter(v.values()))
            d += 1
        return d, v

    out["deep"] = []
    for kind, depth, leaf in req.get("deep", []):
        try:
            t = fj.dumps(build(kind, depth, leaf))
        except Exception as e:     # noqa: BLE001
            out["deep"].append({"enc": "exc:" + type(e).__name__})
            continue
        try:
            d, lf = measure(fj.loads(t))
            out["deep"].append({"enc": "ok", "text": t, "dec": "ok", "depth": d, "leaf": lf})
        except Exception as e:     # noqa: BLE001
            out["deep"].append({"enc": "ok", "text": t, "dec": "exc:" + type(e).__name__})
    out["deep_loads"] = []
    for t in req.get("deep_loads", []):
        try:
            d, lf = measure(fj.loads(t))
            out["deep_loads"].append({"dec": "ok", "depth": d, "leaf": lf})
        except Exception as e:     # noqa: BLE001
            out["deep_loads"].append({"dec": "exc:" + type(e).__name__})
    for t in req.get("invalid", []):
        try:
            fj.loads(t)
            out["invalid"].append(("no-exception", False))
        except Exception as e:         # noqa: BLE001
            out["invalid"].append((type(e).__name__, isinstance(e, fj.JSONDecodeError)))
    # every OTHER public encoder the module offers (a bytes variant, a framing variant, ...): discovered here, called with
    # each combination of its boolean keyword arguments
    import inspect
    import itertools
    out["encoders"] = {}
    if req.get("encoder_values") is not None:
        names = [n for n in getattr(fj, "__all__", dir(fj)) if "dumps" in n and n != "dumps" and callable(getattr(fj, n, None))]
        for n in names:
            f = getattr(fj, n)
            try:
                params = inspect.signature(f).parameters.values()
            except (TypeError, ValueError):
                continue
            flags = [p.name for p in params if isinstance(p.default, bool)]
            rows = {}
            for combo in itertools.product([False, True], repeat=len(flags)):
                kw = dict(zip(flags, combo))
                row = []
                for v in req["encoder_values"]:
                    if isinstance(v, tuple) and v and v[0] == "$deep":
                        v = build(v[1], v[2], 1)
                    try:
                        r = f(v, **kw)
                    except Exception as e:     # noqa: BLE001
                        row.append(("exc", type(e).__name__))
                        continue
                    b = r.encode("utf-8") if isinstance(r, str) else bytes(r) if isinstance(r, (bytes, bytearray)) else None
                    if b is None:
                        row.append(("other", type(r).__name__))
                        continue
                    body = b[:-1] if b.endswith(b"\n") else b
                    try:
                        val = stdlib_json.dumps(stdlib_json.loads(body.decode("utf-8")), sort_keys=True)
                        if len(val) > 400:
                            import hashlib
                            val = "sha1:" + hashlib.sha1(val.encode()).hexdigest()
                    except Exception as e:     # noqa: BLE001
                        val = "undecodable:" + type(e).__name__
                    row.append(("ok", type(r).__name__, b.endswith(b"\n"), (b"\n" in body) or (b"\r" in body), val))
                rows[repr(sorted(kw.items()))] = row
            out["encoders"][n] = rows
    sys.stdout.buffer.write(pickle.dumps(out, protocol=4))


if __name__ == "__main__":
    main()

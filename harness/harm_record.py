#!/usr/bin/env python3
"""harm_record.py <PID> <k> <log of harness/harmtest.sh run with every check> [note]
Stores a behaviour-preserving change under /verif/harmless/<PID>-<k>/ (patch.diff, probe.py, meta.json incl. what every check
said about the changed tree).  The changes were written by independent sub-agents that saw only the property text."""
import json
import os
import re
import shutil
import sys

pid, k, log = sys.argv[1], sys.argv[2], sys.argv[3]
note = sys.argv[4] if len(sys.argv) > 4 else ""
src = f"{os.environ.get('HARM_ROOT', '/tmp/seed/out3')}/{pid}/{k}"
dst = f"/verif/harmless/{pid}-{k}"
os.makedirs(dst, exist_ok=True)
for f in ("patch.diff", "probe.py"):
    if os.path.exists(os.path.join(src, f)):
        shutil.copy(os.path.join(src, f), os.path.join(dst, f))
meta = json.load(open(os.path.join(src, "meta.json")))
txt = open(log).read()
results = {}
cur = None
for line in txt.split("\n"):
    m = re.match(r"RESULT (C\d\d) \S+ probe=(\S+) suite=\[(.*?)\] check_exit=(\d+) violations=(\d+)", line)
    if m:
        cur = m.group(1)
        results[cur] = {"exit": int(m.group(4)), "violations": int(m.group(5)), "lines": []}
        meta["probe"] = m.group(2)
        continue
    if m is None and line.startswith("RESULT") and "patch-does-not-apply" in line:
        meta["probe"] = "patch-does-not-apply"
    if cur and (line.startswith("VIOLATION") or "BROKEN obligation" in line):
        results[cur]["lines"].append(re.sub(r"replay=\S*/replays/", "replay=", line.strip())[:260])
meta["anchored_in"] = pid
meta["checks"] = results
meta["alarms"] = sorted(c for c, r in results.items() if r["exit"] != 0 or r["violations"])
if note:
    meta["note"] = note
json.dump(meta, open(os.path.join(dst, "meta.json"), "w"), indent=1, ensure_ascii=False)
print(dst, "silent" if not meta["alarms"] else "ALARM " + ",".join(meta["alarms"]), f"({len(results)} checks)")

"""Translator plugin for C16: regenerates Gen/ShutdownGen.v from the AST of
StdioClient._terminate_process (transports/stdio/stdio_client.py).

What is extracted (fail-closed: a shape that is not recognised raises TranslateError
and the Gen file is removed):

* the signal/wait skeleton of _terminate_process, read in source order, must be exactly
      self.process.terminate()
      with anyio.fail_after(<g1>):  await self.process.wait()
      self.process.kill()
      with anyio.fail_after(<g2>):  await self.process.wait()
  (the second half nested in the `except TimeoutError` handler of the first wait, or - flattened - after a
  `try: <first wait> except TimeoutError: <falls through> else: return`);
* <g1>, <g2> are numeric literals or module-level names bound once to one, positive multiples of 10 ms; they are emitted in ticks of 10 ms
  as `term_grace_ticks` and `kill_grace_ticks`.

Everything else about the shutdown protocol (what runs under cancellation, what is closed) is
hand-modelled in Model/Shutdown.v and tied by the correspondence run of harness/c16.py.
"""
from __future__ import annotations

import ast

import translate as T

PATH = "transports/stdio/stdio_client.py"


TREE = None


def _events(node, out):
    """Source-order walk recording the calls the protocol consists of."""
    if isinstance(node, (ast.With, ast.AsyncWith)):
        for item in node.items:
            c = item.context_expr
            if isinstance(c, ast.Call) and isinstance(c.func, ast.Attribute) and c.func.attr in (
                    "fail_after", "move_on_after", "timeout", "wait_for"):
                if c.func.attr != "fail_after" or isinstance(node, ast.AsyncWith):
                    raise T.TranslateError("_terminate_process: unexpected timeout construct", c)
                if len(c.args) != 1 or c.keywords:
                    raise T.TranslateError("_terminate_process: fail_after takes one positional literal", c)
                v = T.numeric_value(c.args[0], TREE)
                if v is None:
                    raise T.TranslateError("_terminate_process: grace period is not a numeric literal (or a module constant "
                                           "bound once to one)", c)
                out.append(("grace", v, c))
            else:
                _events(c, out)
        for st in node.body:
            _events(st, out)
        return
    if isinstance(node, ast.Call) and isinstance(node.func, ast.Attribute):
        f = node.func
        if isinstance(f.value, ast.Attribute) and f.value.attr == "process" and isinstance(f.value.value, ast.Name) \
                and f.value.value.id == "self":
            if f.attr in ("terminate", "kill", "wait", "send_signal", "aclose"):
                out.append((f.attr, None, node))
        if f.attr in ("wait_for",):
            raise T.TranslateError("_terminate_process: unexpected timeout construct", node)
    if isinstance(node, (ast.While, ast.For, ast.AsyncFor)):
        raise T.TranslateError("_terminate_process: loop in the termination protocol", node)
    for child in ast.iter_child_nodes(node):
        _events(child, out)


def _ticks(v, node):
    t = v * 100
    if t != int(t) or t <= 0:
        raise T.TranslateError("_terminate_process: grace period is not a positive multiple of 10 ms", node)
    return int(t)


def gen_shutdown() -> str:
    global TREE
    tree = TREE = T.read(PATH)
    classes = [n for n in tree.body if isinstance(n, ast.ClassDef) and n.name == "StdioClient"]
    if len(classes) != 1:
        raise T.TranslateError("expected exactly one class StdioClient")
    fns = [n for n in classes[0].body if isinstance(n, (ast.FunctionDef, ast.AsyncFunctionDef))
           and n.name == "_terminate_process"]
    if len(fns) != 1 or not isinstance(fns[0], ast.AsyncFunctionDef):
        raise T.TranslateError("expected exactly one `async def StdioClient._terminate_process`", classes[0])
    fn = fns[0]
    if fn.decorator_list or [a.arg for a in fn.args.args] != ["self"] or fn.args.vararg or fn.args.kwarg \
            or fn.args.kwonlyargs or fn.args.defaults:
        raise T.TranslateError("_terminate_process: signature differs from template", fn)
    ev = []
    for st in fn.body:
        _events(st, ev)
    kinds = [k for k, _v, _n in ev]
    if kinds != ["terminate", "grace", "wait", "kill", "grace", "wait"]:
        raise T.TranslateError("_terminate_process: protocol skeleton is not terminate / fail_after / wait / kill / "
                               f"fail_after / wait (found {kinds})", fn)
    # the kill half must sit in an `except TimeoutError` handler (it runs only when the first wait timed out)
    kill_node = ev[3][2]
    in_handler = False
    for node in ast.walk(fn):
        if isinstance(node, ast.ExceptHandler) and any(n is kill_node for n in ast.walk(node)):
            names = []
            if isinstance(node.type, ast.Name):
                names = [node.type.id]
            elif isinstance(node.type, ast.Tuple):
                names = [e.id for e in node.type.elts if isinstance(e, ast.Name)]
            if "TimeoutError" in names:
                in_handler = True
    if not in_handler:
        # the flattened form: `try: <first wait> except TimeoutError: <no exit> else: return` and the kill half AFTER that try
        first_wait = ev[2][2]
        for node in ast.walk(fn):
            body = getattr(node, "body", None)
            if not isinstance(body, list):
                continue
            for blk in (body, getattr(node, "orelse", None) or [], getattr(node, "finalbody", None) or []):
                for i, st in enumerate(blk):
                    if isinstance(st, ast.Try) and any(n is first_wait for b in st.body for n in ast.walk(b)) \
                            and not any(n is kill_node for n in ast.walk(st)):
                        handlers_ok = len(st.handlers) == 1 and isinstance(st.handlers[0].type, ast.Name) \
                            and st.handlers[0].type.id == "TimeoutError" \
                            and not any(isinstance(n, (ast.Return, ast.Raise, ast.Continue, ast.Break)) for n in ast.walk(st.handlers[0]))
                        else_returns = bool(st.orelse) and isinstance(st.orelse[-1], ast.Return) and not st.finalbody
                        follows = any(n is kill_node for later in blk[i + 1:] for n in ast.walk(later))
                        if handlers_ok and else_returns and follows:
                            in_handler = True
    if not in_handler:
        raise T.TranslateError("_terminate_process: kill() is not inside `except TimeoutError`", kill_node)
    g1 = _ticks(ev[1][1], ev[1][2])
    g2 = _ticks(ev[4][1], ev[4][2])
    out = T.HEADER.format(src=PATH + " (StdioClient._terminate_process) by harness/translate_c16.py")
    out += "(* grace periods of the termination protocol in ticks of 10 ms:\n"
    out += "   terminate(); fail_after(g1): wait();  on timeout  kill(); fail_after(g2): wait() *)\n"
    out += f"Definition term_grace_ticks : Z := {T.zlit(g1)}.\n"
    out += f"Definition kill_grace_ticks : Z := {T.zlit(g2)}.\n"
    return out


GEN_FILES = {"ShutdownGen.v": gen_shutdown}

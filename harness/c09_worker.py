"""Worker for C09/C10: runs the REAL library under one validation back end.

Started twice by the harness under /venv/bin/python with PYTHONPATH=$VERIF_REPO/src: once as is (Pydantic) and once
with MCP_FORCE_FALLBACK=1.  argv: <case file> <result file>.  For every case it reports accept/reject, the typed
tree (type(x) at every level) and model_dump(by_alias=True, exclude_none=True).
"""
from __future__ import annotations

import importlib
import json
import logging
import os
import sys

logging.disable(logging.CRITICAL)

from chuk_mcp.protocol import mcp_pydantic_base as B  # noqa: E402

Base = B.McpPydanticBase


def qual(cls):
    return f"{cls.__module__}.{cls.__qualname__}"


def canon(x):
    """JSON value with numbers canonicalised (an integral float IS that integer as a JSON number)."""
    if isinstance(x, bool) or x is None or isinstance(x, (int, str)):
        return x
    if isinstance(x, float):
        if x != x or x in (float("inf"), float("-inf")):
            return {"$float": repr(x)}
        return int(x) if x.is_integer() else x
    if isinstance(x, (list, tuple)):
        return [canon(i) for i in x]
    if isinstance(x, dict):
        return {str(k): canon(v) for k, v in x.items()}
    if isinstance(x, Base):
        return typed(x)
    return {"$repr": type(x).__name__}


def attrs(inst):
    if B.PYDANTIC_AVAILABLE:
        d = {n: getattr(inst, n) for n in type(inst).model_fields}
        d.update(inst.model_extra or {})
        return d
    return {k: v for k, v in inst.__dict__.items() if not k.startswith("__")}


def typed(x):
    """The value with the class of every model instance made visible."""
    if isinstance(x, Base):
        out = {"__class__": qual(type(x))}
        for k, v in attrs(x).items():
            out[k] = typed(v)
        return out
    if isinstance(x, (list, tuple)):
        return [typed(i) for i in x]
    if isinstance(x, dict):
        return {str(k): typed(v) for k, v in x.items()}
    return canon(x)


def resolve(name):
    mod, _, attr = name.rpartition(".")
    obj = importlib.import_module(mod)
    return getattr(obj, attr)


def observe(obj):
    if isinstance(obj, Base):
        out = {"ok": True, "typed": typed(obj), "dump": canon(obj.model_dump(by_alias=True, exclude_none=True)),
               "dump_noalias": canon(obj.model_dump(exclude_none=True))}
        try:
            import json as _json
            # the JSON TEXT serialiser with its defaults, the very call the stdio writer makes
            out["dump_json"] = canon(_json.loads(obj.model_dump_json(exclude_none=True)))
        except BaseException as e:  # noqa: BLE001
            out["dump_json"] = {"$fail": type(e).__name__}
        return out
    if isinstance(obj, list):
        return {"ok": True, "list": [observe(o) for o in obj]}
    return {"ok": True, "typed": typed(obj), "dump": canon(obj)}


def scribble(v):
    """write into every container of a dump, in place"""
    if isinstance(v, dict):
        for x in list(v.values()):
            scribble(x)
        v["$scribbled"] = 1
    elif isinstance(v, list):
        for x in v:
            scribble(x)
        v.append("$scribbled")


def share(v, pool):
    """the same value with every pair of EQUAL containers made ONE object (a DAG, as application code builds when it reuses a
    default-arguments dict or lists one row twice); JSON has no notion of object identity, so nothing may depend on it"""
    import json as _json
    if isinstance(v, dict):
        v = {k: share(x, pool) for k, x in v.items()}
    elif isinstance(v, list):
        v = [share(x, pool) for x in v]
    else:
        return v
    key = _json.dumps(v, sort_keys=True, default=repr) + ("D" if isinstance(v, dict) else "L")
    return pool.setdefault(key, v)


def run_case(c):
    op = c["op"]
    try:
        if op == "validate":
            import copy as _copy
            wire = _copy.deepcopy(c["data"])
            obj = resolve(c["cls"]).model_validate(wire)
            out = observe(obj)
            # a VIEW of the wire object: writing into one dump (as a forwarder, or the library's own send_message, does) must
            # show neither in the next dump nor in the wire object the model was validated from
            d1 = obj.model_dump(by_alias=True, exclude_none=True)
            before = canon(_copy.deepcopy(d1))
            scribble(d1)
            d2 = obj.model_dump(by_alias=True, exclude_none=True)
            out["second_dump_equal"] = canon(d2) == before
            out["wire_untouched"] = canon(wire) == canon(c["data"])
            pool = {}
            aliased = share(_copy.deepcopy(c["data"]), pool)
            try:
                o2 = observe(resolve(c["cls"]).model_validate(aliased))
            except BaseException as e:  # noqa: BLE001
                o2 = {"ok": False, "exc": type(e).__name__}
            keys = ("ok", "typed", "dump", "dump_noalias", "dump_json")
            out["shared"] = "same" if all(o2.get(k) == out.get(k) for k in keys) else \
                {"$differs": {k: o2.get(k) for k in keys if o2.get(k) != out.get(k)}}
            return out
        if op == "construct":      # keyword construction, as library code does
            return observe(resolve(c["cls"])(**c["data"]))
        if op == "parse":
            from chuk_mcp.protocol.messages.json_rpc_message import parse_message
            return observe(parse_message(c["data"]))
        if op == "call":           # library-side serialiser: fn(*args) where args may be model instances
            fn = resolve(c["fn"])
            args = [build_arg(a) for a in c.get("args", [])]
            kwargs = {k: build_arg(a) for k, a in c.get("kwargs", {}).items()}
            out = fn(*args, **kwargs)
            if hasattr(out, "__await__"):
                out.close()
                return {"ok": False, "exc": "Coroutine"}
            return {"ok": True, "dump": canon(plain(out)), "typed": typed(out)}
        if op == "site":
            out = SITES[c["site"]](c["data"])
            return {"ok": True, "dump": canon(plain(out))}
        return {"ok": False, "exc": "BadOp"}
    except BaseException as e:  # noqa: BLE001 - the class of the exception is the observation
        if isinstance(e, (KeyboardInterrupt, SystemExit)):
            raise
        return {"ok": False, "exc": type(e).__name__, "msg": str(e)[:160]}


# --------------------------------------------------------------------------- #
# Library-side serialisers (C10): each driver builds the typed object(s) from wire data with every alias
# populated, calls the library function and returns what would leave the process.
# --------------------------------------------------------------------------- #
def _run(coro):
    import asyncio
    return asyncio.run(coro)


def _capture_send(module):
    """Replace the module's send_message by a recorder; returns the record dict."""
    rec = {}

    async def fake_send_message(*a, **kw):
        rec.update(kw)
        return {"completion": {"values": []}}
    module.send_message = fake_send_message
    return rec


def site_tool_result_to_dict(data):
    from chuk_mcp.protocol.types.tools import tool_result_to_dict, ToolResult
    return tool_result_to_dict(ToolResult.model_validate(data))


def site_content_to_dict(data):
    from chuk_mcp.protocol.types.content import content_to_dict, parse_content
    return content_to_dict(parse_content(data))


def site_elicitation_request(data):
    from chuk_mcp.protocol.types.elicitation import ElicitationHandler, ElicitationParams
    sent = []

    class Stop(Exception):
        pass

    async def send(message):
        sent.append(message)
        raise Stop()

    async def go():
        h = ElicitationHandler(send)
        try:
            await h.request_user_input(ElicitationParams.model_validate(data), timeout=0.01)
        except Stop:
            pass
    _run(go())
    return sent[0]["params"]


def site_roots_list_response(data):
    from chuk_mcp.protocol.messages.roots.send_messages import handle_roots_list_request, Root
    msg = _run(handle_roots_list_request([Root.model_validate(r) for r in data["roots"]], 7))
    return msg.result


def site_sampling_create(data):
    import chuk_mcp.protocol.messages.sampling.send_messages as M
    rec = _capture_send(M)
    _run(M.send_sampling_create_message(None, None, [M.SamplingMessage.model_validate(m) for m in data["messages"]], 10,
                                        model_preferences=M.ModelPreferences.model_validate(data["modelPreferences"])))
    return rec["params"]


def site_completion_complete(data):
    import chuk_mcp.protocol.messages.completions.send_messages as M
    rec = _capture_send(M)
    _run(M.send_completion_complete(None, None, M.ResourceReference.model_validate(data["ref"]),
                                    M.ArgumentInfo.model_validate(data["argument"])))
    return rec["params"]


SITES = {"tool_result_to_dict": site_tool_result_to_dict, "content_to_dict": site_content_to_dict,
         "elicitation_request": site_elicitation_request, "roots_list_response": site_roots_list_response,
         "sampling_create": site_sampling_create, "completion_complete": site_completion_complete}


def build_arg(a):
    if isinstance(a, dict) and "$model" in a:
        return resolve(a["$model"]).model_validate(a["data"])
    if isinstance(a, dict) and "$list" in a:
        return [build_arg(x) for x in a["$list"]]
    if isinstance(a, dict) and "$raw" in a:
        return a["$raw"]
    return a


def plain(x):
    """What leaves the process: a model left inside a result is dumped the way the JSON encoder would see it
    (it cannot; reported as such)."""
    if isinstance(x, Base):
        return {"$undumped_model": qual(type(x))}
    if isinstance(x, (list, tuple)):
        return [plain(i) for i in x]
    if isinstance(x, dict):
        return {str(k): plain(v) for k, v in x.items()}
    return x


def main():
    cases = json.load(open(sys.argv[1], encoding="utf-8"))
    out = {"backend": "pydantic" if B.PYDANTIC_AVAILABLE else "fallback",
           "forced": os.environ.get("MCP_FORCE_FALLBACK") == "1",
           "results": [run_case(c) for c in cases]}
    with open(sys.argv[2], "w", encoding="utf-8") as f:
        json.dump(out, f)


if __name__ == "__main__":
    main()

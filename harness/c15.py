"""C15 — client-observable behaviour does not depend on the carrier.

One generated server conversation is served over the four REAL carriers (stdio_client over a scripted child process,
http_client with JSON bodies, http_client with SSE bodies, sse_client over a scripted event stream; virtual clock) and
over plain memory streams (the reference: the common (read, write) contract without any carrier).  The server side puts
the messages on the wire with the framings of Spec/C15.v, EXTRACTED from Coq, under generated encoding choices and
chunkings.  Observed per carrier: the normalised transcript of the read stream, the outcomes of the request helpers,
the requests the server saw.  The extracted model receive paths (Model/Carrier.v) are run on the same wire bytes
(correspondence) and the extracted judgement agree_ok (Spec/C15.v, proved to decide Spec_agree) judges the real runs.
"""
from __future__ import annotations

import asyncio
import codecs
import json
import types
import uuid

import anyio
import httpx as _httpx

import lib
from lib import sx, call
from c09 import js_sx
from fakeproc import FakeProcess, FakeStdin, patched_open_process
from vloop import vrun
import c12_fake

PID = "C15"
META = {
    "level": "Proof: for EVERY conversation (any list of single-line JSON object texts of Unicode scalar values) framed for each "
             "carrier under ANY of the encoding choices its wire format leaves open (LF/CRLF; SSE event field absent/before/after, "
             "optional space, comments, id:/retry: lines, extra blank lines) and cut into ANY chunks, the receive paths of stdio, "
             "Streamable HTTP (SSE body) and legacy SSE hand the common decoder exactly the server's message texts in the server's "
             "order (C15_carrier_independent; JSON bodies under the stated json.loads contract, C15_http_json_transcript); the legacy "
             "carrier's sender/event-stream race preserves the order of notifications and response for every sequential conversation and "
             "every position of the 202 acknowledgement (C15_legacy_order); the three per-message decoders the carriers use in the code "
             "(parse_message; JSONRPCMessage.model_validate; the same plus the HTTP non-message filter - Model/Envelope.v, tied by C02) "
             "deliver the same view on EVERY valid JSON-RPC message whose result is an object, under both back ends "
             "(C15_decoders_agree; refuted for non-object results: recorded finding). The receive-path models are those of C05/C11/C12, tied to the "
             "code there; here one generated conversation is run over the four real carriers and a carrier-free reference, and the "
             "extracted, proved checker agree_ok judges transcripts, helper outcomes and outbound requests. PARTIAL: the per-message "
             "decoders (json.loads + envelope validation, per carrier) and httpx are outside the model; their agreement is what the "
             "differential run establishes.",
    "note": "Trusted: Coq kernel; extraction (ExtrOcamlBasic only); the harness (scripted child, scripted httpx transports, virtual "
            "clock); CPython json as the server's serialiser. Domain: sequential conversations (the client sends the next request after "
            "the previous response; notifications of a step precede its response), results are JSON objects, ids are strings or "
            "integers, message texts contain no raw CR/LF (JSON escapes them). Known carrier differences outside this domain are the "
            "recorded C12 findings (answer overtaken by a LATER event, late answer after a timeout).",
    "technique": "Coq proof (framing round trips by induction over the encoded stream, chunk independence, induction over conversations for "
                 "the legacy sender race) + differential run of one conversation over four real carriers judged by the extracted checker",
    "design_ref": "DESIGN.md section 6 (C15)",
}
GEN = ["EnvelopeKindGen.v"]
TARGETS = ["Model/Carrier", "Spec/C15", "Proofs/Carrier", "Proofs/CarrierDecode", "Gen/EnvelopeKindGen", "Proofs/EnvelopeKind", "Props/C02", "Props/C15", "Drv/C15"]
TRUSTED = [
    "Coq 8.16.1 kernel (coqc); coqchk re-check in the thorough tier; vm_compute only in the non-vacuity Example",
    "axioms: none (every C15 theorem prints 'Closed under the global context')",
    "the receive-path models Model/Lines.v, Model/HttpSse.v, Model/SseLegacy.v are hand-written and tied to the code by the "
    "C05 / C11 / C12 checks and by the correspondence run of this check (model texts vs delivered messages on the same wire bytes)",
    "Section variable `parse` (json.loads + envelope validation + normalisation per carrier) and `parse_body` (json.loads of a whole "
    "HTTP body): external code; every theorem is closed over them; their agreement across carriers is tested, not proved",
    "extraction: ExtrOcamlBasic only; ocaml/main.ml text<->sexp",
    "harness: harness/fakeproc.py (child process seam anyio.open_process), scripted httpx transports injected by replacing the "
    "name `httpx` in the two transport modules, harness/vloop.py virtual clock, uuid.uuid4 replaced by a counter",
    "modelled, not verified: httpx (incremental UTF-8 decoding of the event stream, Response.text/json), anyio memory streams, "
    "CPython json, Pydantic validation of envelopes",
]
ASSUME = [
    "conversations are sequential: one request outstanding at a time, a step's notifications precede its response",
    "message texts are what CPython's json.dumps produces (single line, raw non-ASCII or \\u escapes), results are JSON objects",
    "HTTP JSON bodies carry a step with notifications as a JSON array [notifications..., response]",
]

CARRIERS = ["stdio", "http-json", "http-sse", "legacy-sse"]
BASE = "http://sse.test"
ENDPOINT = "/messages/?session_id=s1"

# --------------------------------------------------------------------------- #
# Generators
# --------------------------------------------------------------------------- #
STRS = ["", "a", " ", "é", " ", " ", "\u0085", "\U0001f600", "line\nbreak", "cr\r\nlf", "\t", "\u0000",
        "\"q\"", "back\\slash", " pad　", "data: {\"x\":1}", "event: message", "﻿", "퟿", "{}", "[1,2]",
        "‮", "é", "中文", "\U0010ffff"]
SCALARS = [None, True, False, 0, -1, 1, 2 ** 31, 2 ** 63, 2 ** 64 - 1, -(2 ** 63), 1.5, -0.25, 1e300, 1e-7]


def gen_value(rng, depth=0):
    r = rng.random()
    if depth >= 3 or r < 0.35:
        return rng.choice(SCALARS) if rng.random() < 0.5 else rng.choice(STRS)
    if r < 0.6:
        return [gen_value(rng, depth + 1) for _ in range(rng.randint(0, 3))]
    return {rng.choice(STRS + ["k", "key", "_meta", "type"]): gen_value(rng, depth + 1) for _ in range(rng.randint(0, 3))}


def gen_obj(rng):
    return {rng.choice(STRS[:12] + ["k", "text", "value", "_meta"]): gen_value(rng, 1) for _ in range(rng.randint(0, 4))}


ERR_CODES = [-32700, -32600, -32601, -32602, -32603, -32000, -32001, -32002, -32099, 0, 1, 42, 2 ** 31, -1]


def gen_answer(rng, kind):
    if rng.random() < 0.25:
        e = {"code": rng.choice(ERR_CODES), "message": rng.choice(STRS)}
        r = rng.random()
        if r < 0.3:
            e["data"] = gen_value(rng, 1)
        elif r < 0.4:
            e["data"] = None
        return {"error": e}
    if kind == "initialize":
        res = {"protocolVersion": rng.choice(["2025-06-18", "2025-03-26", "2024-11-05"]),
               "capabilities": {"tools": {"listChanged": True}, "logging": {}} if rng.random() < 0.7 else {},
               "serverInfo": {"name": rng.choice(["srv", "sérv ", "\U0001f600"]), "version": "1.0"}}
        if rng.random() < 0.4:
            res["instructions"] = rng.choice(STRS)
        return {"result": res}
    if kind == "ping":
        return {"result": {}}
    if kind == "tools_list":
        tools = [{"name": rng.choice(["t", "té", "\U0001f600"]), "description": rng.choice(STRS),
                  "inputSchema": {"type": "object", "properties": gen_obj(rng)}} for _ in range(rng.randint(0, 2))]
        res = {"tools": tools}
        if rng.random() < 0.3:
            res["nextCursor"] = rng.choice(STRS)
        return {"result": res}
    if kind == "tools_call":
        content = [{"type": "text", "text": rng.choice(STRS)} for _ in range(rng.randint(0, 3))]
        res = {"content": content, "isError": rng.random() < 0.2}
        if rng.random() < 0.3:
            res["structuredContent"] = gen_obj(rng)
        return {"result": res}
    if kind == "resources_read":
        return {"result": {"contents": [{"uri": "file:///x", "text": rng.choice(STRS), "mimeType": "text/plain"}
                                        for _ in range(rng.randint(0, 2))]}}
    if kind == "prompts_get":
        return {"result": {"description": rng.choice(STRS),
                           "messages": [{"role": "user", "content": {"type": "text", "text": rng.choice(STRS)}}
                                        for _ in range(rng.randint(0, 2))]}}
    return {"result": gen_obj(rng)}


def gen_notif(rng):
    r = rng.random()
    if r < 0.4:
        return {"jsonrpc": "2.0", "method": "notifications/message",
                "params": {"level": rng.choice(["info", "error"]), "data": gen_value(rng, 1), "logger": rng.choice(STRS)}}
    if r < 0.6:
        return {"jsonrpc": "2.0", "method": "notifications/progress",
                "params": {"progressToken": rng.choice(["tok", 7, "é"]), "progress": rng.choice([0, 0.5, 1, 10]),
                           "total": rng.choice([None, 10, 1.0]), "message": rng.choice(STRS)}}
    if r < 0.75:
        return {"jsonrpc": "2.0", "method": rng.choice(["notifications/tools/list_changed", "notifications/resources/list_changed"])}
    if r < 0.9:
        return {"jsonrpc": "2.0", "method": "notifications/resources/updated", "params": {"uri": "file:///" + rng.choice(STRS[:8])}}
    return {"jsonrpc": "2.0", "method": "notifications/" + rng.choice(["x", "customé"]), "params": gen_obj(rng)}


RAW_IDS = ["a", "", "0", "007", "-5", "é ", "\U0001f600", "x" * 40, 0, 7, -3, 2 ** 31, 2 ** 63, 2 ** 64 - 1]
KINDS = ["ping", "tools_list", "tools_call", "resources_read", "prompts_get", "raw", "raw", "raw"]


def gen_step(rng, kind=None):
    kind = kind or rng.choice(KINDS)
    call_ = {"kind": kind}
    if kind == "raw":
        call_["method"] = rng.choice(["tools/call", "x/y", "resources/read", "méthod"])
        call_["params"] = gen_obj(rng) if rng.random() < 0.8 else None
        call_["id"] = rng.choice(RAW_IDS) if rng.random() < 0.8 else None
    elif kind == "tools_call":
        call_["name"] = rng.choice(["t", "té "])
        call_["arguments"] = gen_obj(rng)
    elif kind == "resources_read":
        call_["uri"] = "file:///" + rng.choice(["a", "é", "x y"])
    elif kind == "prompts_get":
        call_["name"] = rng.choice(["p", "\U0001f600"])
        call_["arguments"] = {k: str(v) for k, v in gen_obj(rng).items()} if rng.random() < 0.5 else None
    n = rng.choice([0, 0, 1, 1, 2, 3])
    return {"call": call_, "notifs": [gen_notif(rng) for _ in range(n)], "answer": gen_answer(rng, kind),
            "ascii": rng.random() < 0.3, "spaced": rng.random() < 0.3}


def gen_extra(rng):
    k = rng.randint(0, 2)
    return [k, rng.choice(["", "x", " keep-alive", "12", "é", ": :"])]


def gen_sse_choice(rng):
    return [[gen_extra(rng) for _ in range(rng.choice([0, 0, 1, 2]))], [gen_extra(rng) for _ in range(rng.choice([0, 0, 1]))],
            rng.choice([0, 1, 1, 2]), rng.random() < 0.6, rng.random() < 0.4, rng.choice([0, 0, 1, 2])]


def gen_lchoice(rng):
    return [[rng.choice(["", "x", " ping", "é"]) for _ in range(rng.choice([0, 0, 1, 2]))],
            rng.random() < 0.6, rng.random() < 0.4, rng.choice([0, 0, 1, 2])]


def gen_enc(rng, n_msgs):
    return {"stdio_crlf": [rng.random() < 0.4 for _ in range(n_msgs)],
            "sse": [gen_sse_choice(rng) for _ in range(n_msgs)],
            "legacy": [gen_lchoice(rng) for _ in range(n_msgs)],
            "legacy_mode": rng.choice(["200", "202", "202", "202"]),
            "ack": rng.random(),              # when the 202 arrives relative to the stream events (fraction of the step)
            "cuts": [rng.random() for _ in range(rng.choice([0, 1, 2, 3, 5]))]}   # chunk cut positions (fractions)


def gen_conversation(rng, n_steps, with_init=True):
    steps = []
    if with_init:
        steps.append(gen_step(rng, "initialize"))
    for _ in range(n_steps):
        steps.append(gen_step(rng))
    for st in steps:
        st["enc"] = gen_enc(rng, len(st["notifs"]) + 1)
    return {"steps": steps}


# --------------------------------------------------------------------------- #
# Normalisation
# --------------------------------------------------------------------------- #
def sort_json(v):
    if isinstance(v, dict):
        return {k: sort_json(v[k]) for k in sorted(v)}
    if isinstance(v, list):
        return [sort_json(x) for x in v]
    return v


def norm_delivered(m):
    if hasattr(m, "model_dump"):
        try:
            d = m.model_dump(exclude_none=True)
        except Exception as e:  # pragma: no cover
            d = {"<undumpable>": type(e).__name__}
    elif isinstance(m, dict):
        d = {k: v for k, v in m.items() if v is not None}
    else:
        d = {"<not-a-message>": type(m).__name__}
    return sort_json(json.loads(json.dumps(d, default=lambda o: {"<obj>": type(o).__name__})))


def norm_outcome(kind, r):
    if hasattr(r, "model_dump"):
        try:
            r = r.model_dump(by_alias=True, exclude_none=True)
        except Exception as e:  # pragma: no cover
            r = {"<undumpable>": type(e).__name__}
    try:
        return {"outcome": "ok", "value": sort_json(json.loads(json.dumps(r)))}
    except Exception:
        return {"outcome": "ok", "value": {"<unserialisable>": type(r).__name__}}


def norm_exc(e):
    d = {"outcome": "raised", "class": type(e).__name__}
    c = getattr(e, "code", None)
    if isinstance(c, int):
        d["code"] = c
    return d


def msg_text(obj, ascii_, spaced):
    return json.dumps(obj, ensure_ascii=ascii_, separators=(", ", ": ") if spaced else (",", ":"))


# --------------------------------------------------------------------------- #
# The client side: identical for every carrier
# --------------------------------------------------------------------------- #
class Tap:
    def __init__(self, inner, log):
        self.inner, self.log = inner, log

    async def receive(self):
        m = await self.inner.receive()
        self.log.append(norm_delivered(m))
        return m

    def __getattr__(self, n):
        return getattr(self.inner, n)


class _Counter:
    def __init__(self):
        self.n = 0

    def __call__(self):
        self.n += 1
        return uuid.UUID(int=self.n)


TIMEOUT = 5.0


async def drive(read, write, conv, log):
    from chuk_mcp.protocol.messages.send_message import send_message
    from chuk_mcp.protocol.messages.initialize.send_messages import send_initialize
    from chuk_mcp.protocol.messages.ping.send_messages import send_ping
    from chuk_mcp.protocol.messages.tools.send_messages import send_tools_list, send_tools_call
    from chuk_mcp.protocol.messages.resources.send_messages import send_resources_read
    from chuk_mcp.protocol.messages.prompts.send_messages import send_prompts_get
    tap = Tap(read, log)
    outcomes = []
    for st in conv["steps"]:
        c = st["call"]
        k = c["kind"]
        try:
            if k == "initialize":
                r = await send_initialize(tap, write, timeout=TIMEOUT)
            elif k == "ping":
                r = await send_ping(tap, write, timeout=TIMEOUT)
            elif k == "tools_list":
                r = await send_tools_list(tap, write, timeout=TIMEOUT)
            elif k == "tools_call":
                r = await send_tools_call(tap, write, c["name"], c["arguments"], timeout=TIMEOUT)
            elif k == "resources_read":
                r = await send_resources_read(tap, write, c["uri"], timeout=TIMEOUT)
            elif k == "prompts_get":
                r = await send_prompts_get(tap, write, c["name"], c["arguments"], timeout=TIMEOUT)
            else:
                r = await send_message(tap, write, c["method"], c["params"], timeout=TIMEOUT, message_id=c["id"])
            outcomes.append(norm_outcome(k, r))
        except BaseException as e:  # noqa: BLE001 - the outcome IS the observation
            if isinstance(e, (KeyboardInterrupt, SystemExit, asyncio.CancelledError)):
                raise
            outcomes.append(norm_exc(e))
    # anything still buffered on the read stream belongs to the transcript
    await asyncio.sleep(0.05)
    while True:
        try:
            m = read.receive_nowait()
        except (anyio.WouldBlock, anyio.EndOfStream, anyio.ClosedResourceError):
            break
        log.append(norm_delivered(m))
    return outcomes


class Server:
    """What the scripted server does, carrier-independent: the k-th REQUEST it sees gets step k."""

    def __init__(self, conv):
        self.conv = conv
        self.k = 0
        self.seen = []          # normalised client messages in arrival order
        self.ids = []           # id of the k-th request

    def on_client_message(self, payload):
        """-> step index if payload is a request, else None"""
        self.seen.append(sort_json(payload) if isinstance(payload, (dict, list)) else {"<not-json-object>": repr(payload)[:80]})
        if isinstance(payload, dict) and "method" in payload and payload.get("id") is not None:
            k = self.k
            self.k += 1
            self.ids.append(payload["id"])
            return k if k < len(self.conv["steps"]) else None
        return None


def step_objects(st, rid):
    ans = {"jsonrpc": "2.0", "id": rid}
    ans.update(st["answer"])
    # "$rid": a message of the server's own that happens to bear the id of the client's request in flight (ids are per direction)
    return [({**n, "id": rid} if isinstance(n, dict) and n.get("id") == "$rid" else n) for n in st["notifs"]] + [ans]


def step_texts(st, rid):
    return [msg_text(o, st["ascii"], st["spaced"]) for o in step_objects(st, rid)]


def cut(data, fracs):
    """Cut bytes at the given fractional positions (sorted, deduplicated)."""
    pos = sorted({min(len(data), max(0, int(f * (len(data) + 1)))) for f in fracs})
    out, prev = [], 0
    for p in pos:
        if p > prev:
            out.append(data[prev:p])
            prev = p
    if prev < len(data) or not out:
        out.append(data[prev:])
    return [c for c in out if c] or [b""]


# --------------------------------------------------------------------------- #
# Carrier runners.  `wire[k]` holds the pre-framed material of step k (made by the Coq Spec encoders).
# --------------------------------------------------------------------------- #
async def run_reference(conv, wire):
    """No carrier: the server's messages are put on a memory stream as the library's own parser makes them."""
    from chuk_mcp.protocol.messages.json_rpc_message import parse_message
    srv = Server(conv)
    in_send, in_recv = anyio.create_memory_object_stream(10000)
    out_send, out_recv = anyio.create_memory_object_stream(10000)
    log = []

    async def server():
        async for m in out_recv:
            d = m.model_dump(exclude_none=True) if hasattr(m, "model_dump") else m
            k = srv.on_client_message(d)
            if k is not None:
                for t in wire[k]["texts"]:
                    await in_send.send(parse_message(json.loads(t)))

    async with anyio.create_task_group() as tg:
        tg.start_soon(server)
        outcomes = await drive(in_recv, out_send, conv, log)
        tg.cancel_scope.cancel()
    return {"transcript": log, "outcomes": outcomes, "seen": srv.seen, "ids": srv.ids}


class _Stdin(FakeStdin):
    def __init__(self, cb):
        super().__init__()
        self.cb = cb
        self.buf = b""

    async def send(self, data):
        await super().send(data)
        self.buf += bytes(data)
        while b"\n" in self.buf:
            line, self.buf = self.buf.split(b"\n", 1)
            if line.strip():
                self.cb(line)


async def run_stdio(conv, wire):
    from chuk_mcp.transports.stdio.stdio_client import stdio_client
    from chuk_mcp.transports.stdio.parameters import StdioParameters
    srv = Server(conv)
    proc = FakeProcess()
    fed = []

    def on_line(line):
        try:
            payload = json.loads(line)
        except Exception:
            payload = {"<unparsable-line>": line[:80].decode("latin-1")}
        k = srv.on_client_message(payload)
        if k is not None:
            for ch in wire[k]["stdio_chunks"]:
                fed.append(ch)
                proc.stdout.feed(ch)

    proc.stdin = _Stdin(on_line)
    log = []
    with patched_open_process(proc):
        async with stdio_client(StdioParameters(command="fake-child", args=[])) as (r, w):
            outcomes = await drive(r, w, conv, log)
    return {"transcript": log, "outcomes": outcomes, "seen": srv.seen, "ids": srv.ids, "fed": fed}


class _Proxy:
    def __init__(self, cls):
        self.AsyncClient = cls

    def __getattr__(self, n):
        return getattr(_httpx, n)


ORIG_ASYNC_CLIENT = _httpx.AsyncClient


class _Paced(_httpx.AsyncByteStream):
    def __init__(self, chunks, pace):
        self.chunks, self.pace = chunks, pace

    async def __aiter__(self):
        for c in self.chunks:
            await asyncio.sleep(self.pace)
            yield c


async def run_http(conv, wire, mode):
    import chuk_mcp.transports.http.transport as T
    from chuk_mcp.transports.http.http_client import http_client
    from chuk_mcp.transports.http.parameters import StreamableHTTPParameters
    srv = Server(conv)

    def handler(request):
        try:
            payload = json.loads(request.content)
        except Exception:
            payload = {"<unparsable-body>": request.content[:80].decode("latin-1")}
        k = srv.on_client_message(payload)
        if k is None:
            return _httpx.Response(202, content=b"")
        m = mode if mode != "mixed" else wire[k]["http_mixed"]
        if m == "json":
            return _httpx.Response(200, headers={"content-type": "application/json"}, content=wire[k]["http_json"])
        if wire[k].get("http_pace"):
            # an answer that takes LONGER than the transport's timeout although no single pause comes near it
            body = wire[k]["http_sse"]
            n = max(1, len(body) // 6)
            return _httpx.Response(200, headers={"content-type": "text/event-stream"},
                                   stream=_Paced([body[i:i + n] for i in range(0, len(body), n)], wire[k]["http_pace"]))
        return _httpx.Response(200, headers={"content-type": "text/event-stream"}, content=wire[k]["http_sse"])

    class Scripted(ORIG_ASYNC_CLIENT):
        def __init__(self, *a, **kw):
            kw.pop("transport", None)
            super().__init__(*a, transport=_httpx.MockTransport(handler), **kw)

    saved = T.httpx
    T.httpx = _Proxy(Scripted)
    log = []
    try:
        async with http_client(StreamableHTTPParameters(url="http://mcp.test/mcp", timeout=conv.get("http_timeout", TIMEOUT))) as (r, w):
            outcomes = await drive(r, w, conv, log)
    finally:
        T.httpx = saved
    return {"transcript": log, "outcomes": outcomes, "seen": srv.seen, "ids": srv.ids}


class _LegacyTransport(_httpx.AsyncBaseTransport):
    def __init__(self, world, srv, wire, pushed):
        self.world, self.srv, self.wire, self.pushed = world, srv, wire, pushed

    async def handle_async_request(self, request):
        loop = asyncio.get_running_loop()
        w = self.world
        if request.method == "GET":
            w.push_at(loop.time(), ("event: endpoint\ndata: " + ENDPOINT + "\n\n").encode())
            return _httpx.Response(200, headers={"content-type": "text/event-stream"}, stream=c12_fake._SSEStream(w),
                                   request=request)
        try:
            payload = json.loads(request.content)
        except Exception:
            payload = {"<unparsable-body>": request.content[:80].decode("latin-1")}
        k = self.srv.on_client_message(payload)
        if k is None:
            return _httpx.Response(202, content=b"", request=request)
        wk = self.wire[k]
        # the event stream is ONE byte stream: this step's bytes go out after everything written for earlier steps
        # (a trailing blank line of the previous event may still be on its way when the client already sends again)
        t0 = max(loop.time(), getattr(w, "stream_tail", 0.0))
        chunks = wk["legacy_chunks"]
        for j, ch in enumerate(chunks):
            self.pushed.append(ch)
            w.push_at(t0 + 0.01 * (j + 1), ch)
        w.stream_tail = t0 + 0.01 * len(chunks)
        if wk["legacy_mode"] == "200":
            await asyncio.sleep(max(0.0, t0 - loop.time()) + 0.01 * (len(chunks) + 2))
            return _httpx.Response(wk.get("legacy_status") or 200, headers={"content-type": "application/json"},
                                   content=wk["legacy_post_body"], request=request)
        delay = max(0.0, t0 - loop.time()) + 0.01 * (len(chunks) + 1) * wk["ack"]
        if delay > 0:
            await asyncio.sleep(delay + 0.005)
        return _httpx.Response(202, content=b"", request=request)


async def run_legacy(conv, wire):
    import chuk_mcp.transports.sse.transport as tmod
    from chuk_mcp.transports.sse.sse_client import sse_client
    from chuk_mcp.transports.sse.parameters import SSEParameters
    srv = Server(conv)
    world = c12_fake.World({})
    pushed = []

    class Scripted(ORIG_ASYNC_CLIENT):
        def __init__(self, *a, **kw):
            kw.pop("transport", None)
            super().__init__(*a, transport=_LegacyTransport(world, srv, wire, pushed), **kw)

    shim = types.SimpleNamespace(**{k: getattr(_httpx, k) for k in dir(_httpx) if not k.startswith("__")})
    shim.AsyncClient = Scripted
    saved = tmod.httpx
    tmod.httpx = shim
    log = []
    try:
        async with sse_client(SSEParameters(url=BASE, timeout=TIMEOUT)) as (r, w):
            outcomes = await drive(r, w, conv, log)
    finally:
        tmod.httpx = saved
    return {"transcript": log, "outcomes": outcomes, "seen": srv.seen, "ids": srv.ids, "pushed": pushed}


def run_carrier(name, conv, wire):
    """One carrier, one conversation, on a fresh virtual-clock loop with a fresh id counter."""
    saved = uuid.uuid4
    uuid.uuid4 = _Counter()
    try:
        async def main():
            if name == "reference":
                return await run_reference(conv, wire)
            if name == "stdio":
                return await run_stdio(conv, wire)
            if name == "http-json":
                return await run_http(conv, wire, "json")
            if name == "http-sse":
                return await run_http(conv, wire, "sse")
            if name == "http-mixed":
                return await run_http(conv, wire, "mixed")
            if name == "legacy-sse":
                return await run_legacy(conv, wire)
            raise lib.HarnessError(name)
        try:
            return vrun(main)
        except BaseException as e:  # a carrier that blows up is an observation, not a harness error
            if isinstance(e, (KeyboardInterrupt, SystemExit)):
                raise
            return {"transcript": [], "outcomes": [{"outcome": "carrier-crashed", "class": type(e).__name__}], "seen": [],
                    "ids": [], "crash": repr(e)[:300]}
    finally:
        uuid.uuid4 = saved


# --------------------------------------------------------------------------- #
# Wire material from the Coq Spec encoders
# --------------------------------------------------------------------------- #
def sx_choice(c):
    before, after, ev, space, crlf, blanks = c
    ex = lambda l: "(" + " ".join(f"({k} {sx(v)})" for k, v in l) + ")"   # noqa: E731
    return f"({ex(before)} {ex(after)} {ev} {sx(space)} {sx(crlf)} {blanks})"


def sx_lchoice(c):
    comments, space, crlf, blanks = c
    return f"(({' '.join(sx(x) for x in comments)}) {sx(space)} {sx(crlf)} {blanks})"


def pairs(choices, texts, enc):
    return "(" + " ".join(f"({enc(c)} {sx(t)})" for c, t in zip(choices, texts)) + ")"


def to_text(res):
    return "".join(chr(c) for c in res)


def wire_requests(conv, ids):
    """Requests that frame every step for every carrier with the step's encoding choices (extracted Spec encoders)."""
    reqs, index = [], []
    for k, st in enumerate(conv["steps"]):
        texts = step_texts(st, ids[k])
        e = st["enc"]
        reqs.append(call(1, pairs(e["stdio_crlf"], texts, sx)))
        reqs.append(call(2, pairs(e["sse"], texts, sx_choice)))
        stream_texts = texts if e["legacy_mode"] == "202" else texts[:-1]
        reqs.append(call(3, pairs(e["legacy"], stream_texts, sx_lchoice)))
        reqs.append(call(4, "(" + " ".join(sx(t) for t in texts[:-1]) + ")", sx(texts[-1])))
        reqs.extend(call(5, sx(t)) for t in texts)
        index.append((texts, len(texts)))
    return reqs, index


def wire_of(conv, index, res):
    wire, i = [], 0
    for k, st in enumerate(conv["steps"]):
        texts, n = index[k]
        e = st["enc"]
        stdio = bytes(res[i])
        sse = to_text(res[i + 1]).encode("utf-8")
        legacy = to_text(res[i + 2]).encode("utf-8")
        if e.get("legacy_untyped"):
            # the legacy server writes its messages as bare `data:` events (no event field): legal, and documented for this carrier
            import re as _re
            legacy = _re.sub(rb"(?m)^event:[ ]?message\r?\n", b"", legacy)
        body = to_text(res[i + 3]).encode("utf-8")
        oks = [bool(x) for x in res[i + 4:i + 4 + n]]
        i += 4 + n
        wire.append({"texts": texts, "msg_ok": oks,
                     "stdio_chunks": cut(stdio, e["cuts"]),
                     "http_json": body, "http_sse": sse, "http_mixed": "json" if (k % 2 == 0) else "sse",
                     "legacy_chunks": cut(legacy, e["cuts"]) if legacy else [],
                     "legacy_mode": e["legacy_mode"], "legacy_status": e.get("legacy_status"), "legacy_post_body": texts[-1].encode("utf-8"), "ack": e["ack"],
                     "http_pace": e.get("http_pace")})
    return wire


def incremental_text_chunks(chunks):
    """What httpx's aiter_text() yields for these byte chunks (incremental UTF-8 decoding)."""
    dec = codecs.getincrementaldecoder("utf-8")(errors="replace")
    out = []
    for ch in chunks:
        t = dec.decode(ch)
        if t:
            out.append(t)
    t = dec.decode(b"", True)
    if t:
        out.append(t)
    return out


# --------------------------------------------------------------------------- #
# Judgement
# --------------------------------------------------------------------------- #
def canonical_entries(conv, ids, wire):
    out = []
    for k, st in enumerate(conv["steps"]):
        if k >= len(ids):
            break
        for t in wire[k]["texts"]:
            d = json.loads(t)
            out.append(sort_json({kk: v for kk, v in d.items() if v is not None}))
    return out


def classify(name, canon, got, what):
    if what != "transcript":
        return f"{name}:{what}-differs"
    if len(got) < len(canon):
        missing = [c for c in canon if c not in got]
        kind = "response" if any("method" not in m for m in missing) else "notification"
        return f"{name}:lost-{kind}"
    if len(got) > len(canon):
        return f"{name}:extra-message"
    key = lambda m: json.dumps(m, sort_keys=True)   # noqa: E731
    if sorted(map(key, got)) == sorted(map(key, canon)):
        return f"{name}:reordered"
    for a, b in zip(canon, got):
        if a != b:
            if a.get("id") != b.get("id") or type(a.get("id")) is not type(b.get("id")):
                return f"{name}:id-altered"
            return f"{name}:payload-altered"
    return f"{name}:differs"


def judge_request(canon, ref, runs):
    """Spec oracle: the extracted agree_ok on (transcript ++ outcomes ++ outbound) of every carrier against the canonical
    transcript and the reference run's outcomes / outbound."""
    names = list(runs)
    want = canon + [{"outcomes": ref["outcomes"]}, {"seen": ref["seen"]}]
    obs = [runs[n]["transcript"] + [{"outcomes": runs[n]["outcomes"]}, {"seen": runs[n]["seen"]}] for n in names]
    return call(20, "(" + " ".join(js_sx(x) for x in want) + ")",
                "(" + " ".join("(" + " ".join(js_sx(x) for x in o) + ")" for o in obs) + ")")


def judge_result(ctx, res, case, canon, ref, runs):
    ok, first = res
    ctx.spec_total += 1
    if ok:
        return True
    before = len(ctx.spec_fail)
    non_object = any("result" in st["answer"] and not isinstance(st["answer"]["result"], dict)
                     for st in case["conversation"]["steps"])
    for n in runs:
        r = runs[n]
        if non_object and n != "stdio" and (r["transcript"] != canon or r["outcomes"] != ref["outcomes"]):
            # C15_decoders_agree_on_every_valid_message_refuted: the unified message class refuses a non-object result
            ctx.spec_violation("non-object-result-delivered-by-stdio-only", case,
                               {"carrier": n, "canonical": canon[:8], "observed": r["transcript"][:8],
                                "reference_outcomes": ref["outcomes"], "outcomes": r["outcomes"]})
        elif r["transcript"] != canon:
            ctx.spec_violation(classify(n, canon, r["transcript"], "transcript"), case,
                               {"carrier": n, "canonical": canon[:8], "observed": r["transcript"][:8], "crash": r.get("crash")})
        elif r["outcomes"] != ref["outcomes"]:
            ctx.spec_violation(classify(n, None, None, "helper-outcome"), case,
                               {"carrier": n, "reference": ref["outcomes"], "observed": r["outcomes"]})
        elif r["seen"] != ref["seen"]:
            ctx.spec_violation(classify(n, None, None, "outbound"), case,
                               {"carrier": n, "reference": ref["seen"][:8], "observed": r["seen"][:8]})
    if len(ctx.spec_fail) == before:
        ctx.spec_violation("checker-and-python-disagree", case, {"first_differing": first})
    return False


def model_requests(wire, runs):
    """Correspondence: the extracted receive paths on the very bytes the real carriers were fed."""
    reqs = []
    st_chunks = runs["stdio"].get("fed", [])
    reqs.append(call(10, "(" + " ".join(sx(c) for c in st_chunks) + ")"))
    for w in wire:
        reqs.append(call(11, sx(w["http_sse"].decode("utf-8"))))
    pushed = runs["legacy-sse"].get("pushed", [])
    reqs.append(call(12, sx(BASE), sx(BASE + ENDPOINT), "(" + " ".join(sx(t) for t in incremental_text_chunks(pushed)) + ")"))
    n_l = len(runs["legacy-sse"]["ids"])
    steps, tok, want_tokens = [], 0, []
    for k, w in enumerate(wire[:n_l]):
        rid = runs["legacy-sse"]["ids"][k]
        sid = f"(0 {rid})" if isinstance(rid, int) and not isinstance(rid, bool) else f"(1 {sx(str(rid))})"
        notifs = []
        for _ in w["texts"][:-1]:
            tok += 1
            notifs.append(f"(() 1 {tok})")
            want_tokens.append(tok)
        tok += 1
        want_tokens.append(tok)
        n_ev = len(notifs) + 1
        mode = "()" if w["legacy_mode"] == "200" else f"({int(w['ack'] * (n_ev + 1))})"
        steps.append(f"({sid} ({' '.join(notifs)}) (({sid}) 0 {tok}) {mode})")
    reqs.append(call(13, "(" + " ".join(steps) + ")"))
    return reqs, want_tokens


def model_result(ctx, res, want_tokens, case, wire, runs):
    n_steps_run = len(runs["stdio"]["ids"])
    m_stdio = [to_text(t) for t in res[0]]
    want_stdio = [t for w in wire[:n_steps_run] for t in w["texts"]]
    ctx.corr_total += 1
    if m_stdio != want_stdio:
        ctx.mismatch(case, {"fed_texts": want_stdio[:6]}, {"model_texts": m_stdio[:6]}, "stdio: model receive path != server's message texts")
    got = [json.loads(t) for t in m_stdio]
    if [sort_json({k: v for k, v in d.items() if v is not None}) for d in got] != runs["stdio"]["transcript"]:
        ctx.mismatch(case, runs["stdio"]["transcript"][:6], m_stdio[:6], "stdio: delivered messages != decoded model texts")
    for k, w in enumerate(wire):
        m_sse = [to_text(t) for t in res[1 + k]]
        ctx.corr_total += 1
        if m_sse != w["texts"]:
            ctx.mismatch(case, w["texts"][:6], m_sse[:6], "http-sse: model receive path != server's message texts")
    m_leg = [to_text(t) for t in res[1 + len(wire)]]
    n_l = len(runs["legacy-sse"]["ids"])
    want_leg = [t for w in wire[:n_l] for t in (w["texts"] if w["legacy_mode"] == "202" else w["texts"][:-1])]
    ctx.corr_total += 1
    if m_leg != want_leg:
        ctx.mismatch(case, want_leg[:6], m_leg[:6], "legacy-sse: model stream parser != server's message texts")
    if not all(all(w["msg_ok"]) for w in wire):
        raise lib.HarnessError("generator produced a message text outside msg_ok")
    got_tokens = res[2 + len(wire)]
    ctx.corr_total += 1
    if list(got_tokens) != want_tokens:
        ctx.mismatch(case, want_tokens, list(got_tokens), "legacy-sse: order model != server order")


def run_cases(ctx, drv, items, carriers=None):
    """items: [(conversation, what)].  Three phases so that the extracted driver is started twice per batch, not four
    times per case: frame everything (Spec encoders) -> run the real carriers -> judge + model receive paths."""
    carriers = carriers or CARRIERS + ["http-mixed"]
    prep, reqs = [], []
    for conv, what in items:
        ids0 = dry_ids(conv)
        r, index = wire_requests(conv, ids0)
        prep.append((conv, what, ids0, index, len(reqs), len(r)))
        reqs.extend(r)
    res = drv.run(reqs) if reqs else []
    done, reqs2 = [], []
    for conv, what, ids0, index, off, n in prep:
        case = {"conversation": conv, "what": what}
        wire = wire_of(conv, index, res[off:off + n])
        ref = run_carrier("reference", conv, wire)
        if ref["ids"] != ids0[:len(ref["ids"])]:
            raise lib.HarnessError(f"id prediction failed: {ref['ids']} vs {ids0}")
        canon = canonical_entries(conv, ref["ids"], wire)
        runs = {n_: run_carrier(n_, conv, wire) for n_ in carriers}
        ctx.case(case, nontrivial=True)
        for st in conv["steps"]:
            ctx.count("call:" + st["call"]["kind"])
            ctx.count(f"notifs:{len(st['notifs'])}")
            ctx.count("answer:" + ("error" if "error" in st["answer"] else "result"))
            ctx.count("legacy-mode:" + st["enc"]["legacy_mode"])
            ctx.count(f"cuts:{len(st['enc']['cuts'])}")
        ctx.count(f"steps:{len(conv['steps'])}")
        if ref["transcript"] != canon:
            ctx.spec_violation("reference:parse_message-alters-message", case, {"canonical": canon[:8], "observed": ref["transcript"][:8]})
        jr = judge_request(canon, ref, runs)
        mr, want_tokens = model_requests(wire, runs) if ("stdio" in runs and "legacy-sse" in runs) else ([], [])
        done.append((case, canon, ref, runs, wire, want_tokens, len(reqs2), len(mr)))
        reqs2.append(jr)
        reqs2.extend(mr)
    res2 = drv.run(reqs2) if reqs2 else []
    all_ok = True
    for case, canon, ref, runs, wire, want_tokens, off, nm in done:
        ok = judge_result(ctx, res2[off], case, canon, ref, runs)
        all_ok = all_ok and ok
        if nm:
            model_result(ctx, res2[off + 1:off + 1 + nm], want_tokens, case, wire, runs)
    return all_ok


def run_case(ctx, drv, conv, carriers=None, what="generated"):
    return run_cases(ctx, drv, [(conv, what)], carriers)


def dry_ids(conv):
    """The ids the client will use: caller-chosen ones as given, generated ones from the uuid counter (one uuid4 per
    generated id, in order)."""
    ids, n = [], 0
    for st in conv["steps"]:
        c = st["call"]
        if c["kind"] == "raw" and c.get("id"):      # send_message: `message_id or str(uuid.uuid4())`
            ids.append(c["id"])
        else:
            n += 1
            ids.append(str(uuid.UUID(int=n)))
    return ids


# --------------------------------------------------------------------------- #
def explore(ctx, drv):
    rng = ctx.rng
    items = []      # (corpus cases are replayed by harness/main.py before run())
    n = ctx.budget(250, 8000)
    for i in range(n):
        items.append((gen_conversation(rng, rng.choice([1, 2, 3, 4, 6]), with_init=rng.random() < 0.7), "generated"))
    # every call kind x every notification count x both legacy modes, systematically
    for kind in ["initialize", "ping", "tools_list", "tools_call", "resources_read", "prompts_get", "raw"]:
        for nn in (0, 1, 2, 3):
            for mode in ("200", "202"):
                st = gen_step(rng, kind)
                st["notifs"] = [gen_notif(rng) for _ in range(nn)]
                st["enc"] = gen_enc(rng, nn + 1)
                st["enc"]["legacy_mode"] = mode
                items.append(({"steps": [st]}, "systematic"))
    # every caller-chosen id shape
    for rid in RAW_IDS:
        st = gen_step(rng, "raw")
        st["call"]["id"] = rid
        st["enc"] = gen_enc(rng, len(st["notifs"]) + 1)
        items.append(({"steps": [st]}, "id-shape"))
    # a LONG session: more notifications than any bounded side buffer of a carrier holds (the stdio client keeps a
    # 100-entry notification stream that callers of stdio_client() never see, let alone drain)
    for n_steps in (36, 60):
        conv = gen_conversation(rng, n_steps, with_init=True)
        for st in conv["steps"]:
            st["notifs"] = [gen_notif(rng) for _ in range(3)]
            st["enc"] = gen_enc(rng, 4)
        items.append((conv, "long-session"))
    # integers outside the 64-bit range, one per message and nothing else with 19+ digits beside it: every carrier decodes
    # the same digits (the carriers use DIFFERENT JSON decoders: fast_json for stdio and the event streams, httpx for JSON bodies)
    for big in (-(2 ** 63) - 1, -9999999999999999999, 2 ** 64, 10 ** 30, -(10 ** 30), 2 ** 63, -(2 ** 63)):
        for mode in ("200", "202"):
            st = gen_step(rng, "raw")
            st["call"]["id"] = "wide"
            st["notifs"] = []
            st["answer"] = {"result": {"n": big, "l": [big, {"k": big}]}}
            st["enc"] = gen_enc(rng, 1)
            st["enc"]["legacy_mode"] = mode
            items.append(({"steps": [st]}, "wide-integer"))
    # a long-running call: the Streamable HTTP answer streams three notifications and the result over MORE than the transport's
    # timeout, every pause well below it (the timeout limits silence, not the length of an answer)
    for kind in ("tools_call", "raw"):
        st = gen_step(rng, kind)
        st["notifs"] = [gen_notif(rng) for _ in range(3)]
        st["enc"] = gen_enc(rng, 4)
        st["enc"]["http_pace"] = 0.4                 # ~7 writes: about 3 s, the caller waits up to TIMEOUT (5 s)
        items.append(({"steps": [st], "http_timeout": 1.5}, "answer-longer-than-the-transport-timeout"))
    # the legacy server turns a request down AT ITS POST ENDPOINT: the JSON-RPC error response is the body of a 4xx/5xx answer
    # (same message, same id; the other carriers deliver it their usual way), for every id shape a caller may choose
    for rid in ["a", "007", 7, 0, -3, 2 ** 31]:
        for status, err in ((404, {"code": -32002, "message": "Resource not found"}), (400, {"code": -32602, "message": "Invalid params", "data": {"p": 1}}),
                            (500, {"code": -32603, "message": "Internal error"})):
            st = gen_step(rng, "raw")
            st["call"]["id"] = rid
            st["notifs"] = []
            st["answer"] = {"error": err}
            st["enc"] = gen_enc(rng, 1)
            st["enc"]["legacy_mode"] = "200"
            st["enc"]["legacy_status"] = status
            items.append(({"steps": [st]}, "turned-down-at-the-post-endpoint"))
    # a request of the SERVER's own (ping, roots/list) bearing the id of the client's request in flight, sent before the answer:
    # every carrier delivers both, and the helper still gets its answer
    for kind, rid in (("raw", "a"), ("raw", 7), ("raw", "7"), ("tools_call", None), ("ping", None)):
        for mode in ("200", "202"):
            for lead in (0, 1):
                st = gen_step(rng, kind)
                if rid is not None:
                    st["call"]["id"] = rid
                st["notifs"] = [gen_notif(rng) for _ in range(lead)] + \
                    [{"jsonrpc": "2.0", "id": "$rid", "method": rng.choice(["ping", "roots/list"])}]
                if "error" in st["answer"]:
                    st["answer"] = {"result": {"ok": True, "s": "é"}}
                st["enc"] = gen_enc(rng, len(st["notifs"]) + 1)
                st["enc"]["legacy_mode"] = mode
                items.append(({"steps": [st]}, "server-request-with-the-pending-id"))
    # payloads that MENTION endpoint-like paths ("/mcp", "/messages/"), with the legacy server naming its events or not
    for untyped in (False, True):
        for mode in ("200", "202"):
            st = gen_step(rng, "raw")
            st["call"]["id"] = "paths"
            st["notifs"] = [{"jsonrpc": "2.0", "method": "notifications/message",
                             "params": {"level": "info", "data": {"file": "/srv/mcp/tools.py"}, "logger": "x"}}]
            st["answer"] = {"result": {"uri": "file:///srv/mcp/x", "u": "http://host/messages/?session=1", "p": "/mcp"}}
            st["enc"] = gen_enc(rng, 2)
            st["enc"]["legacy_mode"] = mode
            st["enc"]["legacy_untyped"] = untyped
            items.append(({"steps": [st]}, "endpoint-like-paths-in-payload"))
    # valid JSON-RPC outside MCP: a result that is not a JSON object (the refuted half of C15_decoders_agree)
    for res_ in (None, 5, "s", [1, None], True):
        st = gen_step(rng, "raw")
        st["answer"] = {"result": res_}
        st["enc"] = gen_enc(rng, len(st["notifs"]) + 1)
        items.append(({"steps": [st]}, "non-object-result"))
    for i in range(0, len(items), 100):
        run_cases(ctx, drv, items[i:i + 100])


def run(ctx):
    lib.standard_obligations(ctx, GEN, TARGETS)
    drv = lib.Driver(PID)
    if ctx.broken_obligations:
        ctx.escalated = True
    explore(ctx, drv)
    if ctx.corr_mismatch and not ctx.escalated and not ctx.spec_fail:
        ctx.escalated = True
        explore(ctx, drv)
    if ctx.thorough:
        lib.coqchk(ctx, PID)
    ctx.rule = ("a case = one generated conversation (0-1 initialize + 1-6 calls over 7 helper kinds; 0-3 notifications before each response; "
                "results with nested Unicode/nulls/large ints/floats, errors of 14 codes with/without data; caller-chosen ids of 14 shapes or "
                "generated ids) with per-message encoding choices per carrier and 0-5 chunk cuts, run over reference + 5 carrier variants; "
                "distinct = hash of the whole case; plus the systematic grid (7 kinds x 0-3 notifications x both legacy modes) and every id shape")
    return lib.finish(ctx, TRUSTED, ASSUME)


def replay(ctx, data):
    if ctx.replay:                      # an explicit --replay; corpus replays run inside a normal check
        lib.standard_obligations(ctx, GEN, TARGETS)
    drv = lib.Driver(PID)
    conv = data["case"]["conversation"]
    ok = run_case(ctx, drv, conv, what="replay")
    for f in ctx.spec_fail:
        print("still failing:", f["class"])
    for m in ctx.corr_mismatch:
        print("disagreement:", m["what"])
    return 0 if (ok and not ctx.corr_mismatch) else 1

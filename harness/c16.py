"""C16 — stdio client shutdown is bounded and leaves no child process behind."""
from __future__ import annotations

import json
import math
import os
import subprocess
import tempfile
import time

import lib
from lib import sx, sxo, call

META = {
    "level": "PARTIAL. Proof over a hand-written model of StdioClient.__aexit__ / _terminate_process / the stdio_client wrapper as a "
             "state machine over a child-behaviour oracle (reaction delays to stdin-EOF, SIGTERM, SIGKILL incl. 'never'; already "
             "dead; flooding): for ALL oracles and all six exit paths (normal, body exception, anyio scope cancel/timeout, asyncio "
             "task cancel/timeout) leaving takes at most the two grace periods regenerated from the code (each <= the pinned one "
             "second); under the stated hypothesis 'SIGKILL ends the child within the second grace period' the child is reaped and "
             "no pipe end stays open on every path; signals are none/TERM/TERM+KILL with KILL only after the whole first period; a "
             "request pending while the child dies returns only a result the child really wrote before dying (composition with the "
             "send_message model), else raises/times out; a command that cannot be started makes entering raise, also through the "
             "wrapper's exception filter. The model is tied to the real code by running REAL child processes (16 behaviours x 6 exit "
             "paths x 3 moments x 3 entry points) and observing /proc, wall time, /proc/self/fd and the pending request.",
    "note": "PARTIAL: zombies, descriptors, signal delivery and reaping are OS / asyncio behaviour - outside the model; the model "
            "carries the protocol logic and the tie observes the OS on the sampled matrix only. The main model is the code WITH "
            "fixes/C16-*.patch (variant VShieldClose); History/C16_prefix.v refutes the reaping and descriptor clauses for the code "
            "before the patches. Trusted: Coq kernel, the AST translator plugin for the two grace periods, extraction "
            "(ExtrOcamlBasic only), the harness (child scripts, recorder around anyio.open_process/Process.terminate/kill, "
            "wall-clock classes with 0.75 s slack, one retry before believing a leak or a timeout). Not covered: cancellation "
            "while ENTERING the context, Windows, stdio_client_with_initialize's handshake.",
    "technique": "Coq proof (case analysis over the protocol's wait outcomes + linear arithmetic over all reaction delays; reuse of the "
                 "C01 send_message theorem through a filtered arrival history) + differential correspondence against real child processes",
    "design_ref": "DESIGN.md section 6 (C16)",
}
GEN = ["ShutdownGen.v"]
TARGETS = ["Gen/ShutdownGen", "Model/Shutdown", "Spec/C16", "Proofs/Shutdown", "History/C16_prefix", "Props/C16"]
TRUSTED = [
    "Coq 8.16.1 kernel (coqc); coqchk re-check in the thorough tier; vm_compute only in the non-vacuity example and the History witnesses",
    "axioms: none (every C16 theorem prints 'Closed under the global context')",
    "translator plugin harness/translate_c16.py: the terminate / fail_after(g1) / wait / kill / fail_after(g2) / wait skeleton of "
    "_terminate_process is matched fail-closed and the two literals are regenerated into Gen/ShutdownGen.v",
    "hand-written model Model/Shutdown.v (variant family: HEAD before the patches / + shield / + pipe closing), tied by the "
    "correspondence run; which variant the code under test behaves like is measured per run and recorded (code_variant)",
    "section-style hypotheses made explicit in the theorems: 'SIGKILL ends the child within the second grace period' (C16_reaped, "
    "C16_exit_meets_spec); 0 < poll (pending request)",
    "harness: real child processes (harness/c16_child.py), recorder wrapped around anyio.open_process and the asyncio backend's "
    "Process.terminate/kill/send_signal, /proc/<pid>/stat, len(/proc/self/fd), wall-clock duration classes (bound + 0.75 s slack)",
    "extraction: ExtrOcamlBasic only; ocaml/main.ml text<->sexp",
    "modelled, not verified: the kernel's signal/pipe/process semantics, asyncio's child watcher and pipe transports (a write "
    "transport closes when its peer is gone, a paused read transport never sees EOF), anyio cancel scopes and task groups, CPython",
]
ASSUME = [
    "SIGKILL ends the child within the second grace period (hypothesis of C16_reaped / C16_exit_meets_spec; true of every scripted child)",
    "no exact ties: scripted reaction delays are never within 0.2 s of a grace period",
    "wall-clock observations: a duration counts as 'model + d' when -0.10 s <= d <= 0.75 s; a disagreement or leak is believed only "
    "if it repeats on a second run of the same scenario in a fresh worker",
]

_orig_load = lib.load_findings


def _load_findings(pid):
    """known_findings.json (shared, maintained by the lead) + findings_C16.json (this property's proposals)."""
    out = _orig_load(pid)
    p = os.path.join(lib.VERIF, "findings_C16.json")
    if pid == "C16" and os.path.exists(p):
        for e in json.load(open(p, encoding="utf-8")).get("findings", []):
            if e.get("property") == pid and e.get("status") == "known":
                out.setdefault(e["class"], e)
    return out


lib.load_findings = _load_findings

HERE = os.path.dirname(os.path.abspath(__file__))
PATHS = ["normal", "exception", "cancel_scope", "timeout_scope", "cancel_task", "timeout_task"]
LEVEL = ("cancel_scope", "timeout_scope")
MOMENTS = ["before", "inflight", "after"]
ENTRIES = ["stdio_client", "StdioClient", "StdioTransport"]
MODES = ["well", "exit_start", "exit_ready", "exit_recv", "exit_sent", "ignore_term", "term_slow", "eof_only", "never_reads",
         "never_reads_ign", "floods", "floods_ign", "closes_stdout", "closes_stdin", "closes_both_ign", "slow_start"]
SERVING = {"well", "exit_sent", "ignore_term", "term_slow", "eof_only", "slow_start"}   # answer a ping while alive
VARIANTS = {0: "VHead (before fixes/C16-*.patch)", 1: "VShield (first patch only)", 2: "VShieldClose (both patches)"}
LOW_SLACK, HIGH_SLACK = 0.10, 0.75
REQ_TIMEOUT = 0.6


# --------------------------------------------------------------------------- #
# scenario -> model input
# --------------------------------------------------------------------------- #
def dies_on_its_own(sc):
    m, mo = sc["mode"], sc["moment"]
    return m in ("exit_start", "exit_ready") or (m in ("exit_recv", "exit_sent") and mo in ("inflight", "after"))


def model_child(sc):
    """The oracle the scripted child implements: (dead, eof?, term?, kill?, floods); delays in ticks."""
    m = sc["mode"]
    d = int(round(sc.get("delay", 0.0) * 100))
    k = 0
    if dies_on_its_own(sc):
        return (True, None, None, k, False)
    if m in ("well", "exit_recv", "exit_sent", "closes_stdout"):
        return (False, 0, 0, k, False)
    if m == "exit_ready":
        return (True, None, None, k, False)
    if m in ("ignore_term", "never_reads_ign", "closes_both_ign"):
        return (False, None, None, k, False)
    if m == "term_slow":
        return (False, None, d, k, False)
    if m == "eof_only":
        return (False, d, None, k, False)
    if m in ("never_reads", "closes_stdin"):
        return (False, None, 0, k, False)
    if m == "floods":
        return (False, None, 0, k, True)
    if m == "floods_ign":
        return (False, None, None, k, True)
    if m == "slow_start":
        if sc["wait_ready"]:
            return (False, 0, 0, k, False)
        return (False, None, 0, k, False)      # still starting: default SIGTERM action, not reading
    raise lib.HarnessError("no model child for mode " + m)


def sx_child(c):
    dead, eof, term, kill, floods = c
    return "(%s %s %s %s %s)" % (sx(bool(dead)), sxo(eof), sxo(term), sxo(kill), sx(bool(floods)))


def make_scenario(idx, mode, path, moment, entry, delay=None):
    sc = {"idx": idx, "kind": "exit", "mode": mode, "path": path, "moment": moment, "entry": entry,
          "tok": 7000 + idx, "req_timeout": REQ_TIMEOUT}
    if mode in ("term_slow", "eof_only"):
        sc["delay"] = 0.3 if delay is None else delay
    elif mode == "slow_start":
        sc["delay"] = 0.5
    else:
        sc["delay"] = 0.0
    sc["wait_ready"] = not (mode == "exit_start" or (mode == "slow_start" and moment == "before"))
    sc["bg_method"] = "ping" if mode in ("exit_recv", "exit_sent") else "hang"
    sc["wait_death"] = dies_on_its_own(sc)
    return sc


def case_of(sc):
    c = {k: sc[k] for k in ("mode", "path", "moment", "entry", "delay")}
    for k in ("backlog", "burst", "reuse", "enter_deadline", "polls", "stall"):
        if sc.get(k):
            c[k] = sc[k]
    return c


def gen_scenarios(ctx):
    rng = ctx.rng
    out = []
    full = ctx.thorough or ctx.escalated
    for mode in MODES:
        for path in PATHS:
            for moment in MOMENTS:
                entries = ENTRIES if full else [rng.choice(ENTRIES)]
                for entry in entries:
                    out.append((mode, path, moment, entry, None))
    # reaction delays on both sides of the first grace period
    delays = [0.6, 1.3] if full else [1.3]
    for mode in ("term_slow", "eof_only"):
        for path in PATHS:
            for d in delays:
                out.append((mode, path, rng.choice(MOMENTS), rng.choice(ENTRIES), d))
    scs = [make_scenario(i, *t) for i, t in enumerate(out)]
    # a backlog of outgoing data (60 x 16 KiB: more than the pipe and the transport buffers hold) towards a child that does
    # not read: the writer task is blocked inside process.stdin.send() when the context is left
    for mode in ("never_reads", "never_reads_ign"):
        for path in PATHS:
            for entry in (ENTRIES if mode == "never_reads" else [rng.choice(ENTRIES)]):
                sc = make_scenario(len(scs), mode, path, "before", entry)
                sc["backlog"] = 60
                scs.append(sc)
    # the cancellation arrives while a burst the application has just sent is still in the outgoing queue
    for path in PATHS:
        if path in ("normal", "exception"):
            continue
        for entry in ENTRIES:
            sc = make_scenario(len(scs), "well", path, "before", entry)
            sc["burst"] = 20
            scs.append(sc)
    # the cancellation / deadline expires WHILE the context is being entered (2 .. 90 ms after the call)
    for path in PATHS:
        if path in ("normal", "exception"):
            continue
        for entry in ENTRIES:
            for d in (0.002, 0.02, 0.045, 0.09):
                sc = make_scenario(len(scs), "well", path, "before", entry)
                sc["enter_deadline"] = d
                scs.append(sc)
    # the client keeps sending on a connection whose child has died: 130 further requests (more than the outgoing queue holds)
    for mode, moment in (("exit_ready", "before"), ("exit_recv", "after")):
        for path in ("normal", "cancel_scope"):
            sc = make_scenario(len(scs), mode, path, moment, rng.choice(ENTRIES))
            sc["polls"] = 130
            scs.append(sc)
    # the host's event loop stalls for 3 s, from 0.3 s into the exit (inside the first grace period) to after BOTH grace
    # periods would have ended: the exit may take the stall longer, but the child is still terminated, killed and reaped
    for mode in ("ignore_term", "well", "never_reads_ign"):
        for path in ("normal", "cancel_scope", "timeout_task"):
            if path not in PATHS:
                continue
            sc = make_scenario(len(scs), mode, path, "before", rng.choice(ENTRIES))
            sc["stall"] = [0.3, 3.0]
            scs.append(sc)
    # the same StdioClient object used for a second conversation
    for mode in ("well", "ignore_term", "floods"):
        for path in ("normal", "cancel_scope"):
            sc = make_scenario(len(scs), mode, path, "before", "StdioClient")
            sc["reuse"] = True
            scs.append(sc)
    return scs


_HELD_OPEN = []
SPAWN_KINDS = ["missing", "missing-cancel-scope-in-path", "not-executable", "directory", "garbage-executable", "empty-command",
               # a missing file whose NAME suggests an interpreter (a launcher that wraps such commands must still fail to enter)
               "missing-script.py", "missing-script.pyw", "missing-script-in-missing-dir.py", "missing-script.sh", "missing-script.js",
               "not-executable-script.py",
               # an executable that is being written at this moment (an installer has it open): execve fails with ETXTBSY
               "text-file-busy"]


def gen_spawn(tmpdir, start):
    out = []
    cs = os.path.join(tmpdir, "cancel scope")
    os.makedirs(cs, exist_ok=True)
    nx = os.path.join(tmpdir, "plain.txt")
    with open(nx, "w") as f:
        f.write("#!/bin/sh\nexit 0\n")
    os.chmod(nx, 0o600)
    garbage = os.path.join(tmpdir, "garbage.bin")
    with open(garbage, "wb") as f:
        f.write(b"\x00\x01\x02 not an executable format\n")
    os.chmod(garbage, 0o700)
    cmds = {"missing": os.path.join(tmpdir, "no-such-command"),
            "missing-cancel-scope-in-path": os.path.join(cs, "no-such-command"),
            "not-executable": nx, "directory": tmpdir, "garbage-executable": garbage, "empty-command": "",
            "missing-script.py": os.path.join(tmpdir, "no_such_server.py"), "missing-script.pyw": os.path.join(tmpdir, "no_such_server.pyw"),
            "missing-script-in-missing-dir.py": os.path.join(tmpdir, "no-such-dir", "server.py"),
            "missing-script.sh": os.path.join(tmpdir, "no_such_server.sh"), "missing-script.js": os.path.join(tmpdir, "no_such_server.js")}
    # a Python source file that exists but is not executable (no x bit): the command as configured cannot be started
    nxpy = os.path.join(tmpdir, "plain_server.py")
    with open(nxpy, "w") as f:
        f.write("import sys\nsys.exit(0)\n")
    os.chmod(nxpy, 0o600)
    cmds["not-executable-script.py"] = nxpy
    busy = os.path.join(tmpdir, "server-being-installed.sh")
    with open(busy, "w") as f:
        f.write("#!/bin/sh\nexec cat\n")
    os.chmod(busy, 0o700)
    _HELD_OPEN.append(open(busy, "a"))          # held open for writing by THIS process while the workers try to start it
    # only where the operating system really refuses to execute a file that is open for writing (not every kernel does):
    # otherwise the command is startable and does not belong among the unstartable ones
    try:
        subprocess.run([busy], stdin=subprocess.DEVNULL, stdout=subprocess.DEVNULL, stderr=subprocess.DEVNULL, timeout=5)
    except OSError:
        cmds["text-file-busy"] = busy
    except subprocess.TimeoutExpired:
        pass
    i = start
    for kind in SPAWN_KINDS:
        if kind not in cmds:
            continue
        for entry in ENTRIES:
            out.append({"idx": i, "kind": "spawn", "spawn": kind, "command": cmds[kind], "entry": entry})
            i += 1
    return out


# --------------------------------------------------------------------------- #
# running the real code
# --------------------------------------------------------------------------- #
def run_workers(scenarios, n_workers):
    """Distribute scenarios over worker processes (longest expected first, round robin); returns {idx: result}."""
    if not scenarios:
        return {}

    def cost(sc):
        if sc.get("kind") == "spawn":
            return 0.1
        c = 0.6
        if sc["mode"] in ("ignore_term", "never_reads_ign", "floods_ign", "closes_both_ign", "eof_only", "term_slow"):
            c += 1.0
        if sc["moment"] != "before":
            c += REQ_TIMEOUT
        return c

    order = sorted(scenarios, key=cost, reverse=True)
    n = max(1, min(n_workers, len(order)))
    buckets = [[] for _ in range(n)]
    loads = [0.0] * n
    for sc in order:
        j = loads.index(min(loads))
        buckets[j].append(sc)
        loads[j] += cost(sc)
    env = dict(os.environ)
    env["PYTHONPATH"] = os.path.join(lib.REPO, "src")
    env["PYTHONDONTWRITEBYTECODE"] = "1"
    procs = []
    for b in buckets:
        p = subprocess.Popen([lib.PY, os.path.join(HERE, "c16_worker.py")], stdin=subprocess.PIPE, stdout=subprocess.PIPE,
                             stderr=subprocess.DEVNULL, env=env, text=True, start_new_session=True)
        p.stdin.write(json.dumps(b))
        p.stdin.close()
        procs.append((p, b))
    results = {}
    deadline = time.time() + max(loads) * 3 + 120
    for p, b in procs:
        try:
            outp = p.stdout.read()
            p.wait(timeout=max(5, deadline - time.time()))
        except subprocess.TimeoutExpired:
            p.kill()
            raise lib.HarnessError("a C16 worker did not finish")
        for ln in outp.split("\n"):
            if ln.strip():
                r = json.loads(ln)
                results[r["idx"]] = r
        missing = [sc["idx"] for sc in b if sc["idx"] not in results]
        if missing:
            raise lib.HarnessError(f"C16 worker exited (rc={p.returncode}) without results for scenarios {missing[:5]}")
    return results


# --------------------------------------------------------------------------- #
# judging
# --------------------------------------------------------------------------- #
PATH_CODE = {p: i for i, p in enumerate(PATHS)}
STATE_CODE = {"gone": 0, "zombie": 1, "running": 2}
SIG_NAME = {15: "TERM", 9: "KILL"}


def pending_obs_sx(o):
    if o[0] == "return":
        return "(0 %d)" % o[1]
    if o[0] == "timeout":
        return "(2)"
    return "(1)"


def evaluate(scs, results, model, spec, variant):
    """Returns per-scenario verdicts: list of dicts {sc, obs, mismatches: [...], spec: [(klass, detail)], problem}."""
    exits = [sc for sc in scs if sc["kind"] == "exit"]
    mres = {}
    if model and exits:
        outs = model.run([call(0, str(variant), str(PATH_CODE[sc["path"]]), sx_child(model_child(sc))) for sc in exits])
        for sc, o in zip(exits, outs):
            mres[sc["idx"]] = {"dur": o[0], "signals": [SIG_NAME[s] for s in o[1]], "reaped": bool(o[2]), "fds": o[6]}
    verdicts = []
    spec_reqs, spec_keys = [], []
    for sc in scs:
        r = results[sc["idx"]]
        v = {"sc": sc, "obs": r, "mismatches": [], "spec": [], "problem": r.get("problem")}
        verdicts.append(v)
        if v["problem"]:
            continue
        if sc["kind"] == "spawn":
            spec_reqs.append(call(2, sx(False), sx(bool(r["entered"]))))
            spec_keys.append((v, "enter"))
            continue
        if r["pid"] is None and sc.get("enter_deadline") is not None and r.get("fd_after") == r.get("fd_before"):
            v["skipped"] = "cancelled-before-anything-was-spawned"      # nothing to clean up, nothing left: fine
            continue
        if r["dur"] is None or r["pid"] is None:
            v["problem"] = "no duration / no child observed"
            continue
        dur = r["dur"] - (sc["stall"][1] if sc.get("stall") else 0.0)       # the host's own stall is not the library's time
        ticks = max(0, int(math.ceil(dur * 100 - 1e-6)))
        spec_reqs.append(call(0, str(ticks), "(%d)" % STATE_CODE[r["state"]], str(r["fd_after"] - r["fd_before"])))
        spec_keys.append((v, "exit"))
        if r.get("polls"):
            pl = r["polls"]
            if pl["hung"]:
                v["spec"].append((f"request-on-a-dead-connection-never-ends:{sc['mode']}",
                                  f"of {sc['polls']} requests (timeout 0.05 s) sent after the child had died, {pl['timeout']} timed out, "
                                  f"{pl['error']} failed and then {pl['hung']} neither ended nor failed within 3 s"))
            for o in pl["returns"][:1]:
                spec_reqs.append(call(1, sx(list(r["written"])), pending_obs_sx(o)))
                spec_keys.append((v, "poll"))
        for which in ("first", "pending"):
            if r.get(which) is not None:
                spec_reqs.append(call(1, sx(list(r["written"])), pending_obs_sx(r[which])))
                spec_keys.append((v, which))
    sres = spec.run(spec_reqs)
    for (v, what), s in zip(spec_keys, sres):
        sc, r = v["sc"], v["obs"]
        if what == "enter":
            if not s:
                v["spec"].append((f"unstartable-command-entered:{sc['spawn']}:{sc['entry']}",
                                  f"command {sc['command']!r} cannot be started but the context was entered"))
            if r["spawned"] or r["fd_after"] > r["fd_before"]:
                v["spec"].append((f"failed-enter-leaves-something:{sc['spawn']}",
                                  f"spawned={r['spawned']} fds {r['fd_before']}->{r['fd_after']}"))
        elif what == "exit":
            ok, late, child_left, fd_left = [bool(x) for x in s]
            if ok:
                continue
            group = "scope-cancelled-exit" if sc["path"] in LEVEL else ("task-cancelled-exit" if sc["path"] in ("cancel_task", "timeout_task")
                                                                        else "plain-exit")
            tag = f"{sc['mode']}:{group}"
            detail = (f"duration {r['dur']:.2f}s, child {r['state']} (pid {r['pid']}, rc {r['returncode']}), signals {r['signals']}, "
                      f"fds {r['fd_before']}->{r['fd_after']} (after gc {r['fd_after_gc']})")
            if child_left:
                if sc["path"] in LEVEL and not r["signals"]:
                    v["spec"].append(("cancelled-exit-skips-termination", detail))
                elif r["state"] == "zombie":
                    v["spec"].append((f"child-unreaped:{tag}", detail))
                else:
                    v["spec"].append((f"child-left-running:{tag}", detail))
            elif fd_left:
                if sc["mode"].startswith("floods") and r["fd_after"] - r["fd_before"] == 1:
                    v["spec"].append(("stdout-pipe-left-open:flooding-child", detail))
                else:
                    v["spec"].append((f"fd-left-open:{tag}", detail))
            if late:
                v["spec"].append((f"exit-exceeds-bound:{tag}", detail))
        else:
            if not s:
                v["spec"].append((f"pending-request-fabricated-result:{sc['mode']}:{sc['moment']}",
                                  f"{what} request returned {r[what] if what in r else r['polls']['returns'][0]} but the child wrote {r['written']}"))
    # correspondence
    if model:
        pend_reqs, pend_keys = [], []
        for v in verdicts:
            sc, r = v["sc"], v["obs"]
            if v["problem"]:
                continue
            if sc["kind"] == "spawn" or v.get("skipped"):
                continue
            if sc.get("enter_deadline") is not None:
                # cancelled WHILE the context is being entered: whether the child had been spawned, and whether the library ever
                # held its Process object, depends on where in open_process the cancellation lands (2 .. 90 ms, machine load):
                # the model of the exit protocol does not apply; these scenarios are judged by the specification alone
                # (nothing left running, no descriptor left open, exit within the bound)
                continue
            m = mres[sc["idx"]]
            impl = {"signals": r["signals"], "reaped": r["returncode"] is not None and r["state"] == "gone",
                    "leak": r["fd_after"] > r["fd_before"]}
            mod = {"signals": m["signals"], "reaped": m["reaped"], "leak": m["fds"] > 0 or not m["reaped"]}
            for k in ("signals", "reaped", "leak"):
                if impl[k] != mod[k]:
                    v["mismatches"].append((k, impl[k], mod[k]))
            lo, hi = m["dur"] / 100.0 - LOW_SLACK, m["dur"] / 100.0 + HIGH_SLACK
            if sc.get("stall"):
                pass            # timers fire late by the host's stall: the model's clock does not apply, the outcome does
            elif not (lo <= r["dur"] <= hi):
                v["mismatches"].append(("duration", round(r["dur"], 3), m["dur"] / 100.0))
            # the requests
            for which in ("first", "pending"):
                if r.get(which) is None:
                    continue
                # what the child had planned to write (an answer one tick after the request) and when it died
                plans = (sc["mode"] in SERVING or sc["mode"] == "exit_recv") and not (which == "pending" and sc["bg_method"] == "hang")
                script = "((1 (0 (1 (109 101)) %d)))" % sc["tok"] if plans else "()"
                td = 0 if sc["mode"] == "exit_recv" else 10 ** 6
                pend_reqs.append(call(2, "50", str(int(REQ_TIMEOUT * 100)), "(1 (109 101))", "0", str(td), script))
                pend_keys.append((v, which))
        for (v, which), outs in zip(pend_keys, model.run(pend_reqs)):
            r = v["obs"]
            o = r[which]
            got = (0, o[1]) if o[0] == "return" else ((2,) if o[0] == "timeout" else (1,))
            allowed = [tuple(x[:2]) if x[0] == 0 else (x[0],) for x in outs]
            if got not in allowed:
                v["mismatches"].append((which + "-request", list(got), [list(a) for a in allowed]))
        # spawn failures
        spawns = [v for v in verdicts if v["sc"]["kind"] == "spawn" and not v["problem"]]
        outs = model.run([call(1, sx(v["sc"]["entry"] == "stdio_client"),
                               "(1)" if v["sc"]["spawn"] == "empty-command"
                               else "(2 %s)" % sx(v["sc"]["spawn"] == "missing-cancel-scope-in-path")) for v in spawns])
        want = {1: "ValueError", 2: "OSError", 3: "RuntimeError"}
        for v, o in zip(spawns, outs):
            r = v["obs"]
            impl = (bool(r["entered"]), r["raised"], r["spawned"])
            mod = (bool(o[0]), want.get(o[1]), o[2])
            if impl != mod:
                v["mismatches"].append(("enter", list(impl), list(mod)))
    return verdicts


def failing(v):
    return bool(v["mismatches"] or v["spec"] or v["problem"])


def detect_variant(ctx, model, spec, n_workers):
    """Which member of the model family does the code under test behave like?  Two probes."""
    probes = [make_scenario(0, "ignore_term", "cancel_scope", "before", "StdioClient"),
              make_scenario(1, "floods", "normal", "before", "StdioClient")]
    res = run_workers(probes, 2)
    a, b = res[0], res[1]
    if a.get("problem") or b.get("problem"):
        raise lib.HarnessError(f"variant probes failed: {a.get('problem')} / {b.get('problem')}")
    shield = bool(a["signals"])
    close = b["fd_after"] <= b["fd_before"]
    return 0 if not shield else (2 if close else 1)


def explore(ctx, model, spec):
    n_workers = int(os.environ.get("VERIF_C16_WORKERS", "12"))
    variant = detect_variant(ctx, model, spec, n_workers)
    ctx.extra["code_variant"] = VARIANTS[variant]
    ctx.extra["repo_under_test"] = lib.REPO
    ctx.extra["full_theorems_apply"] = variant == 2
    ctx.count(f"code-variant:{variant}")
    scs = gen_scenarios(ctx)
    tmp = tempfile.mkdtemp(prefix="c16-spawn-")
    try:
        scs += gen_spawn(tmp, len(scs))
        results = run_workers(scs, n_workers)
        verdicts = evaluate(scs, results, model, spec, variant)
        bad = [v for v in verdicts if failing(v)]
        flakes = 0
        flake_log = []
        if bad:
            # one retry, in fresh workers, before believing a leak / a timeout / a disagreement
            again = [v["sc"] for v in bad]
            res2 = run_workers(again, n_workers)
            v2 = {v["sc"]["idx"]: v for v in evaluate(again, res2, model, spec, variant)}
            for i, v in enumerate(verdicts):
                if failing(v):
                    w = v2[v["sc"]["idx"]]
                    if not failing(w):
                        flakes += 1
                        flake_log.append({"case": case_of(v["sc"]) if v["sc"]["kind"] == "exit" else v["sc"].get("spawn"),
                                          "first_run": {"problem": v["problem"], "mismatches": v["mismatches"],
                                                        "spec": [s_[0] for s_ in v["spec"]],
                                                        "obs": {k: v["obs"].get(k) for k in ("signals", "returncode", "dur", "state",
                                                                                             "fd_before", "fd_after", "first", "pending")}}})
                        ctx.count("flake:" + (v["problem"] or ",".join([m[0] for m in v["mismatches"]] + [s[0] for s in v["spec"]]))[:80])
                    verdicts[i] = w
        ctx.extra["flaky_first_runs"] = flakes
        ctx.extra["flaky_first_run_details"] = flake_log[:10]
        problems = [v for v in verdicts if v["problem"]]
        if problems:
            p = problems[0]
            raise lib.HarnessError(f"{len(problems)} scenario(s) could not be run twice in a row, e.g. {case_of(p['sc']) if p['sc']['kind'] == 'exit' else p['sc']}: {p['problem']}")
        if flakes > max(6, len(scs) // 10):
            raise lib.HarnessError(f"{flakes} of {len(scs)} scenarios differed between two runs: the machine is too loaded for wall-clock classes")
    finally:
        subprocess.run(["rm", "-rf", tmp])
    for v in verdicts:
        sc, r = v["sc"], v["obs"]
        if sc["kind"] == "spawn":
            case = {"spawn": sc["spawn"], "entry": sc["entry"]}
            ctx.case(case, nontrivial=True)
            ctx.count("spawn:" + sc["spawn"])
            ctx.count("enter-raised:" + str(r["raised"]))
            ctx.spec_total += 1
        elif v.get("skipped"):
            case = case_of(sc)
            ctx.case(case, nontrivial=False)
            ctx.count("skipped:" + v["skipped"])
        else:
            case = case_of(sc)
            ctx.case(case, nontrivial=True)
            for k in ("mode", "path", "moment", "entry"):
                ctx.count(f"{k}:{sc[k]}")
            ctx.count("signals:" + ("+".join(r["signals"]) or "none"))
            ctx.count("exit:" + str(r["exit"]))
            ctx.count("returncode:" + ("none" if r["returncode"] is None else ("killed-by-%d" % -r["returncode"] if r["returncode"] < 0 else "exited")))
            ctx.count("duration:" + ("<0.2s" if r["dur"] < 0.2 else "<0.9s" if r["dur"] < 0.9 else "<1.2s" if r["dur"] < 1.2 else "<2.2s" if r["dur"] < 2.2 else ">=2.2s"))
            for which in ("first", "pending"):
                if r.get(which) is not None:
                    ctx.count(f"{which}-request:{r[which][0]}")
                    ctx.spec_total += 1
            ctx.spec_total += 1
        for what, impl, mod in v["mismatches"]:
            ctx.mismatch(case, impl, mod, f"{what}: model ({VARIANTS[variant].split()[0]}) != implementation")
        for klass, detail in v["spec"]:
            ctx.spec_violation(klass, case, detail)
    return variant


def run(ctx):
    lib.standard_obligations(ctx, GEN, TARGETS)
    spec = lib.Driver("C16Spec")
    try:
        if any(n.startswith("translate:") and not ok for n, ok, _d in ctx.obligations):
            # coqdep silently drops the dependency on a Gen file that no longer exists, so make would call a driver
            # built from the PREVIOUS translation up to date: never use it
            raise lib.HarnessError("Gen/ShutdownGen.v could not be regenerated; the model driver would be stale")
        model = lib.Driver("C16")
        ctx.oblige("build:driver-model(C16)", True)
    except lib.HarnessError as e:
        model = None
        ctx.oblige("build:driver-model(C16)", False, str(e)[-600:])
    if model:
        g = model.run([call(3)])[0]
        p = spec.run([call(3)])[0]
        ctx.extra["grace_periods_ticks"] = {"code": g, "pinned": p[:2], "slack": p[2]}
    if ctx.broken_obligations:
        ctx.escalated = True
    explore(ctx, model, spec)
    if ctx.corr_mismatch and not ctx.escalated and not ctx.spec_fail:
        ctx.escalated = True
        ctx.corr_mismatch.clear()
        explore(ctx, model, spec)
    if ctx.thorough:
        lib.coqchk(ctx, "C16")
    ctx.exhaustive = False
    ctx.rule = ("real child processes: 16 scripted behaviours (well-behaved; exits at step 0/1/2/3 of the conversation; ignores SIGTERM; "
                "slow SIGTERM handler and EOF-only exit with delays on both sides of the first grace period; never reads; floods with "
                "and without ignoring SIGTERM; closes stdout / stdin / both; slow start left before readiness) x 6 exit paths (normal, "
                "body exception, anyio scope cancel, anyio scope deadline, asyncio task.cancel, asyncio.timeout) x 3 moments (before "
                "the first message, request in flight, after a response) x entry point (stdio_client / StdioClient / StdioTransport: "
                "one seeded per cell in the quick tier, all three in the thorough tier), plus 6 kinds of unstartable command x 3 entry "
                "points; 60 x 16 KiB of unread outgoing messages, a burst sent in the same instant as the cancellation (every entry x every cancellation path), and one StdioClient object used for two conversations; every scenario runs in one of 12 worker processes, scenarios within a worker sequentially so that "
                "/proc/self/fd is attributable; distinct = distinct (mode, path, moment, entry, delay); all are non-trivial (a real "
                "process is spawned, or spawning really fails)")
    return lib.finish(ctx, TRUSTED, ASSUME)


def replay(ctx, data):
    spec = lib.Driver("C16Spec")
    try:
        model = lib.Driver("C16")
    except lib.HarnessError:
        model = None
    case = data.get("case", {})
    variant = detect_variant(ctx, model, spec, 2)
    tmp = tempfile.mkdtemp(prefix="c16-spawn-")
    try:
        if "spawn" in case:
            scs = [s for s in gen_spawn(tmp, 0) if s["spawn"] == case["spawn"] and s["entry"] == case["entry"]]
        else:
            scs = [make_scenario(0, case["mode"], case["path"], case["moment"], case["entry"], case.get("delay") or None)]
            for k in ("backlog", "burst", "reuse", "enter_deadline", "polls", "stall"):
                if case.get(k):
                    scs[0][k] = case[k]
        fails = 0
        for attempt in range(2):
            res = run_workers(scs, 1)
            vs = evaluate(scs, res, model, spec, variant)
            v = vs[0]
            if v["problem"]:
                raise lib.HarnessError("replay could not run the scenario: " + v["problem"])
            if v["spec"]:
                fails += 1
                for klass, detail in v["spec"]:
                    print("REPRODUCED", klass, detail)
            else:
                break
    finally:
        subprocess.run(["rm", "-rf", tmp])
    for klass, detail in (v["spec"] if fails == 2 else []):
        ctx.spec_violation(klass, case, detail)
    return 1 if fails == 2 else 0

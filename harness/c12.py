"""C12 — legacy SSE transport: live-or-raise setup, exactly-once delivery, chunk-independent."""
from __future__ import annotations

import asyncio
import codecs
import itertools
import json
import os

import anyio

import lib
from lib import sx, sxo, call
import c12_fake as F
from vloop import vrun

META = {
    "level": "Proof over a model FAMILY of SSETransport indexed by seven flags (behaviour before / after each repair; five are in /repo, "
             "two are proposed as fixes/C12-6-*.patch and fixes/C12-7-*.patch): "
             "entering yields Live only with a non-empty URL announced on a 200 stream before the timeout, else raises no later than the "
             "timeout (all server behaviours, all members); the line parser's output is the same for ALL chunkings of the text; every "
             "complete life of a request (all interleavings of POST result, answer on the stream, timer, sender wake-up, unrelated "
             "traffic) yields exactly one terminal message with the request's id incl. its JSON type (members with keep_id and "
             "other_terminal); what the stream task delivers is a subsequence of the stream and is complete for unrelated traffic; "
             "_cleanup releases everything from any state and every closed life is released. Full-strength exactly-once (the server's one answer "
             "may come after the synthesised terminal message) is PROVED for members with drop_late and REFUTED for every member without; "
             "full-strength ordering (everything due from the event stream reaches the read stream in stream order, the answer at its own "
             "place, the late answer not at all) is PROVED for members with drop_late and route_in_stream and REFUTED for every member "
             "lacking one of them. /repo HEAD lacks both (two known findings); the check identifies the member the code under test "
             "behaves like and ties it to the real sse_client()/SSETransport by a differential run.",
    "note": "Trusted: Coq kernel, extraction (ExtrOcamlBasic only), the harness incl. the scripted httpx transport and the virtual-clock loop, "
            "the harness's mapping from a scripted timeline to the model's event list. Modelled not verified: asyncio/anyio scheduling "
            "(when the sender task resumes relative to the stream task: event EWake), httpx (stream(), aiter_text incremental decoding, "
            "aclose), Pydantic validation of JSONRPCMessage (oracle: body/data classes computed by the library in isolation). Domain: "
            "single-line JSON data fields, ids int or str, LF/CRLF line ends (a lone CR is not a line end for this parser).",
    "technique": "Coq proof (induction over event lists with a phase/state simulation invariant; characterisation of feed over "
                 "concatenation for chunk independence; case analysis over Z status codes) + differential correspondence under a virtual clock",
    "design_ref": "DESIGN.md section 6 (C12)",
}
GEN = []
TARGETS = ["Base/SseVocab", "Model/SseLegacy", "Spec/C12", "Proofs/SseLegacy", "Proofs/C12Spec", "History/C12_prefix", "Props/C12"]
TRUSTED = [
    "Coq 8.16.1 kernel (coqc); coqchk re-check in the thorough tier; vm_compute only in the refutation witnesses",
    "axioms: none (every C12 theorem prints 'Closed under the global context')",
    "hand-written model family Model/SseLegacy.v (cfg flags = before vs. after each repair; cfg_head = /repo HEAD, cfg_patched = HEAD + "
    "fixes/C12-6, C12-7), tied by the correspondence run; "
    "the member is identified per run from the code's behaviour and recorded in evidence (code_variant)",
    "harness: scripted httpx transport (subclass of the original httpx.AsyncClient injected into the transport module's namespace), "
    "virtual-clock loop, the mapping timeline -> model events (incl. where the sender's wake-up falls)",
    "extraction: ExtrOcamlBasic only; ocaml/main.ml text<->sexp",
    "modelled, not verified: asyncio/anyio task scheduling, httpx streaming/decoding/closing, Pydantic validation, real sockets "
    "(cancellation inside a real network close is outside the scripted transport)",
]
ASSUME = [
    "environment of a request (Spec/C12.v sched_ok): the POST completes once; the server answers at most once on the stream, with the "
    "request's own id, not after the request's life is over; a 200 reply carries the answer or is not JSON",
    "full-strength environment (sched_ok_late): the same, but the one answer on the stream may come after the request's life is over, "
    "provided the server has not already answered in the POST reply",
    "stream data fields are single-line JSON; exact ties (timer and event in the same loop iteration) are not scripted",
]
BASE = "http://h"
CFG_NAMES = ["opt_space", "keep_id", "other_terminal", "enter_cancel", "reraise_cancel", "drop_late", "route_in_stream",
             "answers_only"]
I_DROP_LATE, I_ROUTE_IN_STREAM, I_ANSWERS_ONLY = 5, 6, 7
HANG = 900.0     # virtual seconds after which a context exit that has not returned is a hang
PATCH_OF = {"opt_space": "fixes/C12-sse-field-optional-space.patch", "keep_id": "fixes/C12-synth-error-keeps-request-id.patch",
            "other_terminal": "fixes/C12-other-status-always-terminal.patch",
            "enter_cancel": "fixes/C12-cancel-during-enter-cleans-up.patch",
            "reraise_cancel": "fixes/C12-exit-deadlock-swallowed-cancel.patch",
            "drop_late": "fixes/C12-6-late-answer-dropped.patch",
            "route_in_stream": "fixes/C12-7-answer-routed-in-stream-order.patch",
            "answers_only": "the repair ecb7629 (a server request bearing a pending id is not its answer)"}

_orig_load = lib.load_findings


def _load_findings(pid):
    """known_findings.json (shared, maintained by the lead) + findings_C12.json (this property's proposals)."""
    out = _orig_load(pid)
    p = os.path.join(lib.VERIF, "findings_C12.json")
    if pid == "C12" and os.path.exists(p):
        for e in json.load(open(p, encoding="utf-8")).get("findings", []):
            if e.get("property") == pid and e.get("status") == "known":
                out.setdefault(e["class"], e)
    return out


lib.load_findings = _load_findings


# --------------------------------------------------------------------------- #
# encodings
# --------------------------------------------------------------------------- #
def ms(t):
    return int(round(t * 1000))


def sx_id(i):
    return "(0 %d)" % i if isinstance(i, int) else "(1 %s)" % sx(i)


def sx_msg(m):
    """m = (id|None, kind tuple, tok)"""
    i, k, tok = m
    return "(%s (%s) %d)" % ("()" if i is None else "(" + sx_id(i) + ")", " ".join(str(x) for x in k), tok)


def sx_optmsg(m):
    return "()" if m is None else "(" + sx_msg(m) + ")"


def sx_body(b):
    return "(0 %s)" % sx_msg(b[1]) if b[0] == "msg" else ("(1)" if b[0] == "invalid" else "(2)")


def sx_ev(e):
    k = e[0]
    if k == "send":
        return "(0 (1))" if e[1] is None else "(0 (0 %s))" % sx_id(e[1])
    if k == "post":
        return "(1 (1))" if e[1] == "exc" else "(1 (0 %d %s))" % (e[1], sx_body(e[2]))
    if k == "timeout":
        return "(2)"
    if k == "wake":
        return "(3)"
    return "(4 %s)" % sx_optmsg(e[1])


def sx_list(items):
    return "(" + " ".join(items) + ")"


def sx_cfg(cfg):
    return sx([bool(b) for b in cfg])


def dec_id(x):
    return x[1] if x[0] == 0 else lib.as_str(x[1])


def dec_msg(x):
    i = lib.as_opt(x[0])
    return (None if i is None else dec_id(i), tuple(x[1]), x[2])


def absmsg(d):
    """Abstract a delivered message (dict) to (id, kind, tok)."""
    mid = d.get("id")
    if "result" in d:
        kind = (0,)
        tok = (d.get("result") or {}).get("k", 0) if isinstance(d.get("result"), dict) else 0
    elif "error" in d:
        err = d.get("error") or {}
        kind = (1, err.get("code", 0))
        tok = (err.get("data") or {}).get("k", 0) if isinstance(err.get("data"), dict) else 0
    elif "method" in d:
        kind = (2,) if mid is not None else (3,)
        tok = (d.get("params") or {}).get("k", 0) if isinstance(d.get("params"), dict) else 0
    else:
        kind = (4,)
        tok = d.get("k", 0)
    return (mid, kind, tok)


def body_class(raw: bytes):
    """Class of a POST reply body, judged by the library's own validation in isolation."""
    from chuk_mcp.protocol.messages.json_rpc_message import JSONRPCMessage
    try:
        v = json.loads(raw)
    except Exception:
        return ("notjson",)
    try:
        m = JSONRPCMessage.model_validate(v)
        return ("msg", absmsg(m.model_dump(exclude_none=True)))
    except Exception:
        return ("invalid",)


def text_chunks(byte_chunks):
    """What Response.aiter_text() yields for these byte chunks (incremental UTF-8 decoder, empty pieces dropped)."""
    dec = codecs.getincrementaldecoder("utf-8")(errors="replace")
    out = []
    for b in byte_chunks:
        t = dec.decode(b)
        if t:
            out.append(t)
    t = dec.decode(b"", True)
    if t:
        out.append(t)
    return out


def cuts_of(data: bytes, k_max, rng, n_seeded):
    """All chunkings into <= k_max chunks (every cut) if small, else seeded."""
    n = len(data)
    out = [[data]]
    if n <= 1:
        return out
    pos = list(range(1, n))
    total = len(pos) + (len(pos) * (len(pos) - 1)) // 2 if k_max >= 3 else len(pos)
    if total <= n_seeded:
        for a in pos:
            out.append([data[:a], data[a:]])
        if k_max >= 3:
            for a, b in itertools.combinations(pos, 2):
                out.append([data[:a], data[a:b], data[b:]])
    else:
        for _ in range(n_seeded):
            k = rng.choice((2, 3, 3, 4, 6))
            cs = sorted(rng.sample(pos, min(k - 1, len(pos))))
            out.append([data[a:b] for a, b in zip([0] + cs, cs + [n])])
    return out


# --------------------------------------------------------------------------- #
# (b) parser tie: the real _process_sse_stream over a real httpx.Response
# --------------------------------------------------------------------------- #
class _Bytes(F._httpx.AsyncByteStream):
    def __init__(self, chunks):
        self.chunks = chunks

    async def __aiter__(self):
        for c in self.chunks:
            yield c

    async def aclose(self):
        pass


class _RespProxy:
    def __init__(self, resp, log):
        self._r, self._log = resp, log

    async def aiter_text(self):
        async for t in self._r.aiter_text():
            self._log.append(t)
            yield t

    def __getattr__(self, name):      # an implementation that reads the response another way (aiter_bytes, aiter_lines ...)
        return getattr(self._r, name)


async def parse_real(byte_chunks):
    from chuk_mcp.transports.sse.transport import SSETransport
    from chuk_mcp.transports.sse.parameters import SSEParameters
    tr = SSETransport(SSEParameters(url=BASE, timeout=5.0))
    tr._incoming_send, tr._incoming_recv = anyio.create_memory_object_stream(1000)
    seen, acts = [], []
    tr._sse_response = _RespProxy(F._httpx.Response(200, stream=_Bytes(list(byte_chunks))), seen)
    orig_ep, orig_msg = tr._handle_endpoint_event, tr._handle_message_event

    async def ep(data):
        await orig_ep(data)
        acts.append([0, tr._message_url])

    async def msg(data):
        acts.append([1, data])
        await orig_msg(data)

    tr._handle_endpoint_event, tr._handle_message_event = ep, msg
    await tr._process_sse_stream()
    delivered = []
    while True:
        try:
            delivered.append(absmsg(tr._incoming_recv.receive_nowait().model_dump(exclude_none=True)))
        except anyio.WouldBlock:
            break
    tr._incoming_send.close()
    tr._incoming_recv.close()
    # the model is fed what the parser was given as text; if the implementation did not ask for text at all, what a
    # conformant incremental UTF-8 decoder yields for the same bytes (the property: delivery is chunk-independent)
    return {"acts": acts, "url": tr._message_url, "text_chunks": seen if seen else text_chunks(byte_chunks),
            "delivered": delivered}


def notif(k):
    return {"jsonrpc": "2.0", "method": "notifications/message", "params": {"k": k}}


def srvreq(k):
    return {"jsonrpc": "2.0", "id": f"s{k}", "method": "sampling/createMessage", "params": {"k": k}}


def res(i, k):
    return {"jsonrpc": "2.0", "id": i, "result": {"k": k}}


def errres(i, k, code=-32001):
    return {"jsonrpc": "2.0", "id": i, "error": {"code": code, "message": "e", "data": {"k": k}}}


def enc_event(obj_or_text, typed=True, sp_e=True, sp_d=True, crlf=False, extra=None, etype="message"):
    """One SSE event in one of the spellings the SSE format accepts."""
    eol = "\r\n" if crlf else "\n"
    data = obj_or_text if isinstance(obj_or_text, str) else json.dumps(obj_or_text, ensure_ascii=False)
    s = ""
    if extra == "comment":
        s += ": ping" + eol
    if extra == "id":
        s += "id: 7" + eol
    if typed:
        s += "event:" + (" " if sp_e else "") + etype + eol
    if extra == "retry":
        s += "retry: 100" + eol
    s += "data:" + (" " if sp_d else "") + data + eol + eol
    return s


def gen_streams(ctx):
    """(text, sent messages in order, uses_nospace, label)"""
    rng = ctx.rng
    out = []
    forms = [(typed, se, sd, crlf) for typed in (True, False) for se in (True, False) for sd in (True, False)
             for crlf in (False, True) if typed or se]
    k = 0
    for typed, se, sd, crlf in forms:            # one message per spelling
        k += 1
        m = notif(k)
        out.append((enc_event(m, typed, se, sd, crlf), [m], not (se and sd) if typed else not sd, "single-form"))
    payloads = [lambda k: notif(k), lambda k: srvreq(k), lambda k: res(f"x{k}", k), lambda k: errres(k, k),
                lambda k: {"jsonrpc": "2.0", "method": "n/é€😀", "params": {"k": k, "s": "žš x"}}]
    for _ in range(ctx.budget(60, 600)):
        n = rng.randrange(1, 5)
        text, sent, nosp = "", [], False
        crlf = rng.random() < 0.3
        for _j in range(n):
            k += 1
            r = rng.random()
            if r < 0.12:
                text += enc_event("", True, True, True, crlf, etype="keepalive")
                continue
            if r < 0.2:
                text += ": comment" + ("\r\n" if crlf else "\n")
                continue
            if r < 0.27:
                text += enc_event("{not json", True, True, True, crlf)        # junk data: dropped alone
                continue
            m = rng.choice(payloads)(k)
            typed = rng.random() < 0.7
            se, sd = rng.random() < 0.8, rng.random() < 0.8
            nosp = nosp or (typed and not se) or not sd
            text += enc_event(m, typed, se if typed else True, sd, crlf, extra=rng.choice((None, None, "comment", "id", "retry")))
            sent.append(m)
        if rng.random() < 0.3:
            text += "data: {\"jsonrpc\":\"2.0\",\"method\":\"unterminated\""       # incomplete tail: never delivered
        out.append((text, sent, nosp, "mixed"))
    # endpoint announcements inside the stream, typed and untyped, then messages
    for path in ("/messages/?session_id=abc", "session_id=q1", "http://other/messages/?s=1", "/mcp?session_id=1"):
        for typed, se, sd, crlf in forms:
            k += 1
            m = notif(k)
            text = enc_event(path, typed, se, sd, crlf, etype="endpoint") + enc_event(m, True, True, True, crlf)
            out.append((text, [m], not (se and sd) if typed else not sd, "endpoint+msg"))
    # once the endpoint is known, an event WITHOUT an event field is a message whatever its payload mentions - a path or URL
    # with "/mcp" or "/messages/" in a tool result is ordinary content
    for sd in (True, False):
        for crlf in (False, True):
            k += 3
            ms_ = [{"jsonrpc": "2.0", "method": "notifications/message", "params": {"k": k, "path": "/srv/mcp/tool"}},
                   {"jsonrpc": "2.0", "id": f"x{k + 1}", "result": {"k": k + 1, "u": "http://host/messages/?id=1", "p": "/mcp"}},
                   {"jsonrpc": "2.0", "method": "notifications/message", "params": {"k": k + 2}}]
            text = enc_event("/messages/?session_id=abc", True, True, True, crlf, etype="endpoint") \
                + "".join(enc_event(m, False, True, sd, crlf) for m in ms_)
            out.append((text, ms_, not sd, "endpoint+untyped-msgs-mentioning-endpoint-like-paths"))
    return out


def check_parser(ctx, model, cfg):
    streams = gen_streams(ctx)
    jobs = []
    for text, sent, nosp, label in streams:
        data = text.encode("utf-8")
        chunkings = cuts_of(data, 3, ctx.rng, ctx.budget(40, 400) if len(data) > 40 else 2000)
        if len(chunkings) > ctx.budget(60, 800):
            chunkings = [chunkings[0]] + ctx.rng.sample(chunkings[1:], ctx.budget(60, 800) - 1)
        jobs.append((text, sent, nosp, label, chunkings))

    async def run_all():
        res_ = []
        for text, sent, nosp, label, chunkings in jobs:
            res_.append([await parse_real(c) for c in chunkings])
        return res_

    results = anyio.run(run_all)
    reqs = []
    for (text, sent, nosp, label, chunkings), obs in zip(jobs, results):
        for o in obs:
            reqs.append(call(1, sx_cfg(cfg), sx(BASE), sx_list([sx(t) for t in o["text_chunks"]])))
    mres = model.run(reqs)
    it = iter(mres)
    order_reqs = []
    for (text, sent, nosp, label, chunkings), obs in zip(jobs, results):
        ref = obs[0]
        for chunks, o in zip(chunkings, obs):
            case = {"kind": "parser", "text": text, "cuts": [len(c) for c in chunks]}
            ctx.case(case, nontrivial=len(chunks) > 1 or bool(sent))
            ctx.count("parser:" + label)
            ctx.count("parser-chunks:%d" % min(len(chunks), 4))
            m = next(it)
            m_acts = [[a[0], lib.as_str(a[1])] for a in m[0]]
            m_url = lib.as_opt(m[1])
            m_url = None if m_url is None else lib.as_str(m_url)
            if m_acts != o["acts"] or m_url != o["url"]:
                ctx.mismatch(case, {"acts": o["acts"], "url": o["url"]}, {"acts": m_acts, "url": m_url},
                             "stream parser: model != implementation")
            ctx.spec_total += 1
            if (o["acts"], o["url"], o["delivered"]) != (ref["acts"], ref["url"], ref["delivered"]):
                ctx.spec_violation("sse-stream-chunk-dependent", case,
                                   f"unchunked: {ref['delivered']} / this chunking: {o['delivered']}")
        order_reqs.append((text, sent, nosp, ref))
    ores = model.run([call(12, sx_list([sx_msg(absmsg(m)) for m in sent]), sx_list([sx_msg(m) for m in ref["delivered"]]))
                      for _t, sent, _n, ref in order_reqs])
    for (text, sent, nosp, ref), ok in zip(order_reqs, ores):
        ctx.spec_total += 1
        if not ok:
            klass = "sse-field-without-space-not-recognised" if nosp else "sse-stream-message-lost-or-reordered"
            ctx.spec_violation(klass, {"kind": "parser", "text": text, "cuts": [], "sent": _norm([absmsg(m) for m in sent])},
                               f"sent {[absmsg(m) for m in sent]} delivered {ref['delivered']}")


# --------------------------------------------------------------------------- #
# session scenarios under the virtual clock
# --------------------------------------------------------------------------- #
EP_STD = b"event: endpoint\ndata: /messages/?session_id=abc\n\n"
T_EP = 0.1


async def run_session(sc):
    """sc: {"timeout", "script", "actions": [["send", msg] | ["sleep", dt] | ["raise"]], "cancel": None | [style, at]}"""
    from chuk_mcp.transports.sse.sse_client import sse_client
    from chuk_mcp.transports.sse.parameters import SSEParameters
    w = F.World(sc["script"])
    loop = asyncio.get_running_loop()
    t0 = loop.time()
    now = lambda: ms(loop.time() - t0)
    out = {"enter": None, "delivered": [], "exit": None, "wr": None, "rd": None}
    before = set(asyncio.all_tasks())

    async def collect(r):
        try:
            async for m in r:
                out["delivered"].append([now(), absmsg(m.model_dump(exclude_none=True))])
        except BaseException:
            pass

    async def body():
        async with sse_client(SSEParameters(url=BASE, timeout=sc["timeout"], **(sc.get("params") or {}))) as (r, wr):
            out["enter"] = ["live", now()]
            out["wr"], out["rd"] = wr, r
            if sc.get("collector_delay"):
                # the application does not read for a while (it is busy): messages pile up in the read stream
                async def late_collect():
                    await asyncio.sleep(sc["collector_delay"])
                    await collect(r)
                out["collector"] = asyncio.create_task(late_collect())
            else:
                out["collector"] = asyncio.create_task(collect(r))
            for a in sc["actions"]:
                if a[0] == "send":
                    await wr.send(a[1])
                elif a[0] == "sleep":
                    await asyncio.sleep(a[1])
                elif a[0] == "raise":
                    raise KeyError("exception in body")

    async def guarded():
        cancel = sc.get("cancel")
        if cancel and cancel[0] == "scope":
            with anyio.move_on_after(cancel[1]) as scope:
                await body()
            return "cancelled" if scope.cancelled_caught else "normal"
        await body()
        return "normal"

    with F.installed(w):
        cancel = sc.get("cancel")
        t = asyncio.create_task(guarded())
        if cancel and cancel[0] == "task":
            loop.call_later(cancel[1], t.cancel)
        done, pending = await asyncio.wait([t], timeout=HANG)
        if pending:
            out["exit"] = ["hang", now()]
            for _ in range(5):                       # break the deadlock so that the run can be cleaned up
                t.cancel()
                await asyncio.sleep(0.01)
                if t.done():
                    break
        elif t.cancelled():
            out["exit"] = ["cancelled", now()]
        else:
            e = t.exception()
            if e is None:
                out["exit"] = [t.result(), now()]
            elif isinstance(e, KeyError):
                out["exit"] = ["exception", now()]
            elif isinstance(e, RuntimeError):
                out["exit"] = ["enter-raised", now()]
            else:
                out["exit"] = ["other:" + type(e).__name__, now()]
    await asyncio.sleep(0.5)
    col = out.pop("collector", None)
    left = [x for x in asyncio.all_tasks()
            if x not in before and x is not asyncio.current_task() and x is not col and x is not t and not x.done()]
    out["left_tasks"] = sorted(getattr(t.get_coro(), "__qualname__", "?") for t in left)
    out["clients_open"] = sum(0 if c.is_closed else 1 for c in w.clients)
    out["n_clients"] = len(w.clients)
    out["streams_open"] = w.stream_opened - w.stream_closed
    mem = 0
    wr, rd = out.pop("wr"), out.pop("rd")
    if wr is not None:
        try:
            wr.send_nowait({"probe": 1})
            mem += 1                                     # the write stream still accepts messages
        except (anyio.ClosedResourceError, anyio.BrokenResourceError):
            pass
        except anyio.WouldBlock:
            mem += 1
        if col is not None and not col.done():
            mem += 1                                     # the read stream never ended
    out["mem_open"] = mem
    from urllib.parse import unquote
    out["url"] = unquote(w.posts[0][1]) if w.posts else None     # httpx percent-encodes non-ASCII on the wire
    out["posts"] = [[ms(t - t0), (b or {}).get("id") if isinstance(b, dict) else None] for t, _u, b in w.posts]
    for x in left:
        x.cancel()
    if col is not None:
        col.cancel()
    await asyncio.sleep(0)
    return out


def session(sc):
    return vrun(run_session, sc)


# ---- establishment ---------------------------------------------------------
def est_cases(ctx):
    rng = ctx.rng
    cases = []
    paths = ["/messages/?session_id=abc", "session_id=q1", "http://other/messages/?s=1", "/mcp?session_id=1", "/messages/é?x=1",
             # a message endpoint on ANOTHER origin (other port, other scheme, other spelling of the host): what the server
             # announces is where the POSTs go
             "http://worker.internal:8081/messages/?s=2", "https://other.example/mcp?s=3"]
    forms = [(typed, se, sd, crlf) for typed in (True, False) for se in (True, False) for sd in (True, False)
             for crlf in (False, True) if typed or se]
    for path in paths:
        for typed, se, sd, crlf in forms:
            text = enc_event(path, typed, se, sd, crlf, etype="endpoint").encode()
            nosp = (typed and not se) or not sd
            chunkings = cuts_of(text, 3, rng, ctx.budget(3, 40))
            if len(chunkings) > ctx.budget(4, 40):
                chunkings = [chunkings[0]] + rng.sample(chunkings[1:], ctx.budget(4, 40) - 1)
            for ch in chunkings:
                gap = rng.choice((0.0, 0.0, 0.05))
                stream = [[T_EP + i * gap, c] for i, c in enumerate(ch)]
                eol = text.index(b"\n", text.index(b"data:"))          # the data line is complete with this byte
                pos, at = 0, stream[-1][0]
                for t_c, c in stream:
                    pos += len(c)
                    if pos > eol:
                        at = t_c
                        break
                if not typed and "/messages/" not in path and "/mcp" not in path:
                    at = None        # an untyped event is a 'message' event: only URL-looking data is taken as an announcement
                cases.append({"label": "announced" if at is not None else "untyped-not-an-announcement", "timeout": 5.0,
                              "nospace": nosp, "announce_at": at, "path": path,
                              "script": {"connect": ["status", 0.02, 200], "stream": stream, "end": None}})
    for code in (400, 401, 403, 404, 405, 410, 500, 502, 503, 204, 301, 201, 202):
        for t in (0.0, 0.3):
            cases.append({"label": "http-status", "timeout": 5.0, "announce_at": None,
                          "script": {"connect": ["status", t, code], "stream": [[t + 0.1, EP_STD]], "end": None}})
    for timeout in (0.5, 5.0, 20.0):
        for t in (0.0, 0.2, 3.0, 16.0, 30.0):
            cases.append({"label": "connect-error", "timeout": timeout, "announce_at": None,
                          "script": {"connect": ["error", t], "stream": [], "end": None}})
            cases.append({"label": "connect-slow", "timeout": timeout, "announce_at": None if t >= min(timeout, 15.0) else t + 0.05,
                          "script": {"connect": ["status", t, 200], "stream": [[t + 0.05, EP_STD]], "end": None}})
        cases.append({"label": "connect-hang", "timeout": timeout, "announce_at": None,
                      "script": {"connect": ["hang"], "stream": [], "end": None}})
        for te in (0.1, 2.0):
            for kind in ("close", "error"):
                cases.append({"label": "stream-closed-silent", "timeout": timeout, "announce_at": None,
                              "script": {"connect": ["status", 0.02, 200], "stream": [], "end": [kind, te]}})
        cases.append({"label": "never-announcing", "timeout": timeout, "announce_at": None,
                      "script": {"connect": ["status", 0.02, 200], "end": None,
                                 "stream": [[0.1, b": hello\n\n"], [0.2, b"event: keepalive\ndata: {}\n\n"],
                                            [0.3, enc_event(notif(1)).encode()]]}})
        cases.append({"label": "empty-url", "timeout": timeout, "announce_at": None,
                      "script": {"connect": ["status", 0.02, 200], "end": None, "stream": [[0.1, b"event: endpoint\ndata: \n\n"]]}})
        for ta in (0.1, timeout * 0.5, timeout - 0.05, timeout + 0.05, timeout * 2):
            if ta >= 15.0 and False:
                continue
            cases.append({"label": "slow-announcement", "timeout": timeout, "announce_at": ta,
                          "script": {"connect": ["status", 0.02, 200], "end": None, "stream": [[ta, EP_STD]]}})
    # the optional, documented connection parameters must not change live-or-raise: every way of NOT getting an announcement,
    # and one announced case, again with a configured session id / bearer token / extra headers
    extra = []
    for sc in cases:
        if sc["label"] in ("http-status", "connect-error", "stream-closed-silent", "never-announcing", "empty-url", "connect-hang") \
                or (sc["label"] == "announced" and len(extra) % 7 == 0):
            for params in ({"session_id": "sess-42"}, {"session_id": "sess-42", "bearer_token": "tok", "headers": {"X-A": "b"}}):
                if sc["timeout"] > 5.0 and sc["label"] != "http-status":
                    continue
                e = dict(sc)
                e["params"] = params
                extra.append(e)
    return cases + extra


def est_to_model(sc):
    c = sc["script"]["connect"]
    if c[0] == "hang":
        return "(1)"
    if c[0] == "error":
        return "(0 %d)" % ms(c[1])
    chunks = sc["script"].get("stream", [])
    timed, dec = [], codecs.getincrementaldecoder("utf-8")(errors="replace")
    for t, b in chunks:
        s = dec.decode(b)
        if s:
            timed.append("(%d %s)" % (ms(t), sx(s)))
    end = sc["script"].get("end")
    return "(2 %d %d %s %s)" % (ms(c[1]), c[2], sx_list(timed), "()" if not end else "(%d)" % ms(end[1]))


def check_establishment(ctx, model, cfg):
    cases = est_cases(ctx)
    for sc in cases:      # one notification after entering makes the message URL observable on the wire
        sc["actions"] = [["send", {"jsonrpc": "2.0", "method": "notifications/initialized"}], ["sleep", 0.2]]
    obs = [session(sc) for sc in cases]
    mres = model.run([call(2, sx_cfg(cfg), sx(BASE), str(ms(sc["timeout"])), est_to_model(sc)) for sc in cases])
    spec_reqs = []
    for sc, o, m in zip(cases, obs, mres):
        case = {"kind": "establishment", "label": sc["label"], "timeout": sc["timeout"], "script": _jsonable(sc["script"])}
        if sc.get("params"):
            case["params"] = sc["params"]
        ctx.case(case, nontrivial=True)
        ctx.count("est:" + sc["label"])
        ctx.count("est-params:" + ("+".join(sorted(sc["params"])) if sc.get("params") else "defaults"))
        if o["enter"]:
            impl = [0, o["url"], o["enter"][1]]
        else:
            impl = [1, o["exit"][1]]
        ctx.count("est-outcome:" + ("live" if o["enter"] else o["exit"][0]))
        mod = [0, lib.as_str(m[1]), m[2]] if m[0] == 0 else [1, m[1]]
        if impl != mod or (not o["enter"] and o["exit"][0] != "enter-raised"):
            ctx.mismatch(case, {"enter": impl, "exit": o["exit"]}, mod, "establishment: model != implementation")
        ann = sc["announce_at"]
        obs_sx = "(0 %s %d)" % (sx(impl[1] or ""), impl[2]) if impl[0] == 0 else "(1 %d)" % impl[1]
        spec_reqs.append((sc, case, o, impl, call(10, str(ms(sc["timeout"])), "()" if ann is None else "(%d)" % ms(ann), obs_sx)))
    sres = model.run([q for *_x, q in spec_reqs])
    for (sc, case, o, impl, _q), ok in zip(spec_reqs, sres):
        ctx.spec_total += 1
        if not ok:
            if impl[0] == 0:
                klass = "dead-connection-entered"
            elif impl[1] > ms(sc["timeout"]):
                klass = "enter-raises-after-timeout"
            elif sc.get("nospace"):
                klass = "sse-field-without-space-not-recognised"
            else:
                klass = "announced-endpoint-not-entered"
            ctx.spec_violation(klass, case, f"announced_at={sc['announce_at']} observed={impl}")
        # an ABSOLUTE URL is announced: that is where the first POST goes
        ann_path = sc.get("path") or ""
        if sc.get("announce_at") is not None and ann_path.startswith(("http://", "https://")) and o["enter"]:
            ctx.spec_total += 1
            if o["url"] != ann_path:
                ctx.spec_violation("post-goes-elsewhere-than-the-announced-endpoint", case,
                                   f"announced {ann_path!r}; the first POST went to {o['url']!r}")
        judge_leftovers(ctx, model, case, o, "enter" if not o["enter"] else "exit")


def _norm(msgs):
    """Abstract messages as plain nested lists (what survives a JSON round trip)."""
    return [[i, list(k), t] for i, k, t in msgs]


def _jsonable(x):
    if isinstance(x, (bytes, bytearray)):
        return {"b": x.decode("latin-1")}
    if isinstance(x, dict):
        return {k: _jsonable(v) for k, v in x.items()}
    if isinstance(x, (list, tuple)):
        return [_jsonable(v) for v in x]
    return x


def _unjson(x):
    if isinstance(x, dict) and set(x) == {"b"}:
        return x["b"].encode("latin-1")
    if isinstance(x, dict):
        return {k: _unjson(v) for k, v in x.items()}
    if isinstance(x, list):
        return [_unjson(v) for v in x]
    return x


def judge_leftovers(ctx, model, case, o, where, cancelled_entering=False):
    tasks = len(o["left_tasks"])
    ok = model.run([call(13, str(tasks), str(o["clients_open"]), str(o["streams_open"]), str(o["mem_open"]))])[0]
    ctx.spec_total += 1
    if not ok:
        klass = "sse-cancel-during-enter-leaks" if cancelled_entering else "sse-exit-leaks"
        ctx.spec_violation(klass, case, f"after {where}: tasks={o['left_tasks']} clients_open={o['clients_open']}/"
                                        f"{o['n_clients']} streams_open={o['streams_open']} mem_open={o['mem_open']}")
    return bool(ok)


# ---- requests ---------------------------------------------------------------
REQ_IDS = ["r1", 7, 0, -3, "7"]


def req_msg(i):
    return {"jsonrpc": "2.0", "id": i, "method": "tools/list"}


def req_cases(ctx):
    """Each case: one or two requests, each in a mode with a timeline, plus unrelated traffic."""
    rng = ctx.rng
    T = 2.0                      # transport timeout (virtual seconds)
    cases = []
    k = [100]

    def tok():
        k[0] += 1
        return k[0]

    def one(rid, mode, variant):
        """-> (post spec, model events after ESend, duration, label, sent_unrelated(list of msgs in stream order),
               expects)"""
        a_tok = tok()
        ans = res(rid, a_tok) if variant.get("ans", "res") == "res" else errres(rid, a_tok)
        a_abs = absmsg(ans)
        n1, n2 = notif(tok()), (srvreq(tok()) if variant.get("n2req") else notif(tok()))
        if variant.get("n1same"):
            # a request of the SERVER's own (ping) that bears the id of the client's request in flight: ids are per direction
            n1 = {"jsonrpc": "2.0", "id": rid, "method": "ping", "params": {"k": tok()}}
        pre = [[variant["n1_at"], enc_event(n1).encode()]] if variant.get("n1_at") is not None else []
        ev_pre = [("sse", absmsg(n1))] if pre else []
        dp, de = variant.get("dp", 0.2), variant.get("de", 0.5)
        if mode == "200-body":
            spec = {"delay": dp, "outcome": ["status", 200, json.dumps(ans).encode()], "events": pre}
            evs = ev_pre + [("post", 200, ("msg", a_abs))]
            return spec, evs, dp, [n1] if pre else []
        if mode == "200-notjson":
            spec = {"delay": dp, "outcome": ["status", 200, b"OK", "text/plain"], "events": pre}
            return spec, ev_pre + [("post", 200, ("notjson",))], dp, [n1] if pre else []
        if mode in ("202-then-event", "event-then-202", "late-answer"):
            follow = variant.get("follow")           # None | "same-chunk" | "same-time" | "later"
            a_bytes = enc_event(ans, **variant.get("enc", {})).encode()
            events = list(pre)
            if follow == "same-chunk":
                events.append([de, a_bytes + enc_event(n2).encode()])
            else:
                events.append([de, a_bytes])
                if follow == "same-time":
                    events.append([de, enc_event(n2).encode()])
                elif follow == "later":
                    events.append([de + 0.3, enc_event(n2).encode()])
            spec = {"delay": dp, "outcome": ["status", 202, b""], "events": events}
            unrelated = ([n1] if pre else []) + ([n2] if follow else [])
            if mode == "event-then-202":
                evs = ev_pre + [("sse", a_abs)] + ([("sse", absmsg(n2))] if follow and (follow != "later" or de + 0.3 < dp) else []) \
                    + [("post", 202, ("notjson",))] + ([("sse", absmsg(n2))] if follow == "later" and de + 0.3 >= dp else [])
                return spec, evs, max(dp, de + 0.3), unrelated
            if mode == "late-answer":
                after = variant.get("after", "timeout")       # which synthesised terminal message the answer comes after
                if after == "timeout":
                    ended = [("post", 202, ("notjson",)), ("timeout",)]
                elif after == "exc":
                    spec["outcome"] = ["exc", "timeout"]        # the POST reply was lost, the server did get the request
                    ended = [("post", "exc")]
                elif after == "500":
                    spec["outcome"] = ["status", 500, b"Internal Server Error", "text/plain"]
                    ended = [("post", 500, body_class(b"Internal Server Error"))]
                else:
                    spec["outcome"] = ["status", 200, b"OK", "text/plain"]
                    ended = [("post", 200, ("notjson",))]
                evs = ev_pre + ended + [("sse", a_abs)] + ([("sse", absmsg(n2))] if follow else [])
                return spec, evs, de + 0.4, unrelated
            if follow in ("same-chunk", "same-time"):
                evs = ev_pre + [("post", 202, ("notjson",)), ("sse", a_abs), ("sse", absmsg(n2)), ("wake",)]
            elif follow == "later":
                evs = ev_pre + [("post", 202, ("notjson",)), ("sse", a_abs), ("wake",), ("sse", absmsg(n2))]
            else:
                evs = ev_pre + [("post", 202, ("notjson",)), ("sse", a_abs), ("wake",)]
            return spec, evs, de + 0.4, unrelated
        if mode == "202-silence":
            spec = {"delay": dp, "outcome": ["status", 202, b""], "events": pre}
            return spec, ev_pre + [("post", 202, ("notjson",)), ("timeout",)], dp + T + 0.1, [n1] if pre else []
        if mode == "other-status":
            body = variant["body"]
            spec = {"delay": dp, "outcome": ["status", variant["code"], body, variant.get("ctype", "application/json")], "events": pre}
            return spec, ev_pre + [("post", variant["code"], body_class(body))], dp, [n1] if pre else []
        if mode == "exception":
            spec = {"delay": dp, "outcome": ["exc", variant["exc"]], "events": pre}
            return spec, ev_pre + [("post", "exc")], dp, [n1] if pre else []
        if mode == "event-then-failure":
            spec = {"delay": dp, "outcome": variant["outcome"], "events": pre + [[de, enc_event(ans).encode()]]}
            o = variant["outcome"]
            evs = ev_pre + [("sse", a_abs), ("post", "exc") if o[0] == "exc" else ("post", o[1], body_class(o[2]))]
            return spec, evs, dp, [n1] if pre else []
        raise ValueError(mode)

    plans = []
    for rid in REQ_IDS:
        for n1_at in (None, 0.05):
            plans.append((rid, "200-body", {"n1_at": n1_at}))
            plans.append((rid, "200-body", {"n1_at": n1_at, "ans": "err"}))
            plans.append((rid, "200-notjson", {"n1_at": n1_at}))
            plans.append((rid, "202-silence", {"n1_at": n1_at}))
            for follow in (None, "same-chunk", "same-time", "later"):
                for enc in ({}, {"typed": False}, {"crlf": True}):
                    plans.append((rid, "202-then-event", {"n1_at": n1_at, "follow": follow, "dp": 0.2, "de": 0.5, "enc": enc}))
                    plans.append((rid, "event-then-202", {"n1_at": n1_at, "follow": follow, "dp": 0.6, "de": 0.2, "enc": enc}))
                plans.append((rid, "202-then-event", {"n1_at": n1_at, "follow": follow, "dp": 0.2, "de": 0.2 + T - 0.1, "ans": "err"}))
                plans.append((rid, "late-answer", {"n1_at": n1_at, "follow": follow, "dp": 0.2, "de": 0.2 + T + 0.3}))
                if follow in (None, "same-chunk"):
                    for after in ("exc", "500", "200-notjson"):
                        plans.append((rid, "late-answer", {"n1_at": n1_at, "follow": follow, "dp": 0.2, "de": 0.7, "after": after}))
            for code in (400, 404, 500, 503, 204, 201):
                for body, ctype in ((b"Internal Server Error", "text/plain"), (b"", "text/plain"),
                                    (b'{"error":"boom"}', "application/json"), (b'{"detail":"Not Found","k":5}', "application/json"),
                                    (json.dumps(errres(rid, 77)).encode(), "application/json"),
                                    (json.dumps(errres("someone-else", 78)).encode(), "application/json"), (b"[1,2]", "application/json")):
                    if n1_at is not None and code not in (404, 500):
                        continue
                    plans.append((rid, "other-status", {"n1_at": n1_at, "code": code, "body": body, "ctype": ctype}))
            for exc in ("connect", "timeout", "runtime", "disconnect"):
                plans.append((rid, "exception", {"n1_at": n1_at, "exc": exc}))
            plans.append((rid, "event-then-failure", {"n1_at": n1_at, "dp": 0.6, "de": 0.2, "outcome": ["exc", "timeout"]}))
            # the server took the POST and answered on the stream; the POST's connection is then lost before any response byte
            # (a keep-alive connection dropped): a client that re-sends the POST has the request handled - and answered - twice
            plans.append((rid, "event-then-failure", {"n1_at": n1_at, "dp": 0.6, "de": 0.2, "outcome": ["exc", "disconnect"]}))
            plans.append((rid, "event-then-failure", {"n1_at": n1_at, "dp": 0.6, "de": 0.2, "outcome": ["status", 500, b"boom", "text/plain"]}))
    for rid in REQ_IDS:
        same = {"n1_at": 0.05, "n1same": True}
        plans.append((rid, "200-body", dict(same)))
        plans.append((rid, "200-body", {**same, "ans": "err"}))
        plans.append((rid, "202-then-event", dict(same)))
        plans.append((rid, "202-then-event", {**same, "follow": "same-chunk"}))
        plans.append((rid, "event-then-202", {**same, "dp": 0.6, "de": 0.2}))
        plans.append((rid, "202-silence", dict(same)))
        plans.append((rid, "other-status", {**same, "code": 500, "body": b"boom", "ctype": "text/plain"}))
        plans.append((rid, "exception", {**same, "exc": "connect"}))
    limit = ctx.budget(460, 100000)
    if len(plans) > limit:
        must = [p for p in plans if (p[0] in ("r1", 7) and p[2].get("n1_at") is None) or "disconnect" in json.dumps(_jsonable(p[2]))
                or p[2].get("n1same")]
        rest = [p for p in plans if p not in must]
        plans = must + rng.sample(rest, max(0, limit - len(must)))
    for rid, mode, variant in plans:
        spec, evs, dur, unrelated = one(rid, mode, variant)
        cases.append({"label": mode, "rids": [rid], "variant": _jsonable(variant), "T": T,
                      "posts": [spec], "evs": [("send", rid)] + evs, "durs": [dur], "unrelated": unrelated})
    # two requests in a row (the loop survives; nothing left in the pending table), and a notification POST
    seqs = ctx.budget(40, 400)
    simple = [p for p in plans if p[2].get("n1_at") is None and p[2].get("follow") in (None,)]
    for _ in range(seqs):
        (r1, m1, v1), (r2, m2, v2) = rng.choice(simple), rng.choice(simple)
        if str(r1) == str(r2):
            continue
        s1, e1, d1, u1 = one(r1, m1, v1)
        s2, e2, d2, u2 = one(r2, m2, v2)
        cases.append({"label": "seq:" + m1 + "+" + m2, "rids": [r1, r2], "variant": _jsonable([v1, v2]), "T": T,
                      "posts": [s1, s2], "evs": [("send", r1)] + e1 + [("send", r2)] + e2, "durs": [d1, d2], "unrelated": u1 + u2})
    # the late answer to an abandoned request arrives while the NEXT request is waiting for its own answer
    for ra, rb in (("r1", "r2"), (7, "r1"), ("7", 8)):
        a1, a2 = res(ra, tok()), res(rb, tok())
        cases.append({"label": "seq:late-answer+202-then-event:overlap", "rids": [ra, rb], "variant": {"overlap": True}, "T": T,
                      "posts": [{"delay": 0.2, "outcome": ["status", 202, b""], "events": [[T + 0.2 + 0.7, enc_event(a1).encode()]]},
                                {"delay": 0.2, "outcome": ["status", 202, b""], "events": [[0.5, enc_event(a2).encode()]]}],
                      "evs": [("send", ra), ("post", 202, ("notjson",)), ("timeout",), ("send", rb), ("post", 202, ("notjson",)),
                              ("sse", absmsg(a1)), ("sse", absmsg(a2)), ("wake",)],
                      "durs": [0.2 + T + 0.1, 0.9], "unrelated": []})
    # a LONG connection: N requests each answered by the transport itself (the POST fails with 500), then the real answers to the
    # two oldest of them arrive late, while one more request waits for its own answer
    for N in (40, 300):
        rids = [f"q{i}" for i in range(1, N + 1)]
        last = "q-last"
        a1, a2, al = res(rids[0], tok()), res(rids[1], tok()), res(last, tok())
        posts = [{"delay": 0.05, "outcome": ["status", 500, b"boom", "text/plain"], "events": []} for _ in rids]
        posts.append({"delay": 0.1, "outcome": ["status", 202, b""],
                      "events": [[0.3, enc_event(a1).encode()], [0.35, enc_event(a2).encode()], [0.5, enc_event(al).encode()]]})
        evs = []
        for r in rids:
            evs += [("send", r), ("post", 500, body_class(b"boom"))]
        evs += [("send", last), ("post", 202, ("notjson",)), ("sse", absmsg(a1)), ("sse", absmsg(a2)), ("sse", absmsg(al)), ("wake",)]
        cases.append({"label": f"seq:long-connection-{N}-failed-then-late-answers", "rids": rids + [last], "variant": {"n": N}, "T": T,
                      "posts": posts, "evs": evs, "durs": [0.1] * N + [0.9], "unrelated": []})
    for code in (200, 202, 500):
        cases.append({"label": "notification", "rids": [None], "variant": {"code": code}, "T": T,
                      "posts": [{"delay": 0.1, "outcome": ["status", code, b"{}"], "events": []}],
                      "evs": [("send", None), ("post", code, body_class(b"{}"))], "durs": [0.2], "unrelated": []})
    return cases


def to_session(c):
    actions = []
    for rid, dur in zip(c["rids"], c["durs"]):
        m = req_msg(rid) if rid is not None else {"jsonrpc": "2.0", "method": "notifications/initialized"}
        actions += [["send", m], ["sleep", dur + 0.3]]
    return {"timeout": c["T"], "actions": actions,
            "script": {"connect": ["status", 0.02, 200], "stream": [[T_EP, EP_STD]], "end": None, "posts": c["posts"]}}


def check_requests(ctx, model, cfg):
    cases = req_cases(ctx)
    obs = [session(to_session(c)) for c in cases]
    mres = model.run([call(3, sx_cfg(cfg), sx_list([sx_ev(e) for e in c["evs"]])) for c in cases])
    single = lambda c: len(c["rids"]) == 1 and c["rids"][0] is not None
    sched = model.run([call(14, sx_id(c["rids"][0]), sx_list([sx_ev(e) for e in c["evs"][1:]])) if single(c) else call(0, "0")
                       for c in cases])
    sched_late = model.run([call(15, sx_id(c["rids"][0]), sx_list([sx_ev(e) for e in c["evs"][1:]])) if single(c) else call(0, "0")
                            for c in cases])
    due = model.run([call(16, sx_id(c["rids"][0]), sx_list([sx_ev(e) for e in c["evs"][1:]])) if single(c) else call(0, "0")
                     for c in cases])
    judge = []
    for c, o, m, sok, sok_late in zip(cases, obs, mres, sched, sched_late):
        case = {"kind": "request", "label": c["label"], "ids": c["rids"], "variant": c["variant"], "events": _jsonable(c["evs"])}
        ctx.case(case, nontrivial=True)
        ctx.count("req:" + c["label"].split(":")[0])
        ctx.count("req-id:" + ",".join(type(r).__name__ for r in c["rids"]))
        impl = [list(x[1]) for x in o["delivered"]]
        mod = [list(dec_msg(x[1])) for x in m[0]]
        impl_n = [[i, list(k), t] for i, k, t in impl]
        mod_n = [[i, list(k), t] for i, k, t in mod]
        if not o["enter"] or impl_n != mod_n or not m[1]:
            ctx.mismatch(case, {"delivered": impl_n, "entered": bool(o["enter"])}, {"delivered": mod_n, "idle": bool(m[1])},
                         "request race: model != implementation")
        judge_leftovers(ctx, model, case, o, "normal exit")
        for rid in c["rids"]:
            if rid is None:
                continue
            # inside the property's environment, or (a single life) inside the full-strength one
            in_env = (bool(sok) or bool(sok_late)) if len(c["rids"]) == 1 else True
            judge.append((c, case, rid, [tuple(x) for x in impl], in_env))
        # unrelated traffic: complete, once, in order
        toks = {absmsg(u)[2] for u in c["unrelated"]}
        got = [x for x in impl if x[2] in toks]
        judge.append((c, case, None, (c["unrelated"], got), True))
    reqs = []
    for c, case, rid, data, in_env in judge:
        if rid is None:
            reqs.append(call(12, sx_list([sx_msg(absmsg(u)) for u in data[0]]), sx_list([sx_msg(tuple(g)) for g in data[1]])))
        else:
            reqs.append(call(11, sx_id(rid), sx_list([sx_msg(x) for x in data])))
    res_ = model.run(reqs)
    for (c, case, rid, data, in_env), ok in zip(judge, res_):
        ctx.spec_total += 1
        if ok:
            continue
        if rid is None:
            ctx.spec_violation("sse-unrelated-traffic-lost-or-reordered", case, f"sent {[absmsg(u) for u in data[0]]} got {data[1]}")
            continue
        n = sum(1 for (i, k, _t) in data if k[0] in (0, 1) and i == rid and type(i) is type(rid))
        stringified = [x for x in data if x[1][0] == 1 and isinstance(rid, int) and x[0] == str(rid)]
        if isinstance(c["variant"], dict) and c["variant"].get("n1same") and not cfg[I_ANSWERS_ONLY]:
            klass = "sse-server-request-taken-for-the-answer"      # the member before ecb7629: its known failing input
        elif "late-answer" in c["label"] and n == 2 and not cfg[I_DROP_LATE]:
            klass = "sse-late-answer-second-terminal"       # the member without C12-6: its known failing input
        elif n == 0 and stringified:
            klass = "sse-synth-error-id-stringified"
        elif n == 0 and "other-status" in c["label"]:
            klass = "sse-other-status-no-terminal"
        elif not in_env:
            continue                                     # outside the property's environment (e.g. 200 with a junk body)
        else:
            klass = ("sse-request-no-terminal:" if n == 0 else "sse-request-multiple-terminals:") + c["label"]
        ctx.spec_violation(klass, case, f"request id {rid!r}: {n} terminal message(s); delivered {data}")
    # ordering: what was on the stream and is delivered, is delivered in stream order
    full = cfg[I_DROP_LATE] and cfg[I_ROUTE_IN_STREAM] and cfg[1] and cfg[2] and cfg[I_ANSWERS_ONLY]
    due_reqs = []
    for c, o, sok_late, d in zip(cases, obs, sched_late, due):
        if len(c["rids"]) != 1:
            continue
        on_stream = [tuple(e[1]) for e in c["evs"] if e[0] == "sse"]
        got = [tuple(x[1]) for x in o["delivered"] if tuple(x[1]) in on_stream]
        want = [s for s in on_stream if s in got]
        case = {"kind": "request", "label": c["label"], "ids": c["rids"], "variant": c["variant"], "events": _jsonable(c["evs"])}
        ctx.spec_total += 1
        if got != want:
            klass = "sse-answer-overtaken-by-later-event" if not cfg[I_ROUTE_IN_STREAM] else "sse-stream-order-broken:" + c["label"]
            ctx.spec_violation(klass, case, f"stream order {want} delivered {got}")
        # full strength (Spec/C12.v stream_due, the conclusion of C12_in_order_full): for a code that behaves like a member the
        # theorem is about, EVERYTHING due from the stream is on the read stream, in stream order, and nothing else from it
        if full and c["rids"][0] is not None and sok_late:
            due_reqs.append((c, case, [dec_msg(x) for x in d], got))
    dres = model.run([call(12, sx_list([sx_msg(m) for m in want]), sx_list([sx_msg(g) for g in got])) for _c, _k, want, got in due_reqs])
    for (c, case, want, got), ok in zip(due_reqs, dres):
        ctx.spec_total += 1
        ctx.count("req-full-strength-order")
        if not ok:
            ctx.spec_violation("sse-stream-delivery-not-as-due:" + c["label"], case, f"due from the stream {want} delivered {got}")


def check_backed_up_reader(ctx, model, only=None):
    """The application is not reading: N server notifications are waiting in the read stream when a request is sent, 202-
    acknowledged and then times out; its answer arrives LATE, followed by one more notification; then the application drains.
    Exactly one terminal message for the request, every notification once and in order - also when the read stream was full
    at the moment the transport had to put its synthesised timeout error there."""
    T = 2.0
    plans = [only] if only else [(n, late) for n in (0, 50, 99, 100) for late in (0.05, 0.3, 1.0)]
    items = []
    for n, late in plans:
        notifs = [notif(9000 + i) for i in range(n)]
        ans, after = res("r1", 8999), notif(9900)
        stream = [[T_EP, EP_STD]] + ([[0.1, "".join(enc_event(x) for x in notifs).encode()]] if notifs else [])
        sc = {"timeout": T, "collector_delay": 0.3 + T + late + 1.0,
              "actions": [["sleep", 0.2], ["send", req_msg("r1")], ["sleep", T + late + 3.0]],
              "script": {"connect": ["status", 0.02, 200], "stream": stream, "end": None,
                         "posts": [{"delay": 0.1, "outcome": ["status", 202, b""],
                                    "events": [[0.1 + T + late, (enc_event(ans) + enc_event(after)).encode()]]}]}}
        items.append((n, late, notifs + [after], session(sc)))
    reqs = []
    for n, late, unrelated, o in items:
        impl = [tuple(x[1]) for x in o["delivered"]]
        toks = {absmsg(u)[2] for u in unrelated}
        reqs.append(call(11, sx_id("r1"), sx_list([sx_msg(x) for x in impl])))
        reqs.append(call(12, sx_list([sx_msg(absmsg(u)) for u in unrelated]), sx_list([sx_msg(x) for x in impl if x[2] in toks])))
    res_ = model.run(reqs)
    for k, (n, late, unrelated, o) in enumerate(items):
        case = {"kind": "backed-up-reader", "unread_notifications": n, "answer_late_by_s": late}
        ctx.case(case, nontrivial=True)
        ctx.count("backed-up-reader:" + ("full" if n >= 100 else "room"))
        impl = [tuple(x[1]) for x in o["delivered"]]
        nterm = sum(1 for (i, kd, _t) in impl if kd[0] in (0, 1) and i == "r1")
        ctx.spec_total += 2
        if not res_[2 * k]:
            ctx.spec_violation("sse-request-no-terminal:backed-up-reader" if nterm == 0 else "sse-request-multiple-terminals:backed-up-reader",
                               case, f"request 'r1': {nterm} terminal message(s) among {len(impl)} delivered")
        if not res_[2 * k + 1]:
            ctx.spec_violation("sse-unrelated-traffic-lost-or-reordered:backed-up-reader", case,
                               f"{len(unrelated)} notifications sent, {sum(1 for x in impl if x[1][0] == 3)} delivered")


# ---- exit paths ---------------------------------------------------------------
def exit_cases(ctx):
    T = 2.0
    cases = []
    post202 = {"delay": 0.4, "outcome": ["status", 202, b""], "events": []}
    post202_ans = {"delay": 0.4, "outcome": ["status", 202, b""], "events": [[0.7, enc_event(res("r1", 9)).encode()]]}
    points = [("before-request", [], 0.3, []), ("post-in-flight", [post202], 0.3, [["send", req_msg("r1")]]),
              ("waiting-for-event", [post202], 0.8, [["send", req_msg("r1")]]),
              ("answer-just-arrived", [post202_ans], 0.8, [["send", req_msg("r1")]]),
              ("after-completion", [post202_ans], 1.5, [["send", req_msg("r1")]]),
              ("stream-ended", [post202], 0.8, [["send", req_msg("r1")]]),
              ("stream-failed", [post202], 0.8, [["send", req_msg("r1")]]),
              ("stream-ended-idle", [], 0.8, []),
              ("stream-ended-post-in-flight", [{"delay": 1.0, "outcome": ["status", 202, b""], "events": []}], 0.8, [["send", req_msg("r1")]]),
              ("queued-second", [post202, post202], 0.8, [["send", req_msg("r1")], ["send", req_msg("r2")]])]
    for name, posts, at, acts in points:
        for how in ("normal", "exception", "cancel-task", "cancel-scope"):
            end = ["error", 0.5] if name == "stream-failed" else (["close", 0.5] if name.startswith("stream-ended") else None)
            script = {"connect": ["status", 0.02, 200], "stream": [[T_EP, EP_STD]], "end": end, "posts": posts}
            sc = {"timeout": T, "script": script, "label": name, "how": how, "at": at}
            if how == "normal":
                sc["actions"] = acts + [["sleep", at]]
            elif how == "exception":
                sc["actions"] = acts + [["sleep", at], ["raise"]]
            else:
                sc["actions"] = acts + [["sleep", 100.0]]
                sc["cancel"] = ["task" if how == "cancel-task" else "scope", T_EP + at]
            cases.append(sc)
    # cancellation while entering
    for est_name, script, at in (("slow-announcement", {"connect": ["status", 0.02, 200], "stream": [[1.0, EP_STD]], "end": None}, 0.5),
                                 ("connect-hang", {"connect": ["hang"], "stream": [], "end": None}, 0.5),
                                 ("connecting", {"connect": ["status", 1.0, 200], "stream": [[1.1, EP_STD]], "end": None}, 0.5),
                                 ("silent-stream", {"connect": ["status", 0.02, 200], "stream": [[0.1, b": x\n\n"]], "end": None}, 0.5)):
        for how in ("cancel-task", "cancel-scope"):
            cases.append({"timeout": T, "script": script, "label": "entering:" + est_name, "how": how, "at": at, "actions": [],
                          "cancel": ["task" if how == "cancel-task" else "scope", at]})
    return cases


def check_exits(ctx, model, cfg):
    cases = exit_cases(ctx)
    obs = [session(sc) for sc in cases]
    lev_of = {"normal": "(9 0)", "exception": "(9 1)", "cancel-task": "(9 2)", "cancel-scope": "(9 3)"}
    reqs = []
    for sc in cases:
        if sc["label"].startswith("entering:"):
            levs = ["0"] + (["1"] if sc["script"]["connect"][0] == "status" and sc["script"]["connect"][1] < sc["at"] else []) + ["8"]
        else:
            pend = sc["label"] in ("post-in-flight", "waiting-for-event", "queued-second", "stream-ended", "stream-failed",
                                   "stream-ended-post-in-flight")
            wait = sc["label"] in ("waiting-for-event", "queued-second", "stream-ended", "stream-failed")
            levs = ["0", "1", "6"] + (["4"] if pend else []) + (["9"] if wait else []) \
                + (["2"] if sc["label"].startswith("stream-") else []) + [lev_of[sc["how"]]]
        reqs.append(call(4, sx_cfg(cfg), sx_list(levs)))
    mres = model.run(reqs)
    for sc, o, m in zip(cases, obs, mres):
        case = {"kind": "exit", "label": sc["label"], "how": sc["how"], "at": sc["at"], "script": _jsonable(sc["script"]),
                "actions": sc["actions"], "cancel": sc.get("cancel"), "timeout": sc["timeout"]}
        ctx.case(case, nontrivial=True)
        ctx.count("exit:" + sc["how"])
        ctx.count("exit-point:" + sc["label"].split(":")[0])
        entering = sc["label"].startswith("entering:")
        want_exit = {"normal": "normal", "exception": "exception"}.get(sc["how"], "cancelled")
        hang = o["exit"][0] == "hang"
        stuck_like = hang or (sc["label"].startswith("stream-") and o["left_tasks"] == ["SSETransport._outgoing_message_handler"])
        ctx.spec_total += 1
        if stuck_like:
            ctx.spec_violation("sse-exit-hangs-after-stream-end", case,
                               f"{sc['how']} at {sc['label']}: exit={o['exit']} tasks left={o['left_tasks']} (the context exit "
                               f"{'never returned' if hang else 'abandoned the sender task'})")
            clean = False
        else:
            clean = judge_leftovers(ctx, model, case, o, sc["how"] + " at " + sc["label"], cancelled_entering=entering)
        m_closed, m_released, m_stuck = bool(m[0]), bool(m[1]), bool(m[2])
        if (m_stuck != stuck_like or (not m_stuck and (m_released != clean or not m_closed))
                or (not hang and o["exit"][0] != want_exit) or (bool(o["enter"]) == entering)):
            ctx.mismatch(case, {"released": clean, "stuck": stuck_like, "exit": o["exit"], "entered": bool(o["enter"]),
                                "left": o["left_tasks"]},
                         {"closed": m_closed, "released": m_released, "stuck": m_stuck}, "life cycle: model != implementation")
        # nothing delivered twice
        toks = [tuple(x[1]) for x in o["delivered"]]
        ctx.spec_total += 1
        if len(toks) != len(set(toks)):
            ctx.spec_violation("sse-message-delivered-twice", case, f"delivered {toks}")


# ---- tables -------------------------------------------------------------------
def check_tables(ctx, model):
    pts = range(0, 0x110000) if (ctx.thorough or ctx.escalated) else list(range(0, 0x3100)) + [0xFEFF, 0x1D7CE, 0x10FFFF]
    pts = [c for c in pts if not (0xD800 <= c <= 0xDFFF)]
    r = model.run([call(0, str(c)) for c in pts])
    for c, b in zip(pts, r):
        if bool(b) != chr(c).isspace():
            ctx.mismatch({"kind": "isspace", "cp": c}, chr(c).isspace(), bool(b), "str.strip() whitespace table: model != CPython")
    ints = [0, 1, -1, 7, 9, 10, 99, 100, -100, 12345678901234567890, -2 ** 63, 2 ** 64, 1000000] + [ctx.rng.randrange(-10 ** 12, 10 ** 12) for _ in range(200)]
    r = model.run([call(5, sx_id(i)) for i in ints])
    for i, s in zip(ints, r):
        if lib.as_str(s) != str(i):
            ctx.mismatch({"kind": "str(id)", "id": i}, str(i), lib.as_str(s), "pending-table key str(id): model != CPython")
    ctx.count("table:isspace", len(pts))
    ctx.count("table:str(int)", len(ints))
    ctx.corr_total += len(pts) + len(ints)


# ---- which member of the family is the code under test? --------------------------
def detect_variant(ctx):
    o = anyio.run(parse_real, [b"event:endpoint\ndata:/messages/x\n\n"])
    opt_space = bool(o["acts"])
    c = {"T": 1.0, "rids": [7], "durs": [1.4], "posts": [{"delay": 0.1, "outcome": ["status", 202, b""], "events": []}]}
    o = session(to_session(c))
    keep_id = any(x[1][0] == 7 and x[1][1][0] == 1 for x in o["delivered"])
    c = {"T": 1.0, "rids": ["r1"], "durs": [0.3], "posts": [{"delay": 0.1, "outcome": ["status", 500, b'{"error":"boom"}'], "events": []}]}
    o = session(to_session(c))
    other_terminal = any(x[1][0] == "r1" and x[1][1][0] == 1 for x in o["delivered"])
    o = session({"timeout": 2.0, "actions": [], "cancel": ["task", 0.5],
                 "script": {"connect": ["status", 0.02, 200], "stream": [[1.0, EP_STD]], "end": None}})
    enter_cancel = not o["left_tasks"] and o["clients_open"] == 0
    o = session({"timeout": 2.0, "actions": [["send", req_msg("r1")], ["sleep", 0.8]],
                 "script": {"connect": ["status", 0.02, 200], "stream": [[T_EP, EP_STD]], "end": ["close", 0.5],
                            "posts": [{"delay": 0.4, "outcome": ["status", 202, b""], "events": []}]}})
    reraise = o["exit"][0] != "hang"
    # 202, the timeout error is synthesised, the answer arrives 0.4 s later: dropped, or delivered as a second terminal?
    a = res("r1", 41)
    c = {"T": 1.0, "rids": ["r1"], "durs": [1.9],
         "posts": [{"delay": 0.1, "outcome": ["status", 202, b""], "events": [[1.5, enc_event(a).encode()]]}]}
    o = session(to_session(c))
    drop_late = sum(1 for x in o["delivered"] if x[1][0] == "r1" and x[1][1][0] in (0, 1)) == 1
    # 202, then answer and notification in one chunk: which of the two reaches the read stream first?
    a, n = res("r1", 42), notif(43)
    c = {"T": 1.0, "rids": ["r1"], "durs": [0.8],
         "posts": [{"delay": 0.1, "outcome": ["status", 202, b""], "events": [[0.4, (enc_event(a) + enc_event(n)).encode()]]}]}
    o = session(to_session(c))
    toks = [x[1][2] for x in o["delivered"]]
    route_in_stream = toks == [42, 43]
    # a ping of the server's own bearing the pending id arrives while the POST is in flight; the POST's 200 body is the answer
    a = res("r1", 44)
    ping = {"jsonrpc": "2.0", "id": "r1", "method": "ping", "params": {"k": 45}}
    c = {"T": 1.0, "rids": ["r1"], "durs": [0.6],
         "posts": [{"delay": 0.3, "outcome": ["status", 200, json.dumps(a).encode()], "events": [[0.1, enc_event(ping).encode()]]}]}
    o = session(to_session(c))
    answers_only = sum(1 for x in o["delivered"] if x[1][0] == "r1" and x[1][1][0] in (0, 1)) == 1
    return [opt_space, keep_id, other_terminal, enter_cancel, reraise, drop_late, route_in_stream, answers_only]


# --------------------------------------------------------------------------- #
def explore(ctx, model, cfg):
    check_tables(ctx, model)
    check_parser(ctx, model, cfg)
    check_establishment(ctx, model, cfg)
    check_requests(ctx, model, cfg)
    check_backed_up_reader(ctx, model)
    check_exits(ctx, model, cfg)


def run(ctx):
    lib.standard_obligations(ctx, GEN, TARGETS)
    model = lib.Driver("C12")
    if ctx.broken_obligations:
        ctx.escalated = True
    cfg = detect_variant(ctx)
    ctx.extra["code_variant"] = dict(zip(CFG_NAMES, cfg))
    ctx.extra["full_theorems_apply"] = all(cfg)
    ctx.extra["model_member"] = ("cfg_patched" if all(cfg) else "cfg_before_answers_only" if all(cfg[:7]) and not cfg[7] else
                                 "cfg_head" if all(cfg[:5]) and not any(cfg[5:]) else
                                 "cfg_orig" if not any(cfg) else "other")
    refuted_by = {"drop_late": "C12_one_terminal_refuted / C12_in_order_refuted", "route_in_stream": "C12_in_order_refuted",
                  "answers_only": "witness C12_server_request_witness"}
    for name, on in zip(CFG_NAMES, cfg):
        if not on:
            ctx.notes.append(f"the code under test behaves like the member without {PATCH_OF[name]}: the full-strength theorem needing "
                             f"'{name}' does not apply to it; the refutation {refuted_by.get(name, 'witness C12_orig_witnesses')} does, "
                             f"and the spec oracle reports the failing inputs")
    explore(ctx, model, cfg)
    if ctx.corr_mismatch and not ctx.escalated and not ctx.spec_fail:
        ctx.escalated = True
        explore(ctx, model, cfg)
    # a member without a patch must have produced its failing inputs (else the claim 'property not shown' stands unexplained)
    expected = {"opt_space": "sse-field-without-space-not-recognised", "keep_id": "sse-synth-error-id-stringified",
                "other_terminal": "sse-other-status-no-terminal", "enter_cancel": "sse-cancel-during-enter-leaks",
                "reraise_cancel": "sse-exit-hangs-after-stream-end", "drop_late": "sse-late-answer-second-terminal",
                "route_in_stream": "sse-answer-overtaken-by-later-event",
                "answers_only": "sse-server-request-taken-for-the-answer"}
    seen = {f["class"] for f in ctx.spec_fail}
    for name, on in zip(CFG_NAMES, cfg):
        if not on:
            ctx.oblige(f"witness-found:{name}=false", expected[name] in seen,
                       f"code behaves like the unpatched member for '{name}' but no failing input of class {expected[name]} was found")
    if ctx.thorough:
        lib.coqchk(ctx, "C12")
    ctx.rule = ("tables: str.isspace over code points (0..0x30ff quick, all thorough), str(int); parser: every SSE spelling "
                "(typed/untyped, optional space after event:/data:, LF/CRLF, comments, id:/retry:, keepalive, junk, unterminated tail, "
                "non-ASCII payloads) x every cut for k<=3 on short streams, seeded cuts on long ones, through the real httpx aiter_text; "
                "establishment: announcement forms x paths x chunkings, 13 statuses, connect error/slow/hang, closed/failed/silent "
                "streams, empty URL, slow announcement around the timeout, timeouts 0.5/5/20 s (15 s connect cap); requests: 5 id "
                "kinds x modes {200 body, 200 not JSON, 202 then event, event then 202, 202 silence, late answer after {timeout error, failed "
                "POST, 500, 200 not JSON}, late answer during the next request, 6 other statuses x "
                "7 bodies, 3 exceptions, event then failure} x preceding/following unrelated traffic (same chunk, same time, later) x "
                "3 spellings, pairs of requests, notifications; exits {normal, exception, task.cancel, anyio scope} at 7 life-cycle "
                "points + cancellation while entering (4 establishment states). distinct = distinct case dicts; every case runs the "
                "real code")
    return lib.finish(ctx, TRUSTED, ASSUME)


def replay(ctx, data):
    model = lib.Driver("C12")
    case = _unjson(data.get("case", {}))
    kind = case.get("kind")
    print("replaying", kind, case.get("label"), "class", data.get("class"))
    if kind == "backed-up-reader":
        check_backed_up_reader(ctx, model, only=(case["unread_notifications"], case["answer_late_by_s"]))
        for f in ctx.spec_fail:
            print("REPRODUCED", f["class"], f["detail"][:200])
        return 1 if ctx.spec_fail else 0
    if kind == "parser":
        text = case["text"].encode("utf-8")
        cuts = case.get("cuts") or [len(text)]
        chunks, p = [], 0
        for n in cuts:
            chunks.append(text[p:p + n])
            p += n
        o = anyio.run(parse_real, chunks)
        ref = anyio.run(parse_real, [text])
        print("delivered (this chunking):", o["delivered"])
        print("delivered (one chunk)    :", ref["delivered"])
        print("handler calls:", o["acts"])
        bad = o["delivered"] != ref["delivered"] or data.get("class") == "sse-field-without-space-not-recognised" and \
            len(o["delivered"]) < text.count(b"jsonrpc")
        if "sent" in case:                      # what the server put on the stream, in order
            print("sent                     :", case["sent"])
            bad = bad or _norm(ref["delivered"]) != case["sent"]
        print("REPRODUCED" if bad else "not reproduced")
        return 1 if bad else 0
    if kind == "establishment":
        sc = {"timeout": case["timeout"], "script": case["script"], "actions": [], "params": case.get("params")}
        o = session(sc)
        print("enter:", o["enter"], "exit:", o["exit"], "leftovers:", o["left_tasks"], o["clients_open"], o["streams_open"])
        klass = data.get("class")
        if klass in ("sse-field-without-space-not-recognised", "announced-endpoint-not-entered"):
            bad = not o["enter"]
        elif klass == "dead-connection-entered":
            bad = bool(o["enter"])
        elif klass == "enter-raises-after-timeout":
            bad = not o["enter"] and o["exit"][1] > ms(case["timeout"])
        else:
            bad = bool(o["left_tasks"] or o["clients_open"] or o["streams_open"] or o["mem_open"])
        print("REPRODUCED" if bad else "not reproduced")
        return 1 if bad else 0
    if kind == "exit":
        sc = {"timeout": case["timeout"], "script": case["script"], "actions": case["actions"], "cancel": case.get("cancel")}
        o = session(sc)
        print("exit:", o["exit"], "left tasks:", o["left_tasks"], "clients open:", o["clients_open"], "streams open:",
              o["streams_open"], "mem open:", o["mem_open"])
        bad = bool(o["exit"][0] == "hang" or o["left_tasks"] or o["clients_open"] or o["streams_open"] or o["mem_open"])
        print("REPRODUCED" if bad else "not reproduced")
        return 1 if bad else 0
    if kind == "request":
        ctx.escalated = True
        cfg = detect_variant(ctx)
        check_requests(ctx, model, cfg)
        hits = [f for f in ctx.spec_fail if f["class"] == data.get("class")]
        for f in hits[:2]:
            print("REPRODUCED", f["class"], f["detail"][:300])
        return 1 if hits else 0
    print("unknown replay kind")
    return 0

#!/usr/bin/env python3
"""c06_fb_worker.py <in.json> <out.json> -- runs c06.run_sequences in THIS process (started with MCP_FORCE_FALLBACK=1 by
harness/c06.py, so that the typed messages are the fallback back end's classes and its serialiser writes the lines)."""
import json
import os
import sys

import anyio

sys.path.insert(0, os.path.dirname(os.path.abspath(__file__)))
import c06  # noqa: E402


def main():
    seqs = [(d, bool(c)) for d, c in json.load(open(sys.argv[1], encoding="utf-8"))]
    from chuk_mcp.protocol import mcp_pydantic_base as B
    res = anyio.run(c06.run_sequences, seqs)
    out = {"backend": "pydantic" if B.PYDANTIC_AVAILABLE else "fallback",
           "results": [{"writes": [bytes(w).hex() for w in writes], "closed": bool(closed), "idle": bool(idle)}
                       for writes, closed, idle in res]}
    json.dump(out, open(sys.argv[2], "w", encoding="utf-8"))


main()

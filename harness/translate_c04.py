"""Translator plugin for C04: regenerates Gen/ServerInitGen.v from the AST of
ProtocolHandler._handle_initialize (server/protocol_handler.py) by SYMBOLIC EXECUTION of a small Python subset.

The function body (and every helper method / module function of the same file it calls, inlined) is executed over symbolic
values: the wire value read by params.get("protocolVersion", <default>), string / list constants (literals, module-level
names bound once to a literal, SUPPORTED_VERSIONS / CURRENT_VERSION / MINIMUM_VERSION imported from protocol.types.versioning
and regenerated into Gen/VersionsGen.v), conditionals over membership / equality tests of those, fresh dict literals, the
session id returned by create_session, the response built by self.create_response, and opaque values that do not depend on
the requested version.  Every path must end in `return (self.create_response(<id>, <fresh dict with "protocolVersion": V>),
<the id create_session returned>)` with create_session called exactly once, its version argument being the same V.  The
decision tree of V over the paths becomes the Gallina function server_decide : option str -> option str
(Some s = a JSON string, None = any non-string JSON value, which is never a member of a list of strings).

So renaming variables, extracting helpers, hoisting constants, early returns and conditional expressions translate to the
same model; anything outside the subset (loops, try, with, item assignment into something that is not a fresh dict, a call
of unknown code on the requested version, ...) raises TranslateError: fail-closed, the Gen file is removed.
"""

from __future__ import annotations

import ast

import translate as T

PATH = "server/protocol_handler.py"
VAR = "protocol_version"
LIST_CONSTS = {"SUPPORTED_VERSIONS"}
STR_CONSTS = {"CURRENT_VERSION", "MINIMUM_VERSION"}



def _stores(node, name):
    for n in ast.walk(node):
        if isinstance(n, ast.Name) and n.id == name and isinstance(n.ctx, (ast.Store, ast.Del)):
            return True
        if isinstance(n, (ast.Global, ast.Nonlocal)) and name in n.names:
            return True
        if isinstance(n, ast.NamedExpr) and isinstance(n.target, ast.Name) and n.target.id == name:
            return True
    return False


def _loads(node, name):
    return any(isinstance(n, ast.Name) and n.id == name and isinstance(n.ctx, ast.Load) for n in ast.walk(node))


def _imported_version_names(tree):
    names = set()
    for st in tree.body:
        if isinstance(st, ast.ImportFrom) and st.module and st.module.endswith("types.versioning"):
            for a in st.names:
                if a.asname is not None:
                    raise T.TranslateError("versioning constant imported under an alias", st)
                names.add(a.name)
    return names


class Gen:
    def __init__(self, tree):
        self.tree = tree
        self.imported = _imported_version_names(tree)
        for n in LIST_CONSTS | STR_CONSTS:
            for st in ast.walk(tree):
                if isinstance(st, ast.Name) and st.id == n and isinstance(st.ctx, (ast.Store, ast.Del)):
                    raise T.TranslateError(f"{n} is rebound in protocol_handler.py", st)

    def const_name(self, node, allowed):
        if isinstance(node, ast.Name) and node.id in allowed:
            if node.id not in self.imported:
                raise T.TranslateError(f"{node.id} is not imported from protocol.types.versioning", node)
            return T.coq_ident(node.id)
        return None

    def list_expr(self, node) -> str:
        n = self.const_name(node, LIST_CONSTS)
        if n:
            return n
        if isinstance(node, (ast.List, ast.Tuple, ast.Set)):
            return "[" + "; ".join(self.str_expr(e, literal_only=True) for e in node.elts) + "]"
        raise T.TranslateError("membership in something that is not a known version list", node)

    def str_expr(self, node, literal_only=False) -> str:
        """An expression of type str (Gallina: str)."""
        n = self.const_name(node, STR_CONSTS)
        if n:
            return n
        if isinstance(node, ast.Constant) and isinstance(node.value, str):
            return T.strlit(node.value)
        if not literal_only and isinstance(node, ast.Subscript) and self.const_name(node.value, LIST_CONSTS) \
                and isinstance(node.slice, ast.Constant) and node.slice.value == 0:
            return f"(hd [] {self.const_name(node.value, LIST_CONSTS)})"
        raise T.TranslateError("unsupported version expression", node)

    def val_expr(self, node) -> str:
        """An expression assigned to protocol_version (Gallina: option str)."""
        if isinstance(node, ast.Name) and node.id == VAR:
            return VAR
        return f"(Some {self.str_expr(node)})"

    def test(self, node) -> str:
        if isinstance(node, ast.UnaryOp) and isinstance(node.op, ast.Not):
            return f"(negb {self.test(node.operand)})"
        if isinstance(node, ast.BoolOp):
            op = " && " if isinstance(node.op, ast.And) else " || "
            return "(" + op.join(self.test(v) for v in node.values) + ")"
        if isinstance(node, ast.Compare) and len(node.ops) == 1 and isinstance(node.left, ast.Name) and node.left.id == VAR:
            op, right = node.ops[0], node.comparators[0]
            if isinstance(op, (ast.In, ast.NotIn)):
                t = f"(pv_in {VAR} {self.list_expr(right)})"
                return t if isinstance(op, ast.In) else f"(negb {t})"
            if isinstance(op, (ast.Eq, ast.NotEq)):
                t = f"(pv_eq {VAR} {self.str_expr(right)})"
                return t if isinstance(op, ast.Eq) else f"(negb {t})"
        raise T.TranslateError("unsupported test in the version decision", node)

    def branch(self, stmts, owner) -> str:
        """Value of protocol_version after a branch made of assignments to it only."""
        val = VAR
        seen = False
        for st in stmts:
            if T.is_log_call(st) or T.is_docstring(st) or isinstance(st, ast.Pass):
                continue
            if isinstance(st, ast.Assign) and len(st.targets) == 1 and isinstance(st.targets[0], ast.Name) \
                    and st.targets[0].id == VAR:
                if seen:
                    raise T.TranslateError("protocol_version assigned twice in one branch", st)
                val = self.val_expr(st.value)
                seen = True
                continue
            raise T.TranslateError(f"unsupported statement {type(st).__name__} inside the version decision", st)
        return val



# --------------------------------------------------------------------------- #
# Symbolic values
# --------------------------------------------------------------------------- #
PV = ("pv",)                      # the requested version (after the default was applied)
OPAQUE = ("opaque",)              # anything that does not depend on the requested version
SELF, MESSAGE, PARAMS, SESSION, NONE = ("self",), ("message",), ("params",), ("session",), ("none",)
MAX_DEPTH = 6
MAX_PATHS = 64


def is_ver(v):
    return v == PV or v[0] in ("str", "cond")


def depends(v):
    if v == PV:
        return True
    if v[0] == "cond":
        return True
    if v[0] == "bool":
        return True
    if v[0] == "dict":
        return any(depends(x) for x in v[1].values())
    if v[0] in ("tuple", "resp"):
        return any(depends(x) for x in v[1:] if isinstance(x, tuple)) or any(depends(x) for x in (v[1] if v[0] == "tuple" else []))
    return False


def emit(v) -> str:
    """Gallina expression of type option str."""
    if v == PV:
        return VAR
    if v[0] == "str":
        return f"(Some {v[1]})"
    if v[0] == "cond":
        return f"(if {v[1]} then {emit(v[2])} else {emit(v[3])})"
    raise T.TranslateError(f"not a version value: {v[0]}")


class Path:
    """State along one execution path."""

    def __init__(self):
        self.session_arg = None      # symbolic version handed to create_session
        self.default = None          # Gallina text of the default of params.get("protocolVersion", ...)

    def copy(self):
        p = Path()
        p.session_arg, p.default = self.session_arg, self.default
        return p


class Return(Exception):
    pass


class Sym:
    def __init__(self, tree, cls):
        self.g = Gen(tree)
        self.tree = tree
        self.cls = cls
        self.methods = {n.name: n for n in cls.body if isinstance(n, (ast.FunctionDef, ast.AsyncFunctionDef))}
        self.functions = {n.name: n for n in tree.body if isinstance(n, (ast.FunctionDef, ast.AsyncFunctionDef))}
        self.consts = {}
        counts = {}
        for st in ast.walk(tree):
            if isinstance(st, ast.Name) and isinstance(st.ctx, (ast.Store, ast.Del)):
                counts[st.id] = counts.get(st.id, 0) + 1
        for st in tree.body:
            tgt = val = None
            if isinstance(st, ast.Assign) and len(st.targets) == 1 and isinstance(st.targets[0], ast.Name):
                tgt, val = st.targets[0].id, st.value
            elif isinstance(st, ast.AnnAssign) and isinstance(st.target, ast.Name) and st.value is not None:
                tgt, val = st.target.id, st.value
            if tgt and isinstance(val, ast.Constant) and isinstance(val.value, str) and counts.get(tgt) == 1:
                self.consts[tgt] = ("str", T.strlit(val.value))
        self.leaves = []             # (Path, returned value)

    # ------------------------------------------------------------------ expressions
    def ev(self, node, env, path, depth):
        if isinstance(node, ast.Await):
            return self.ev(node.value, env, path, depth)
        if isinstance(node, ast.Constant):
            if isinstance(node.value, str):
                return ("str", T.strlit(node.value))
            if node.value is None:
                return NONE
            return OPAQUE
        if isinstance(node, ast.Name):
            if node.id in env:
                return env[node.id]
            n = self.g.const_name(node, STR_CONSTS)
            if n:
                return ("str", n)
            n = self.g.const_name(node, LIST_CONSTS)
            if n:
                return ("list", n)
            if node.id in self.consts:
                return self.consts[node.id]
            return OPAQUE
        if isinstance(node, (ast.List, ast.Tuple, ast.Set)):
            vals = [self.ev(e, env, path, depth) for e in node.elts]
            if vals and all(v[0] == "str" for v in vals) and not isinstance(node, ast.Tuple):
                return ("list", "[" + "; ".join(v[1] for v in vals) + "]")
            if isinstance(node, ast.Tuple):
                if vals and all(v[0] == "str" for v in vals) and not any(True for _ in []):
                    pass
                return ("tuple", vals)
            if any(depends(v) for v in vals):
                raise T.TranslateError("the requested version is put into a collection", node)
            return OPAQUE
        if isinstance(node, ast.Dict):
            items = {}
            for k, v in zip(node.keys, node.values):
                val = self.ev(v, env, path, depth) if k is not None else OPAQUE
                if k is None:
                    if depends(self.ev(v, env, path, depth)):
                        raise T.TranslateError("** of a version-dependent mapping", node)
                    continue
                if isinstance(k, ast.Constant) and isinstance(k.value, str):
                    items[k.value] = val
                elif depends(val):
                    raise T.TranslateError("version-dependent value under a computed key", node)
            return ("dict", items)
        if isinstance(node, ast.IfExp):
            t = self.test(node.test, env, path, depth)
            a, b = self.ev(node.body, env, path, depth), self.ev(node.orelse, env, path, depth)
            if t is None:
                if a == b:
                    return a
                if depends(a) or depends(b):
                    raise T.TranslateError("version-dependent value chosen by a test the translator cannot read", node)
                return OPAQUE
            if is_ver(a) and is_ver(b):
                return ("cond", t, a, b)
            raise T.TranslateError("conditional expression over the requested version with non-version branches", node)
        if isinstance(node, ast.BoolOp) and isinstance(node.op, ast.Or) and len(node.values) == 2:
            a = self.ev(node.values[0], env, path, depth)
            b = self.ev(node.values[1], env, path, depth)
            if a == PARAMS and b == ("dict", {}):
                return PARAMS
            if depends(a) or depends(b):
                raise T.TranslateError("`or` over the requested version", node)
            return OPAQUE
        if isinstance(node, ast.Attribute):
            base = self.ev(node.value, env, path, depth)
            if depends(base):
                raise T.TranslateError("attribute of a version-dependent value", node)
            if base == SELF:
                return ("selfattr", node.attr)
            return OPAQUE
        if isinstance(node, ast.Subscript):
            base = self.ev(node.value, env, path, depth)
            if base[0] == "list" and isinstance(node.slice, ast.Constant) and node.slice.value == 0 and not base[1].startswith("["):
                return ("str", f"(hd [] {base[1]})")
            if base == PARAMS and isinstance(node.slice, ast.Constant) and node.slice.value == "protocolVersion":
                raise T.TranslateError("params['protocolVersion'] (raises when absent) is outside the subset", node)
            if base[0] == "dict" and isinstance(node.slice, ast.Constant) and node.slice.value in base[1]:
                return base[1][node.slice.value]
            if depends(base) or depends(self.ev(node.slice, env, path, depth)):
                raise T.TranslateError("subscript involving the requested version", node)
            return OPAQUE
        if isinstance(node, ast.Call):
            return self.call(node, env, path, depth)
        if isinstance(node, (ast.Compare, ast.UnaryOp, ast.BoolOp)):
            t = self.test(node, env, path, depth)
            return OPAQUE if t is None else ("bool", t)
        if isinstance(node, ast.JoinedStr):
            return OPAQUE            # only ever used for messages; a version built by an f-string is never in a list test
        if isinstance(node, ast.NamedExpr):
            raise T.TranslateError("assignment expression", node)
        for sub in ast.walk(node):
            if isinstance(sub, ast.Name) and sub.id in env and depends(env[sub.id]):
                raise T.TranslateError(f"unsupported expression {type(node).__name__} over the requested version", node)
        return OPAQUE

    def test(self, node, env, path, depth):
        """Gallina bool text, or None when the test does not involve the requested version."""
        if isinstance(node, ast.UnaryOp) and isinstance(node.op, ast.Not):
            t = self.test(node.operand, env, path, depth)
            return None if t is None else f"(negb {t})"
        if isinstance(node, ast.BoolOp):
            ts = [self.test(v, env, path, depth) for v in node.values]
            if all(t is None for t in ts):
                return None
            if any(t is None for t in ts):
                raise T.TranslateError("test mixing the requested version with something the translator cannot read", node)
            return "(" + (" && " if isinstance(node.op, ast.And) else " || ").join(ts) + ")"
        if isinstance(node, ast.Compare) and len(node.ops) == 1:
            left = self.ev(node.left, env, path, depth)
            right = self.ev(node.comparators[0], env, path, depth)
            op = node.ops[0]
            if not depends(left) and not depends(right):
                return None
            if isinstance(op, (ast.In, ast.NotIn)) and is_ver(left) and right[0] == "list":
                t = f"(pv_in {emit(left)} {right[1]})"
                return t if isinstance(op, ast.In) else f"(negb {t})"
            if isinstance(op, (ast.Eq, ast.NotEq)) and is_ver(left) and right[0] == "str":
                t = f"(pv_eq {emit(left)} {right[1]})"
                return t if isinstance(op, ast.Eq) else f"(negb {t})"
            if isinstance(op, (ast.Eq, ast.NotEq)) and is_ver(right) and left[0] == "str":
                t = f"(pv_eq {emit(right)} {left[1]})"
                return t if isinstance(op, ast.Eq) else f"(negb {t})"
            raise T.TranslateError("unsupported comparison involving the requested version", node)
        if isinstance(node, ast.Call) and isinstance(node.func, ast.Name) and node.func.id == "isinstance" and len(node.args) == 2:
            v = self.ev(node.args[0], env, path, depth)
            if depends(v):
                if is_ver(v) and isinstance(node.args[1], ast.Name) and node.args[1].id == "str":
                    return f"(match {emit(v)} with Some _ => true | None => false end)"
                raise T.TranslateError("isinstance test on the requested version other than `str`", node)
            return None
        v = self.ev(node, env, path, depth)
        if v[0] == "bool":
            return v[1]
        if depends(v):
            raise T.TranslateError("truth value of the requested version", node)
        return None

    def call(self, node, env, path, depth):
        f = node.func
        args = [self.ev(a, env, path, depth) for a in node.args if not isinstance(a, ast.Starred)]
        kws = {k.arg: self.ev(k.value, env, path, depth) for k in node.keywords if k.arg}
        if any(isinstance(a, ast.Starred) for a in node.args) or any(k.arg is None for k in node.keywords):
            if any(depends(v) for v in args) or any(depends(v) for v in kws.values()):
                raise T.TranslateError("star-arguments in a call that involves the requested version", node)
            return OPAQUE
        # getattr(message, "params", None)
        if isinstance(f, ast.Name) and f.id == "getattr" and len(args) == 3 and args[0] == MESSAGE \
                and isinstance(node.args[1], ast.Constant) and node.args[1].value == "params" and args[2] == NONE:
            return PARAMS
        if isinstance(f, ast.Attribute):
            base = self.ev(f.value, env, path, depth)
            if base == PARAMS and f.attr == "get" and node.args and isinstance(node.args[0], ast.Constant) \
                    and node.args[0].value == "protocolVersion":
                if kws or len(args) > 2:
                    raise T.TranslateError("params.get('protocolVersion', ...) with unexpected arguments", node)
                if len(args) == 2 and args[1] != NONE:
                    if args[1][0] != "str":
                        raise T.TranslateError("default of params.get('protocolVersion', ...) is not a string constant", node)
                    d = f"(Some {args[1][1]})"
                else:
                    d = "None"       # absent behaves like a non-string (null)
                if path.default is not None and path.default != d:
                    raise T.TranslateError("protocolVersion is read twice with different defaults", node)
                path.default = d
                return PV
            if f.attr == "create_session":
                ver = kws.get("protocol_version", args[1] if len(args) >= 2 else None)
                if ver is None or not is_ver(ver):
                    raise T.TranslateError("create_session is not given a version the translator can follow", node)
                if path.session_arg is not None:
                    raise T.TranslateError("create_session is called twice on one path", node)
                path.session_arg = ver
                return SESSION
            if base == SELF and f.attr == "create_response" and len(args) == 2 and not kws:
                return ("resp", args[1])
            target = None
            if base == SELF and f.attr in self.methods:
                target = (self.methods[f.attr], True)
            elif isinstance(f.value, ast.Name) and f.value.id == self.cls.name and f.attr in self.methods:
                target = (self.methods[f.attr], False)
            if target:
                return self.inline(target[0], args, kws, path, depth, node, bound=target[1])
        if isinstance(f, ast.Name) and f.id in self.functions:
            return self.inline(self.functions[f.id], args, kws, path, depth, node, bound=False)
        if any(depends(v) for v in args) or any(depends(v) for v in kws.values()):
            if isinstance(f, ast.Attribute) and f.attr in ("debug", "info", "warning", "error", "exception", "critical", "log"):
                return OPAQUE        # logging the requested version changes nothing
            raise T.TranslateError("the requested version is passed to code the translator cannot follow", node)
        return OPAQUE

    def inline(self, fn, args, kws, path, depth, node, bound):
        if depth >= MAX_DEPTH:
            raise T.TranslateError("helper calls nested too deeply", node)
        static = any(isinstance(d, ast.Name) and d.id == "staticmethod" for d in fn.decorator_list)
        other = [d for d in fn.decorator_list if not (isinstance(d, ast.Name) and d.id in ("staticmethod",))]
        if other or fn.args.vararg or fn.args.kwarg or fn.args.posonlyargs:
            raise T.TranslateError(f"helper {fn.name}: decorators / star parameters are outside the subset", fn)
        names = [a.arg for a in fn.args.args]
        env = {}
        if fn.name in self.methods and self.methods[fn.name] is fn and not static:
            if not names:
                raise T.TranslateError(f"helper {fn.name}: method without self", fn)
            env[names[0]] = SELF
            names = names[1:]
            if not bound:
                args = args[1:]      # Class.method(self, ...)
        if len(args) > len(names):
            raise T.TranslateError(f"helper {fn.name}: too many arguments", node)
        defaults = fn.args.defaults
        for i, n in enumerate(names):
            if i < len(args):
                env[n] = args[i]
            elif n in kws:
                env[n] = kws[n]
            else:
                j = i - (len(names) - len(defaults))
                if j < 0:
                    raise T.TranslateError(f"helper {fn.name}: missing argument {n}", node)
                env[n] = self.ev(defaults[j], {}, path, depth + 1)
        for kw, d in zip(fn.args.kwonlyargs, fn.args.kw_defaults):
            if kw.arg in kws:
                env[kw.arg] = kws[kw.arg]
            elif d is not None:
                env[kw.arg] = self.ev(d, {}, path, depth + 1)
            else:
                raise T.TranslateError(f"helper {fn.name}: missing keyword argument {kw.arg}", node)
        sub = path.copy()
        rets = self.block(list(fn.body), env, sub, depth + 1)
        # a helper is inlined as ONE value: its return tree folded into a conditional; what it did besides (reading the
        # version, creating the session) must be the same on all of its paths
        effects = {(lp.session_arg, lp.default) for lp in self.leaf_paths(rets)}
        if len(effects) != 1:
            raise T.TranslateError(f"helper {fn.name}: create_session / the read of protocolVersion differ between its paths", node)
        path.session_arg, path.default = next(iter(effects))
        return self.fold(rets, node)

    def leaf_paths(self, tree):
        if tree[0] == "leaf":
            return [tree[2]]
        return self.leaf_paths(tree[2]) + self.leaf_paths(tree[3])

    def fold(self, tree, node):
        if tree[0] == "leaf":
            return tree[1]
        _tag, t, a, b = tree
        va, vb = self.fold(a, node), self.fold(b, node)
        if t is None:
            if va == vb:
                return va
            if depends(va) or depends(vb):
                raise T.TranslateError("helper result depends on a test the translator cannot read", node)
            return OPAQUE
        if va == vb:
            return va
        if is_ver(va) and is_ver(vb):
            return ("cond", t, va, vb)
        if not depends(va) and not depends(vb):
            return OPAQUE
        raise T.TranslateError("helper returns version-dependent values of different shapes", node)

    # ------------------------------------------------------------------ statements
    def block(self, stmts, env, path, depth):
        """Return tree: ("leaf", value) | ("if", test-or-None, tree, tree).  Side effects on `path` are only allowed
        outside version-dependent branches (checked by the caller through path.session_arg bookkeeping)."""
        env = dict(env)
        for k, st in enumerate(stmts):
            if T.is_docstring(st) or isinstance(st, ast.Pass):
                continue
            if T.is_log_call(st):
                continue
            if isinstance(st, ast.Return):
                return ("leaf", NONE if st.value is None else self.ev(st.value, env, path, depth), path)
            if isinstance(st, ast.Expr):
                self.ev(st.value, env, path, depth)
                continue
            if isinstance(st, ast.AnnAssign):
                if st.value is None:
                    continue
                st = ast.Assign(targets=[st.target], value=st.value, lineno=st.lineno)
            if isinstance(st, ast.Assign):
                val = self.ev(st.value, env, path, depth)
                for tg in st.targets:
                    if isinstance(tg, ast.Name):
                        if tg.id in ("params", "message", "self") and env.get(tg.id) in (PARAMS, MESSAGE, SELF) and val != env.get(tg.id):
                            raise T.TranslateError(f"{tg.id} is rebound", st)
                        env[tg.id] = val
                    elif isinstance(tg, ast.Tuple) and val[0] == "tuple" and len(val[1]) == len(tg.elts) \
                            and all(isinstance(e, ast.Name) for e in tg.elts):
                        for e, v in zip(tg.elts, val[1]):
                            env[e.id] = v
                    elif isinstance(tg, ast.Subscript) and isinstance(tg.value, ast.Name) and env.get(tg.value.id, OPAQUE)[0] == "dict" \
                            and isinstance(tg.slice, ast.Constant) and isinstance(tg.slice.value, str):
                        d = dict(env[tg.value.id][1])
                        d[tg.slice.value] = val
                        env[tg.value.id] = ("dict", d)
                    else:
                        if depends(val):
                            raise T.TranslateError("the requested version is stored somewhere the translator cannot follow", st)
                        for sub in ast.walk(tg):
                            if isinstance(sub, ast.Name) and isinstance(sub.ctx, ast.Store):
                                env[sub.id] = OPAQUE
                        if isinstance(tg, ast.Subscript) and isinstance(tg.slice, ast.Constant) and tg.slice.value == "protocolVersion":
                            raise T.TranslateError("item assignment to ['protocolVersion'] of something that is not a fresh dict", st)
                continue
            if isinstance(st, ast.If):
                t = self.test(st.test, env, path, depth)
                rest = stmts[k + 1:]
                pa, pb = path.copy(), path.copy()
                ta = self.block(list(st.body) + rest, env, pa, depth)
                tb = self.block(list(st.orelse) + rest, env, pb, depth)
                return ("if", t, ta, tb)
            if isinstance(st, (ast.Raise, ast.Assert)):
                raise T.TranslateError(f"{type(st).__name__} inside the initialize logic", st)
            raise T.TranslateError(f"unsupported statement {type(st).__name__} inside the initialize logic", st)
        return ("leaf", NONE, path)


def gen_server_init() -> str:
    tree = T.read(PATH)
    classes = [n for n in tree.body if isinstance(n, ast.ClassDef) and n.name == "ProtocolHandler"]
    if len(classes) != 1:
        raise T.TranslateError("expected exactly one class ProtocolHandler")
    cls = classes[0]
    fns = [n for n in cls.body if isinstance(n, (ast.FunctionDef, ast.AsyncFunctionDef)) and n.name == "_handle_initialize"]
    if len(fns) != 1:
        raise T.TranslateError("expected exactly one ProtocolHandler._handle_initialize", cls)
    fn = fns[0]
    if fn.decorator_list or [a.arg for a in fn.args.args] != ["self", "message", "session_id"] or fn.args.vararg \
            or fn.args.kwarg or fn.args.kwonlyargs or fn.args.defaults:
        raise T.TranslateError("_handle_initialize: signature differs from template", fn)
    # "initialize" must be routed to this method
    reg = [n for n in cls.body if isinstance(n, ast.FunctionDef) and n.name == "_register_core_handlers"]
    routed = False
    for r in reg:
        for d in ast.walk(r):
            if isinstance(d, ast.Dict):
                for k, v in zip(d.keys, d.values):
                    if isinstance(k, ast.Constant) and k.value == "initialize":
                        if ast.dump(v) != "Attribute(value=Name(id='self', ctx=Load()), attr='_handle_initialize', ctx=Load())":
                            raise T.TranslateError("'initialize' is not routed to self._handle_initialize", v)
                        routed = True
    if not routed:
        raise T.TranslateError("no registration of 'initialize' in _register_core_handlers", cls)

    sym = Sym(tree, cls)
    path = Path()
    env = {"self": SELF, "message": MESSAGE, "session_id": OPAQUE}
    rets = sym.block(list(fn.body), env, path, 0)

    # every path: (create_response(_, {"protocolVersion": V, ...}), SESSION) with create_session(_, V)
    defaults = set()

    def leaf_version(tree_):
        if tree_[0] == "leaf":
            v, lp = tree_[1], tree_[2]
            if not (v[0] == "tuple" and len(v[1]) == 2 and v[1][0][0] == "resp" and v[1][1] == SESSION):
                raise T.TranslateError("a path of _handle_initialize does not return (self.create_response(id, result), "
                                       "<the id create_session returned>)", fn)
            d = v[1][0][1]
            if d[0] != "dict" or "protocolVersion" not in d[1] or not is_ver(d[1]["protocolVersion"]):
                raise T.TranslateError("the result is not a fresh dict whose 'protocolVersion' the translator can follow", fn)
            if lp.default is None:
                raise T.TranslateError("a path answers without params.get('protocolVersion', ...)", fn)
            defaults.add(lp.default)
            if lp.session_arg is None:
                raise T.TranslateError("a path answers without calling create_session", fn)
            if emit(lp.session_arg) != emit(d[1]["protocolVersion"]):
                raise T.TranslateError("the version recorded in the session and the version answered are computed differently: "
                                       f"{emit(lp.session_arg)} vs {emit(d[1]['protocolVersion'])}", fn)
            return d[1]["protocolVersion"]
        _tag, t, a, b = tree_
        va, vb = leaf_version(a), leaf_version(b)
        if va == vb:
            return va
        if t is None:
            raise T.TranslateError("the answered version depends on a test the translator cannot read", fn)
        return ("cond", t, va, vb)
    answered = leaf_version(rets)
    if len(defaults) != 1:
        raise T.TranslateError("the default of params.get('protocolVersion', ...) differs between paths", fn)
    default = next(iter(defaults))

    out = T.HEADER.format(src=PATH + " (ProtocolHandler._handle_initialize) by harness/translate_c04.py")
    out += "From Verif.Gen Require Import VersionsGen.\n\n"
    out += "(* a JSON value bound to protocol_version: [Some s] = the string s, [None] = any non-string value *)\n"
    out += "Definition pv_in (v : option str) (l : list str) : bool :=\n  match v with Some s => mem_str s l | None => false end.\n"
    out += "Definition pv_eq (v : option str) (s : str) : bool :=\n  match v with Some x => str_eqb x s | None => false end.\n\n"
    out += "(* params.get(\"protocolVersion\", <default>) when the member is absent *)\n"
    out += f"Definition server_default : option str := {default}.\n\n"
    out += "(* the version answered, as a function of the version read (symbolic execution of _handle_initialize and its helpers) *)\n"
    out += f"Definition server_decide ({VAR} : option str) : option str :=\n  {emit(answered)}.\n\n"
    out += "(* create_session(client_info, V) and result[\"protocolVersion\"] = V with the SAME V on every path *)\n"
    out += "Definition session_version_of (decided : option str) : option str := decided.\n"
    out += "Definition result_version_of (decided : option str) : option str := decided.\n"
    return out


GEN_FILES = {"ServerInitGen.v": gen_server_init}

"""Translator plugin for C04: regenerates Gen/ServerInitGen.v from the AST of
ProtocolHandler._handle_initialize (server/protocol_handler.py).

What is extracted (fail-closed: every statement of the function must be of a
recognised kind, otherwise TranslateError and the Gen file is removed):

* the default literal of  protocol_version = params.get("protocolVersion", <default>)
* the chain of   if protocol_version [not] in <LIST>: protocol_version = <EXPR> [else: ...]
  statements that follow it, as a Gallina function  server_decide : option str -> option str
  (Some s = a JSON string, None = any non-string JSON value, which is never a member of a list of strings)
* the facts that the session is created with, and the result's "protocolVersion" member is, the variable
  protocol_version AFTER the decision chain (otherwise: TranslateError)

<LIST> / <EXPR> may only be SUPPORTED_VERSIONS / CURRENT_VERSION / MINIMUM_VERSION imported from
protocol.types.versioning (they are regenerated into Gen/VersionsGen.v) or string literals.
"""
from __future__ import annotations

import ast

import translate as T

PATH = "server/protocol_handler.py"
VAR = "protocol_version"
LIST_CONSTS = {"SUPPORTED_VERSIONS"}
STR_CONSTS = {"CURRENT_VERSION", "MINIMUM_VERSION"}

PARAMS_TEMPLATE = ("Assign(targets=[Name(id='params', ctx=Store())], value=BoolOp(op=Or(), values=[Call(func=Name(id='getattr', "
                   "ctx=Load()), args=[Name(id='message', ctx=Load()), Constant(value='params'), Constant(value=None)], "
                   "keywords=[]), Dict(keys=[], values=[])]))")


def _stores(node, name):
    for n in ast.walk(node):
        if isinstance(n, ast.Name) and n.id == name and isinstance(n.ctx, (ast.Store, ast.Del)):
            return True
        if isinstance(n, (ast.Global, ast.Nonlocal)) and name in n.names:
            return True
        if isinstance(n, ast.NamedExpr) and isinstance(n.target, ast.Name) and n.target.id == name:
            return True
    return False


def _loads(node, name):
    return any(isinstance(n, ast.Name) and n.id == name and isinstance(n.ctx, ast.Load) for n in ast.walk(node))


def _imported_version_names(tree):
    names = set()
    for st in tree.body:
        if isinstance(st, ast.ImportFrom) and st.module and st.module.endswith("types.versioning"):
            for a in st.names:
                if a.asname is not None:
                    raise T.TranslateError("versioning constant imported under an alias", st)
                names.add(a.name)
    return names


class Gen:
    def __init__(self, tree):
        self.tree = tree
        self.imported = _imported_version_names(tree)
        for n in LIST_CONSTS | STR_CONSTS:
            for st in ast.walk(tree):
                if isinstance(st, ast.Name) and st.id == n and isinstance(st.ctx, (ast.Store, ast.Del)):
                    raise T.TranslateError(f"{n} is rebound in protocol_handler.py", st)

    def const_name(self, node, allowed):
        if isinstance(node, ast.Name) and node.id in allowed:
            if node.id not in self.imported:
                raise T.TranslateError(f"{node.id} is not imported from protocol.types.versioning", node)
            return T.coq_ident(node.id)
        return None

    def list_expr(self, node) -> str:
        n = self.const_name(node, LIST_CONSTS)
        if n:
            return n
        if isinstance(node, (ast.List, ast.Tuple, ast.Set)):
            return "[" + "; ".join(self.str_expr(e, literal_only=True) for e in node.elts) + "]"
        raise T.TranslateError("membership in something that is not a known version list", node)

    def str_expr(self, node, literal_only=False) -> str:
        """An expression of type str (Gallina: str)."""
        n = self.const_name(node, STR_CONSTS)
        if n:
            return n
        if isinstance(node, ast.Constant) and isinstance(node.value, str):
            return T.strlit(node.value)
        if not literal_only and isinstance(node, ast.Subscript) and self.const_name(node.value, LIST_CONSTS) \
                and isinstance(node.slice, ast.Constant) and node.slice.value == 0:
            return f"(hd [] {self.const_name(node.value, LIST_CONSTS)})"
        raise T.TranslateError("unsupported version expression", node)

    def val_expr(self, node) -> str:
        """An expression assigned to protocol_version (Gallina: option str)."""
        if isinstance(node, ast.Name) and node.id == VAR:
            return VAR
        return f"(Some {self.str_expr(node)})"

    def test(self, node) -> str:
        if isinstance(node, ast.UnaryOp) and isinstance(node.op, ast.Not):
            return f"(negb {self.test(node.operand)})"
        if isinstance(node, ast.BoolOp):
            op = " && " if isinstance(node.op, ast.And) else " || "
            return "(" + op.join(self.test(v) for v in node.values) + ")"
        if isinstance(node, ast.Compare) and len(node.ops) == 1 and isinstance(node.left, ast.Name) and node.left.id == VAR:
            op, right = node.ops[0], node.comparators[0]
            if isinstance(op, (ast.In, ast.NotIn)):
                t = f"(pv_in {VAR} {self.list_expr(right)})"
                return t if isinstance(op, ast.In) else f"(negb {t})"
            if isinstance(op, (ast.Eq, ast.NotEq)):
                t = f"(pv_eq {VAR} {self.str_expr(right)})"
                return t if isinstance(op, ast.Eq) else f"(negb {t})"
        raise T.TranslateError("unsupported test in the version decision", node)

    def branch(self, stmts, owner) -> str:
        """Value of protocol_version after a branch made of assignments to it only."""
        val = VAR
        seen = False
        for st in stmts:
            if T.is_log_call(st) or T.is_docstring(st) or isinstance(st, ast.Pass):
                continue
            if isinstance(st, ast.Assign) and len(st.targets) == 1 and isinstance(st.targets[0], ast.Name) \
                    and st.targets[0].id == VAR:
                if seen:
                    raise T.TranslateError("protocol_version assigned twice in one branch", st)
                val = self.val_expr(st.value)
                seen = True
                continue
            raise T.TranslateError(f"unsupported statement {type(st).__name__} inside the version decision", st)
        return val


def gen_server_init() -> str:
    tree = T.read(PATH)
    g = Gen(tree)
    classes = [n for n in tree.body if isinstance(n, ast.ClassDef) and n.name == "ProtocolHandler"]
    if len(classes) != 1:
        raise T.TranslateError("expected exactly one class ProtocolHandler")
    cls = classes[0]
    fns = [n for n in cls.body if isinstance(n, (ast.FunctionDef, ast.AsyncFunctionDef)) and n.name == "_handle_initialize"]
    if len(fns) != 1:
        raise T.TranslateError("expected exactly one ProtocolHandler._handle_initialize", cls)
    fn = fns[0]
    if fn.decorator_list or [a.arg for a in fn.args.args] != ["self", "message", "session_id"] or fn.args.vararg \
            or fn.args.kwarg or fn.args.kwonlyargs or fn.args.defaults:
        raise T.TranslateError("_handle_initialize: signature differs from template", fn)
    # "initialize" must be routed to this method
    reg = [n for n in cls.body if isinstance(n, ast.FunctionDef) and n.name == "_register_core_handlers"]
    routed = False
    for r in reg:
        for d in ast.walk(r):
            if isinstance(d, ast.Dict):
                for k, v in zip(d.keys, d.values):
                    if isinstance(k, ast.Constant) and k.value == "initialize":
                        if ast.dump(v) != "Attribute(value=Name(id='self', ctx=Load()), attr='_handle_initialize', ctx=Load())":
                            raise T.TranslateError("'initialize' is not routed to self._handle_initialize", v)
                        routed = True
    if not routed:
        raise T.TranslateError("no registration of 'initialize' in _register_core_handlers", cls)

    body = [s for s in fn.body if not T.is_log_call(s) and not T.is_docstring(s) and not isinstance(s, ast.Pass)]
    if not body or ast.dump(body[0]) != PARAMS_TEMPLATE:
        raise T.TranslateError("_handle_initialize: first statement is not `params = getattr(message, 'params', None) or {}`", fn)
    default = None
    lets = []            # Gallina right-hand sides of the successive bindings of protocol_version, in order
    session_seen = result_seen = False
    result_var = None
    rest = body[1:]
    stores = [k for k, st in enumerate(rest) if _stores(st, VAR)]
    if not stores:
        raise T.TranslateError("no `protocol_version = params.get('protocolVersion', ...)` found", fn)
    last_store = stores[-1]
    for k, st in enumerate(rest):
        if _stores(st, "params") or _stores(st, "message"):
            raise T.TranslateError("params/message rebound inside _handle_initialize", st)
        is_pv_assign = (isinstance(st, ast.Assign) and len(st.targets) == 1 and isinstance(st.targets[0], ast.Name)
                        and st.targets[0].id == VAR)
        if k == stores[0]:
            # the first binding must be the read from params
            v = st.value if is_pv_assign else None
            if not (isinstance(v, ast.Call) and not v.keywords and len(v.args) in (1, 2)
                    and ast.dump(v.func) == "Attribute(value=Name(id='params', ctx=Load()), attr='get', ctx=Load())"
                    and isinstance(v.args[0], ast.Constant) and v.args[0].value == "protocolVersion"):
                raise T.TranslateError("protocol_version is not first bound by params.get('protocolVersion', <default>)", st)
            if len(v.args) == 2 and not (isinstance(v.args[1], ast.Constant) and v.args[1].value is None):
                default = f"(Some {g.str_expr(v.args[1])})"
            else:
                default = "None"      # params.get(k) / params.get(k, None): absent behaves like a non-string (null)
            continue
        if k < stores[0] and _loads(st, VAR):
            raise T.TranslateError("protocol_version used before it is read from params", st)
        if k in stores:
            # a step of the decision chain
            if isinstance(st, ast.If):
                if _stores(st.test, VAR):
                    raise T.TranslateError("assignment expression in a decision test", st)
                lets.append(f"(if {g.test(st.test)} then {g.branch(st.body, st)} else {g.branch(st.orelse, st)})")
            elif is_pv_assign:
                lets.append(g.val_expr(st.value))
            else:
                raise T.TranslateError(f"protocol_version rebound by an unsupported statement {type(st).__name__}", st)
            continue
        # any other statement: straight-line only (no control flow that could skip the decision or return early)
        if isinstance(st, ast.Return):
            if st is not body[-1]:
                raise T.TranslateError("early return in _handle_initialize", st)
        elif not isinstance(st, (ast.Assign, ast.Expr)):
            raise T.TranslateError(f"unsupported statement {type(st).__name__} in _handle_initialize", st)
        if result_var is not None and (_stores(st, result_var) or (_loads(st, result_var) and not isinstance(st, ast.Return))):
            raise T.TranslateError("the result dict is rebound or touched between its construction and the return", st)
        # the two uses must be the variable itself and must come after its last binding
        for n in ast.walk(st):
            if isinstance(n, ast.Call) and isinstance(n.func, ast.Attribute) and n.func.attr == "create_session":
                arg = None
                if len(n.args) >= 2:
                    arg = n.args[1]
                for kw in n.keywords:
                    if kw.arg == "protocol_version":
                        arg = kw.value
                if session_seen or arg is None or ast.dump(arg) != f"Name(id='{VAR}', ctx=Load())" or k < last_store:
                    raise T.TranslateError("create_session is not called exactly once, after the decision, with the decided "
                                           "protocol_version", n)
                session_seen = True
            if isinstance(n, ast.Dict):
                for kk, v in zip(n.keys, n.values):
                    if isinstance(kk, ast.Constant) and kk.value == "protocolVersion":
                        if result_seen or ast.dump(v) != f"Name(id='{VAR}', ctx=Load())" or k < last_store:
                            raise T.TranslateError("result['protocolVersion'] is not the decided protocol_version", n)
                        if not (isinstance(st, ast.Assign) and len(st.targets) == 1 and isinstance(st.targets[0], ast.Name)
                                and st.value is n):
                            raise T.TranslateError("the result dict is not bound to a plain name", st)
                        result_var = st.targets[0].id
                        result_seen = True
            if isinstance(n, ast.Subscript) and isinstance(n.ctx, ast.Store) and isinstance(n.slice, ast.Constant) \
                    and n.slice.value == "protocolVersion":
                raise T.TranslateError("item assignment to ['protocolVersion']", n)
        if isinstance(st, ast.Return):
            want = (f"Tuple(elts=[Call(func=Attribute(value=Name(id='self', ctx=Load()), attr='create_response', ctx=Load()), "
                    f"args=[Name(id='msg_id', ctx=Load()), Name(id='{result_var}', ctx=Load())], keywords=[]), "
                    f"Name(id='new_session_id', ctx=Load())], ctx=Load())")
            if st.value is None or ast.dump(st.value) != want:
                raise T.TranslateError("return is not (self.create_response(msg_id, <result dict>), new_session_id)", st)
    if default is None:
        raise T.TranslateError("no `protocol_version = params.get('protocolVersion', ...)` found", fn)
    if not (session_seen and result_seen):
        raise T.TranslateError("create_session call or result['protocolVersion'] not found after the decision", fn)
    if not isinstance(body[-1], ast.Return):
        raise T.TranslateError("_handle_initialize does not end in a return", fn)

    out = T.HEADER.format(src=PATH + " (ProtocolHandler._handle_initialize) by harness/translate_c04.py")
    out += "From Verif.Gen Require Import VersionsGen.\n\n"
    out += "(* a JSON value bound to protocol_version: [Some s] = the string s, [None] = any non-string value *)\n"
    out += "Definition pv_in (v : option str) (l : list str) : bool :=\n  match v with Some s => mem_str s l | None => false end.\n"
    out += "Definition pv_eq (v : option str) (s : str) : bool :=\n  match v with Some x => str_eqb x s | None => false end.\n\n"
    out += "(* params.get(\"protocolVersion\", <default>) when the member is absent *)\n"
    out += f"Definition server_default : option str := {default}.\n\n"
    out += "(* the statements between reading protocol_version and using it *)\n"
    out += f"Definition server_decide ({VAR} : option str) : option str :=\n"
    for rhs in lets:
        out += f"  let {VAR} := {rhs} in\n"
    out += f"  {VAR}.\n\n"
    out += "(* create_session(client_info, protocol_version) and result[\"protocolVersion\"] = protocol_version, both AFTER the decision *)\n"
    out += "Definition session_version_of (decided : option str) : option str := decided.\n"
    out += "Definition result_version_of (decided : option str) : option str := decided.\n"
    return out


GEN_FILES = {"ServerInitGen.v": gen_server_init}

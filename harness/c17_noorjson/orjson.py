"""Stub placed FIRST on PYTHONPATH by harness/c17.py to make `import orjson`
fail in a worker process, i.e. to run chuk_mcp.protocol.fast_json on its
stdlib-json backend although orjson is installed in the environment."""
raise ImportError("orjson hidden by the C17 harness (stdlib-backend worker)")

"""C11 — running the REAL http_client() over a scripted httpx.MockTransport.

The only seam is the name `httpx` inside chuk_mcp.transports.http.transport: for the duration of a run it is
replaced by a proxy whose `AsyncClient` is a subclass of the ORIGINAL httpx.AsyncClient that injects a
MockTransport (subclassing from the original class every time, so repeated runs never chain subclasses).

A scenario is a list of steps {"req": <client message dict>, "ans": <answer dict>}.  Answers:
  {"kind": "resp", "status": int, "ctype": str|None, "body": bytes, "session": str|None, "redirect": bool}
  {"kind": "exc",  "exc": "connect" | "read-timeout" | "protocol" | "asyncio-timeout"}
Observation per step: the messages that appeared on the read stream because of that POST (the serial sender loop
guarantees that everything routed for POST k is on the stream before POST k+1 reaches the mock), the
Mcp-Session-Id header the POST carried, and whether it was issued at all.
"""
from __future__ import annotations

import asyncio
import json

import anyio
import httpx

ORIG_ASYNC_CLIENT = httpx.AsyncClient
SENTINEL = "verif/sentinel"
URL = "http://mcp.test/mcp"


class _HttpxProxy:
    """Stands in for the module `httpx` inside the transport module."""

    def __init__(self, client_cls):
        self.AsyncClient = client_cls

    def __getattr__(self, name):
        return getattr(httpx, name)


def _exc(kind, request):
    if kind == "connect":
        return httpx.ConnectError("All connection attempts failed", request=request)
    if kind == "read-timeout":
        return httpx.ReadTimeout("timed out", request=request)
    if kind == "protocol":
        return httpx.RemoteProtocolError("Server disconnected without sending a response.", request=request)
    if kind == "asyncio-timeout":
        return asyncio.TimeoutError()
    raise ValueError(kind)


def dump_message(m):
    """A delivered object -> plain dict (what a consumer of the read stream sees)."""
    if hasattr(m, "model_dump"):
        try:
            return m.model_dump(exclude_none=True)
        except Exception:  # pragma: no cover
            return {"<undumpable>": repr(m)}
    if isinstance(m, dict):
        return dict(m)
    return {"<not-a-message>": repr(m)}


async def run_scenario(steps, init_session=None):
    """Returns {"steps": [{"posted": bool, "sent_session": str|None, "delivered": [dict, ...]}], "alive": bool}."""
    import chuk_mcp.transports.http.transport as T
    from chuk_mcp.transports.http.http_client import http_client
    from chuk_mcp.transports.http.parameters import StreamableHTTPParameters

    obs = [{"posted": False, "sent_session": None, "delivered": [], "posts": 0} for _ in steps]
    state = {"read": None, "current": None, "done": asyncio.Event(), "stray": []}

    def drain():
        rs = state["read"]
        if rs is None:
            return
        while True:
            try:
                m = rs.receive_nowait()
            except (anyio.WouldBlock, anyio.EndOfStream, anyio.ClosedResourceError):
                break
            cur = state["current"]
            (obs[cur]["delivered"] if cur is not None else state["stray"]).append(dump_message(m))

    def handler(request: httpx.Request):
        try:
            payload = json.loads(request.content)
        except Exception:
            payload = None
        redirected = request.url.path.endswith("/redirected")
        if isinstance(payload, dict) and payload.get("method") == SENTINEL:
            drain()
            state["current"] = None
            state["sentinel_session"] = request.headers.get("mcp-session-id")
            state["done"].set()
            return httpx.Response(202, content=b"")
        k = None
        if isinstance(payload, dict):
            k = (payload.get("params") or payload.get("result") or {}).get("_step")
        if k is None or not (0 <= k < len(steps)):
            state["stray"].append({"<unexpected-post>": repr(request.content[:200])})
            return httpx.Response(202, content=b"")
        if not redirected:
            drain()
            state["current"] = k
            obs[k]["posted"] = True
            obs[k]["sent_session"] = request.headers.get("mcp-session-id")
            obs[k]["accept"] = request.headers.get("accept")
        obs[k]["posts"] += 1
        ans = steps[k]["ans"]
        if ans["kind"] == "exc":
            raise _exc(ans["exc"], request)
        if ans.get("redirect") and not redirected:
            return httpx.Response(307, headers={"Location": URL + "/redirected"}, content=b"")
        headers = []
        if ans.get("ctype") is not None:
            headers.append(("content-type", ans["ctype"]))
        if ans.get("session") is not None:
            headers.append(("mcp-session-id", ans["session"]))
        return httpx.Response(ans["status"], headers=headers, content=ans["body"])

    class ScriptedClient(ORIG_ASYNC_CLIENT):
        def __init__(self, *a, **kw):
            kw.pop("transport", None)
            super().__init__(*a, transport=httpx.MockTransport(handler), **kw)

    saved = T.httpx
    T.httpx = _HttpxProxy(ScriptedClient)
    alive = True
    try:
        params = StreamableHTTPParameters(url=URL, session_id=init_session, timeout=5.0)
        async with http_client(params) as (read_stream, write_stream):
            state["read"] = read_stream
            for st in steps:
                await write_stream.send(st["req"])
            await write_stream.send({"jsonrpc": "2.0", "method": SENTINEL})
            try:
                with anyio.fail_after(30):
                    await state["done"].wait()
            except TimeoutError:
                alive = False
                drain()
    finally:
        T.httpx = saved
    return {"steps": obs, "alive": alive, "stray": state["stray"], "sentinel_session": state.get("sentinel_session")}


def run_scenarios(scenarios):
    """scenarios: list of (steps, init_session).  One virtual-clock event loop for all of them."""
    from vloop import vrun

    async def main():
        out = []
        for steps, init in scenarios:
            out.append(await run_scenario(steps, init))
        return out

    return vrun(main)

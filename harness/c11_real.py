"""C11 — running the REAL http_client() over a scripted httpx.MockTransport.

The only seam is the name `httpx` inside chuk_mcp.transports.http.transport: for the duration of a run it is
replaced by a proxy whose `AsyncClient` is a subclass of the ORIGINAL httpx.AsyncClient that injects a
MockTransport (subclassing from the original class every time, so repeated runs never chain subclasses).

A scenario is a list of steps {"req": <client message dict>, "ans": <answer dict>}.  Answers:
  {"kind": "resp", "status": int, "ctype": str|None, "body": bytes, "session": str|None, "redirect": bool}
  {"kind": "exc",  "exc": "connect" | "read-timeout" | "protocol" | "asyncio-timeout"}
Observation per step: the messages that appeared on the read stream because of that POST (the serial sender loop
guarantees that everything routed for POST k is on the stream before POST k+1 reaches the mock), the
Mcp-Session-Id header the POST carried, and whether it was issued at all.
"""
from __future__ import annotations

import asyncio
import json

import anyio
import httpx

ORIG_ASYNC_CLIENT = httpx.AsyncClient
SENTINEL = "verif/sentinel"
URL = "http://mcp.test/mcp"


class _HttpxProxy:
    """Stands in for the module `httpx` inside the transport module."""

    def __init__(self, client_cls):
        self.AsyncClient = client_cls

    def __getattr__(self, name):
        return getattr(httpx, name)


def _exc(kind, request):
    if kind == "connect":
        return httpx.ConnectError("All connection attempts failed", request=request)
    if kind == "read-timeout":
        return httpx.ReadTimeout("timed out", request=request)
    if kind == "protocol":
        return httpx.RemoteProtocolError("Server disconnected without sending a response.", request=request)
    if kind == "asyncio-timeout":
        return asyncio.TimeoutError()
    raise ValueError(kind)


def dump_message(m):
    """A delivered object -> plain dict (what a consumer of the read stream sees)."""
    if hasattr(m, "model_dump"):
        try:
            return m.model_dump(exclude_none=True)
        except Exception:  # pragma: no cover
            return {"<undumpable>": repr(m)}
    if isinstance(m, dict):
        return dict(m)
    return {"<not-a-message>": repr(m)}


async def run_scenario(steps, init_session=None):
    """Returns {"steps": [{"posted": bool, "sent_session": str|None, "delivered": [dict, ...]}], "alive": bool}."""
    import chuk_mcp.transports.http.transport as T
    from chuk_mcp.transports.http.http_client import http_client
    from chuk_mcp.transports.http.parameters import StreamableHTTPParameters

    obs = [{"posted": False, "sent_session": None, "delivered": [], "posts": 0} for _ in steps]
    state = {"read": None, "current": None, "done": asyncio.Event(), "stray": []}

    def drain():
        rs = state["read"]
        if rs is None:
            return
        while True:
            try:
                m = rs.receive_nowait()
            except (anyio.WouldBlock, anyio.EndOfStream, anyio.ClosedResourceError):
                break
            cur = state["current"]
            (obs[cur]["delivered"] if cur is not None else state["stray"]).append(dump_message(m))

    def handler(request: httpx.Request):
        try:
            payload = json.loads(request.content)
        except Exception:
            payload = None
        redirected = request.url.path.endswith("/redirected")
        if isinstance(payload, dict) and payload.get("method") == SENTINEL:
            drain()
            state["current"] = None
            state["sentinel_session"] = request.headers.get("mcp-session-id")
            state["done"].set()
            return httpx.Response(202, content=b"")
        k = None
        if isinstance(payload, dict):
            k = (payload.get("params") or payload.get("result") or {}).get("_step")
        if k is None or not (0 <= k < len(steps)):
            state["stray"].append({"<unexpected-post>": repr(request.content[:200])})
            return httpx.Response(202, content=b"")
        if not redirected:
            drain()
            state["current"] = k
            obs[k]["posted"] = True
            obs[k]["t_post"] = asyncio.get_running_loop().time()
            state["t_last_post"] = obs[k]["t_post"]
            obs[k]["sent_session"] = request.headers.get("mcp-session-id")
            obs[k]["accept"] = request.headers.get("accept")
        obs[k]["posts"] += 1
        ans = steps[k]["ans"]
        if ans["kind"] == "exc":
            raise _exc(ans["exc"], request)
        if ans.get("redirect") and not redirected:
            return httpx.Response(307, headers={"Location": URL + "/redirected"}, content=b"")
        headers = []
        if ans.get("ctype") is not None:
            headers.append(("content-type", ans["ctype"]))
        if ans.get("session") is not None:
            headers.append(("mcp-session-id", ans["session"]))
        return httpx.Response(ans["status"], headers=headers, content=ans["body"])

    class ScriptedClient(ORIG_ASYNC_CLIENT):
        def __init__(self, *a, **kw):
            kw.pop("transport", None)
            super().__init__(*a, transport=httpx.MockTransport(handler), **kw)

    saved = T.httpx
    T.httpx = _HttpxProxy(ScriptedClient)
    alive = True
    try:
        params = StreamableHTTPParameters(url=URL, session_id=init_session, timeout=5.0)
        async with http_client(params) as (read_stream, write_stream):
            state["read"] = read_stream
            for st in steps:
                await write_stream.send(st["req"])
            await write_stream.send({"jsonrpc": "2.0", "method": SENTINEL})
            try:
                with anyio.fail_after(30):
                    await state["done"].wait()
            except TimeoutError:
                alive = False
                drain()
    finally:
        T.httpx = saved
    return {"steps": obs, "alive": alive, "stray": state["stray"], "sentinel_session": state.get("sentinel_session")}


def run_scenarios(scenarios):
    """scenarios: list of (steps, init_session).  One virtual-clock event loop for all of them."""
    from vloop import vrun

    async def main():
        out = []
        for steps, init in scenarios:
            out.append(await run_scenario(steps, init))
        return out

    return vrun(main)


# --------------------------------------------------------------------------- #
# The same scenarios against a REAL loopback HTTP/1.1 server (no httpx seam at all): what httpx makes of
# Content-Length / chunked / close-delimited bodies, split TCP writes, aborted transfers, silent servers.
# Extra per-answer wire options: "te": "length" | "chunked" | "close";  "split": bytes per TCP write (0 = one write);
# exceptions: "protocol" = close without answering, "read-timeout" = stay silent past the client's timeout,
# "aborted" = announce Content-Length, send half, close.   (A refused connection is run_refused().)
# --------------------------------------------------------------------------- #
async def run_socket_scenario(steps, init_session=None, timeout=5.0):
    from chuk_mcp.transports.http.http_client import http_client
    from chuk_mcp.transports.http.parameters import StreamableHTTPParameters

    obs = [{"posted": False, "sent_session": None, "delivered": [], "posts": 0} for _ in steps]
    state = {"read": None, "current": None, "done": asyncio.Event(), "stray": [], "sentinel_session": None}

    def drain():
        rs = state["read"]
        if rs is None:
            return
        while True:
            try:
                m = rs.receive_nowait()
            except (anyio.WouldBlock, anyio.EndOfStream, anyio.ClosedResourceError):
                break
            cur = state["current"]
            (obs[cur]["delivered"] if cur is not None else state["stray"]).append(dump_message(m))

    async def send(writer, data, split, pace=0.0):
        if not split:
            writer.write(data)
            await writer.drain()
            return
        for i in range(0, len(data), split):
            writer.write(data[i:i + split])
            await writer.drain()
            await asyncio.sleep(pace)          # pace > 0: an answer that takes its time (every pause well below the timeout)

    async def handle(reader, writer):
        try:
            head = await reader.readuntil(b"\r\n\r\n")
            lines = head.decode("latin-1").split("\r\n")
            hdrs = {}
            for ln in lines[1:]:
                if ":" in ln:
                    k, v = ln.split(":", 1)
                    hdrs[k.strip().lower()] = v.strip()
            body = await reader.readexactly(int(hdrs.get("content-length", "0")))
            try:
                payload = json.loads(body)
            except Exception:
                payload = None
            if isinstance(payload, dict) and payload.get("method") == SENTINEL:
                drain()
                state["t_sentinel"] = asyncio.get_running_loop().time()
                state["current"] = None
                state["sentinel_session"] = hdrs.get("mcp-session-id")
                writer.write(b"HTTP/1.1 202 Accepted\r\ncontent-length: 0\r\nconnection: close\r\n\r\n")
                await writer.drain()
                state["done"].set()
                return
            k = None
            if isinstance(payload, dict):
                k = (payload.get("params") or payload.get("result") or {}).get("_step")
            if k is None or not (0 <= k < len(steps)):
                state["stray"].append({"<unexpected-post>": repr(body[:200])})
                writer.write(b"HTTP/1.1 202 Accepted\r\ncontent-length: 0\r\nconnection: close\r\n\r\n")
                await writer.drain()
                return
            drain()
            state["current"] = k
            obs[k]["posted"] = True
            obs[k]["t_post"] = asyncio.get_running_loop().time()
            state["t_last_post"] = obs[k]["t_post"]
            obs[k]["sent_session"] = hdrs.get("mcp-session-id")
            obs[k]["posts"] += 1
            ans = steps[k]["ans"]
            if ans["kind"] == "exc":
                if ans["exc"] == "read-timeout":
                    try:                                  # stay silent until the client gives up and hangs up
                        await asyncio.wait_for(reader.read(), timeout * 12)
                    except (TimeoutError, asyncio.TimeoutError):
                        pass
                elif ans["exc"] == "aborted":
                    writer.write(b"HTTP/1.1 200 OK\r\ncontent-type: application/json\r\ncontent-length: 100\r\n\r\n{\"jsonrpc\":")
                    await writer.drain()
                return                                   # "protocol": close without a response
            out = [f"HTTP/1.1 {ans['status']} X".encode()]
            if ans.get("ctype") is not None:
                out.append(b"content-type: " + ans["ctype"].encode())
            if ans.get("session") is not None:
                out.append(b"mcp-session-id: " + ans["session"].encode())
            out.append(b"connection: close")
            data = ans["body"]
            te = ans.get("te", "length")
            split = ans.get("split", 0)
            pace = ans.get("pace", 0.0)
            if pace:
                split = max(1, (len(data) + 200) // 8)        # about eight writes
            if te == "length":
                out.append(f"content-length: {len(data)}".encode())
                await send(writer, b"\r\n".join(out) + b"\r\n\r\n" + data, split, pace)
            elif te == "chunked":
                out.append(b"transfer-encoding: chunked")
                n = split or max(1, len(data))
                chunks = b"".join(f"{len(data[i:i + n]):x}\r\n".encode() + data[i:i + n] + b"\r\n" for i in range(0, len(data), n))
                await send(writer, b"\r\n".join(out) + b"\r\n\r\n" + chunks + b"0\r\n\r\n", split, pace)
            else:                                         # close-delimited
                await send(writer, b"\r\n".join(out) + b"\r\n\r\n" + data, split, pace)
        except (asyncio.IncompleteReadError, ConnectionError):
            pass
        finally:
            try:
                writer.close()
            except Exception:
                pass

    server = await asyncio.start_server(handle, "127.0.0.1", 0)
    port = server.sockets[0].getsockname()[1]
    alive = True
    try:
        params = StreamableHTTPParameters(url=f"http://127.0.0.1:{port}/mcp", session_id=init_session, timeout=timeout)
        async with http_client(params) as (read_stream, write_stream):
            state["read"] = read_stream
            for st in steps:
                await write_stream.send(st["req"])
            await write_stream.send({"jsonrpc": "2.0", "method": SENTINEL})
            try:
                await asyncio.wait_for(state["done"].wait(), 20 + timeout * 2 * len(steps))
            except (TimeoutError, asyncio.TimeoutError):
                alive = False
                drain()
    finally:
        server.close()
        await server.wait_closed()
    # the sender loop is serial: the NEXT post (or the sentinel) reaches the server only when the transport is done with the
    # previous request - for a silent server that is when its timeout fired
    posted = sorted((o["t_post"], i) for i, o in enumerate(obs) if o.get("t_post") is not None)
    for n, (t, i) in enumerate(posted):
        nxt = posted[n + 1][0] if n + 1 < len(posted) else state.get("t_sentinel")
        obs[i]["busy_s"] = None if nxt is None else round(nxt - t, 3)
    return {"steps": obs, "alive": alive, "stray": state["stray"], "sentinel_session": state["sentinel_session"],
            "timeout": timeout}


async def run_refused(req):
    """POST to a port nobody listens on: returns what arrives on the read stream."""
    import socket
    from chuk_mcp.transports.http.http_client import http_client
    from chuk_mcp.transports.http.parameters import StreamableHTTPParameters

    s = socket.socket()
    s.bind(("127.0.0.1", 0))
    port = s.getsockname()[1]
    s.close()
    out = []
    async with http_client(StreamableHTTPParameters(url=f"http://127.0.0.1:{port}/mcp", timeout=2.0)) as (rs, ws):
        await ws.send(req)
        try:
            with anyio.fail_after(10):
                out.append(dump_message(await rs.receive()))
        except TimeoutError:
            pass
        await asyncio.sleep(0.05)
        while True:
            try:
                out.append(dump_message(rs.receive_nowait()))
            except (anyio.WouldBlock, anyio.EndOfStream, anyio.ClosedResourceError):
                break
    return out


def run_socket_scenarios(scenarios):
    """scenarios: list of (steps, init_session, timeout).  Real clock, real sockets."""
    async def main():
        out = []
        for steps, init, timeout in scenarios:
            out.append(await run_socket_scenario(steps, init, timeout))
        return out

    return asyncio.run(main())

#!/bin/bash
# seedtest.sh <property-id> <seed-dir> [--suite]
# Confirms a seeded property-breaking change in a scratch worktree of /repo and runs our check against it.
#   1. patch applies to /repo HEAD   2. demo passes on /repo, fails on the patched tree
#   3. (--suite) the pinned test suite still passes with the patch   4. ./check <id> on the patched tree
set -u
PID="$1"; SD="$(readlink -f "$2")"; SUITE="${3:-}"
WT="/tmp/seedwt-$PID-$$"
git -C /repo worktree add -q --detach "$WT" HEAD || exit 2
trap 'git -C /repo worktree remove --force "$WT" >/dev/null 2>&1' EXIT
if ! git -C "$WT" apply "$SD/patch.diff"; then echo "RESULT $PID $SD patch-does-not-apply"; exit 3; fi
REPO=/repo PYTHONPATH=/repo/src timeout 600 /venv/bin/python "$SD/demo.py" >/tmp/seed-demo-$$.0 2>&1; D0=$?
REPO="$WT" PYTHONPATH="$WT/src" timeout 600 /venv/bin/python "$SD/demo.py" >/tmp/seed-demo-$$.1 2>&1; D1=$?
S="skipped"
if [ "$SUITE" = "--suite" ]; then
  (cd "$WT" && PYTHONPATH="$WT/src" /venv/bin/python -m pytest -q -p no:cacheprovider --timeout=900 2>&1 | tail -1) > /tmp/seed-suite-$$ 2>&1
  S="$(cat /tmp/seed-suite-$$)"
fi
export VERIF_WORK="/var/tmp/verif-work/seed-$PID-$$"
mkdir -p "$VERIF_WORK/evidence" "$VERIF_WORK/replays"
( flock 7; rsync -a --exclude .lock /verif/coq /verif/ocaml "$VERIF_WORK/" ) 7>/verif/coq/.lock
trap 'git -C /repo worktree remove --force "$WT" >/dev/null 2>&1; rm -rf "$VERIF_WORK"' EXIT
cd /verif && VERIF_REPO="$WT" ./check "$PID" > /tmp/seed-check-$$ 2>&1; C=$?
V="$(grep -c '^VIOLATION' /tmp/seed-check-$$)"
echo "RESULT $PID $SD demo_unmodified=$D0 demo_modified=$D1 suite=[$S] check_exit=$C violations=$V"
grep '^VIOLATION\|BROKEN\|^\['"$PID"'\]' /tmp/seed-check-$$ | cut -c1-260 | head -8
mkdir -p /var/tmp/logs/seed/replays; cp "$VERIF_WORK"/replays/$PID-*.json /var/tmp/logs/seed/replays/ 2>/dev/null
for f in "$VERIF_WORK"/replays/$PID-*.json; do [ -f "$f" ] && python3 -c "
import json,sys; d=json.load(open('$f')); print('  replay', '$f'.split('/')[-1], '|', d.get('class'), '|', json.dumps(d.get('case'))[:220])"; done
rm -f /tmp/seed-demo-$$.* /tmp/seed-suite-$$ /tmp/seed-check-$$

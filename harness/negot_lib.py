"""Shared machinery of the negotiation checks C03 / C04: the scripted peer that
drives the REAL send_initialize / send_initialize_with_client_tracking over anyio
memory streams (on the virtual-clock loop), the pump that connects the real
client to the real ProtocolHandler, canonical observations, and the S-expression
encodings for the extracted model / spec drivers (Drv/C03*.v, Drv/C04*.v)."""
from __future__ import annotations

import anyio

import lib
from lib import sx, sxo, call

REAL = ["2025-06-18", "2025-03-26", "2024-11-05"]
INVENTED = ["2026-02-30", "1999-02-30", "2025-06-17", "DRAFT-2026-v1"]   # the first two are date-SHAPED but no calendar days (one after, one before the batching cutoff), the last is not date-shaped: a version is any string
UNIVERSE = REAL + INVENTED

SERVER_INFO = {"name": "peer", "version": "0.1"}


# --------------------------------------------------------------------------- #
# Answers
# --------------------------------------------------------------------------- #
# An answer is a JSON-able dict {"kind": ..., ...}; see build_answer for the kinds.
WELL_FORMED_KINDS = {"version", "toplevel-fields", "close-after-answer"}
NO_ANSWER_KINDS = {"silence", "late", "closed", "wrong-id-only"}


def result_obj(v):
    return {"protocolVersion": v, "capabilities": {}, "serverInfo": dict(SERVER_INFO)}


def build_answer(ans, req_id):
    """The message object the peer puts on the client's read stream (None = nothing)."""
    from chuk_mcp.protocol.messages.json_rpc_message import JSONRPCResponse, JSONRPCError, parse_message
    k = ans["kind"]
    if k in ("version", "nonstr", "close-after-answer"):
        return JSONRPCResponse(id=req_id, result=result_obj(ans["value"]))
    if k == "missing-version":
        r = result_obj("x")
        del r["protocolVersion"]
        return JSONRPCResponse(id=req_id, result=r)
    if k == "missing-caps":
        r = result_obj(ans["value"])
        del r["capabilities"]
        return JSONRPCResponse(id=req_id, result=r)
    if k == "missing-serverinfo":
        r = result_obj(ans["value"])
        del r["serverInfo"]
        return JSONRPCResponse(id=req_id, result=r)
    if k == "bad-serverinfo":
        r = result_obj(ans["value"])
        r["serverInfo"] = "not an object"
        return JSONRPCResponse(id=req_id, result=r)
    if k == "bad-caps":
        r = result_obj(ans["value"])
        r["capabilities"] = [1, 2]
        return JSONRPCResponse(id=req_id, result=r)
    if k == "result-null":
        return JSONRPCResponse(id=req_id, result=None)
    if k == "result-list":
        return JSONRPCResponse(id=req_id, result=[result_obj(ans["value"])])
    if k == "result-scalar":
        return JSONRPCResponse(id=req_id, result=ans["value"])
    if k == "result-empty":
        return JSONRPCResponse(id=req_id, result={})
    if k == "toplevel-fields":
        # result is null, the initialize members sit beside it on the envelope: _process_response falls back
        # to the envelope's model_dump(), which then validates as an InitializeResult
        d = {"jsonrpc": "2.0", "id": req_id, "result": None}
        d.update(result_obj(ans["value"]))
        return parse_message(d)
    if k == "error":
        e = {"code": ans["code"], "message": ans["message"]}
        if "data" in ans:
            e["data"] = ans["data"]
        return JSONRPCError(id=req_id, error=e)
    if k in NO_ANSWER_KINDS:
        return None
    raise lib.HarnessError(f"unknown answer kind {k}")


def build_noise(kind, req_id):
    from chuk_mcp.protocol.messages.json_rpc_message import (JSONRPCResponse, JSONRPCError, JSONRPCRequest,
                                                             JSONRPCNotification)
    if kind == "notif":
        return JSONRPCNotification(method="notifications/message", params={"level": "info", "data": "x"})
    if kind == "other-id":
        return JSONRPCResponse(id="not-" + str(req_id), result=result_obj("1999-01-01"))
    if kind == "other-id-error":
        return JSONRPCError(id=12345, error={"code": -32602, "message": "protocol version"})
    if kind == "same-id-request":
        return JSONRPCRequest(id=req_id, method="sampling/createMessage", params={"protocolVersion": "1999-01-01"})
    if kind == "batch":
        return [JSONRPCResponse(id=req_id, result=result_obj("1999-01-01"))]
    raise lib.HarnessError(f"unknown noise kind {kind}")


NOISE_KINDS = ["notif", "other-id", "other-id-error", "same-id-request", "batch"]


# --------------------------------------------------------------------------- #
# Running the real client against the scripted peer
# --------------------------------------------------------------------------- #
def classify_exception(e):
    from chuk_mcp.protocol.types.errors import VersionMismatchError, RetryableError, NonRetryableError
    if isinstance(e, VersionMismatchError):
        return ["mismatch"]
    if isinstance(e, TimeoutError):
        return ["timeout"]
    if isinstance(e, RetryableError):
        return ["retryable", int(e.code)]
    if isinstance(e, NonRetryableError):
        return ["nonretryable", int(e.code)]
    if type(e).__name__ == "ValidationError":
        return ["invalid"]
    if isinstance(e, (anyio.EndOfStream, anyio.BrokenResourceError, anyio.ClosedResourceError)):
        return ["closed"]
    if isinstance(e, IndexError):
        return ["noversions"]
    return ["other", type(e).__name__]


def describe_written(m):
    """What the property talks about in a message written by the client."""
    if isinstance(m, list):
        return ["batch"]
    method = getattr(m, "method", None)
    mid = getattr(m, "id", None)
    if method == "initialize" and mid is not None:
        params = getattr(m, "params", None) or {}
        pv = params.get("protocolVersion")
        return ["initialize", pv if isinstance(pv, str) else ["nonstr", repr(pv)]]
    if method == "notifications/initialized" and mid is None:
        return ["initialized"]
    return ["stray", str(method)]


def drain(stream):
    out = []
    while True:
        try:
            out.append(describe_written(stream.receive_nowait()))
        except (anyio.WouldBlock, anyio.EndOfStream, anyio.ClosedResourceError, anyio.BrokenResourceError):
            return out


async def run_client_case(case):
    """Run ONE real initialization against the scripted peer.  Returns the observation."""
    from chuk_mcp.protocol.messages.initialize.send_messages import (send_initialize,
                                                                     send_initialize_with_client_tracking)
    ans = case["answer"]
    kind = ans["kind"]
    timeout = case.get("timeout")
    busy = case.get("backpressure")           # the peer takes nothing off the wire for this long after answering
    c2s_s, c2s_r = anyio.create_memory_object_stream(0 if busy else 64)   # 0 = rendezvous: a send completes when taken
    s2c_s, s2c_r = anyio.create_memory_object_stream(64)
    obs = {"first": None, "before": [], "between": [], "after": [], "outcome": None, "tracked": None}
    state = {"call_done": False}

    async def peer():
        req = await c2s_r.receive()
        obs["first"] = describe_written(req)
        rid = getattr(req, "id", None)
        await anyio.sleep(0.01)               # the client is now blocked in its receive loop
        obs["before"] = drain(c2s_r)
        for n in case.get("noise", []):
            await s2c_s.send(build_noise(n, rid))
        if kind == "closed":
            await s2c_s.aclose()
            return
        if kind == "late":
            await anyio.sleep((timeout if timeout is not None else 60.0) + 1.0)
            await s2c_s.send(build_answer({"kind": "version", "value": ans["value"]}, rid))
            return
        if kind == "close-after-answer":
            c2s_r.close()                     # the notification can no longer be written
        msg = build_answer(ans, rid)
        if msg is not None:
            await s2c_s.send(msg)
        if "retry" in ans:
            # a peer that would answer a SECOND initialize (sent after its error answer) with ans["retry"]: the client has no
            # business sending one - the error ends the handshake
            with anyio.move_on_after(2.0):
                while True:
                    try:
                        m = await c2s_r.receive()
                    except (anyio.EndOfStream, anyio.ClosedResourceError, anyio.BrokenResourceError):
                        break
                    d = describe_written(m)
                    (obs["after"] if state["call_done"] else obs["between"]).append(d)
                    if d[0] == "initialize":
                        await s2c_s.send(build_answer({"kind": "version", "value": ans["retry"]}, getattr(m, "id", None)))
        if busy:
            await anyio.sleep(busy)
            with anyio.move_on_after(busy + 5.0):
                while True:
                    try:
                        m = await c2s_r.receive()
                    except (anyio.EndOfStream, anyio.ClosedResourceError, anyio.BrokenResourceError):
                        break
                    (obs["after"] if state["call_done"] else obs["between"]).append(describe_written(m))

    kwargs = {"supported_versions": None if case["supported"] is None else list(case["supported"]),
              "preferred_version": case["preferred"]}
    if timeout is not None:
        kwargs["timeout"] = timeout
    client = None
    if case.get("tracked"):
        from chuk_mcp.transports.stdio.stdio_client import StdioClient
        from chuk_mcp.transports.stdio.parameters import StdioParameters
        client = StdioClient(StdioParameters(command="never-spawned", args=[]))
        if case.get("prior_version") is not None:
            client.set_protocol_version(case["prior_version"])      # what an earlier handshake of this client left behind
    async with anyio.create_task_group() as tg:
        tg.start_soon(peer)
        try:
            if client is not None:
                r = await send_initialize_with_client_tracking(s2c_r, c2s_s, client=client, **kwargs)
            else:
                r = await send_initialize(s2c_r, c2s_s, **kwargs)
            pv = getattr(r, "protocolVersion", None)
            obs["outcome"] = ["ok", pv] if isinstance(pv, str) else ["ok-nonstr", repr(pv)]
        except Exception as e:                # noqa: BLE001 - the exception class IS the observation
            obs["outcome"] = classify_exception(e)
        state["call_done"] = True
        obs["between"] += drain(c2s_r)        # written after the answer was handed over, before the call ended
        await anyio.sleep(1.0 + (2 * busy if busy else 0.0))
        obs["after"] += drain(c2s_r)          # written after the call ended
        tg.cancel_scope.cancel()
    if client is not None:
        info = client.get_batching_info()
        obs["tracked"] = [info["protocol_version"], bool(info["batching_enabled"]), bool(info["supports_batch_function"])]
    for s in (c2s_s, c2s_r, s2c_s, s2c_r):
        s.close()
    return obs


async def run_wrapper_case(case):
    """The same handshake through the subprocess-backed entry point stdio_client_with_initialize (scripted child on the
    anyio.open_process seam): it must propose / accept per the CALLER's list exactly like send_initialize."""
    import json as _json
    from fakeproc import FakeProcess, FakeStdin, patched_open_process
    from chuk_mcp.transports.stdio.parameters import StdioParameters
    if case.get("entry") == "shim":
        # the compatibility entry point chuk_mcp.mcp_client.stdio_client_with_initialize: an async generator in the old API
        # format (yields read, write, result once); callers wrap it or iterate it - both come to the same
        import contextlib
        import inspect
        import chuk_mcp.mcp_client as _shim
        stdio_client_with_initialize = _shim.stdio_client_with_initialize
        if inspect.isasyncgenfunction(stdio_client_with_initialize):
            stdio_client_with_initialize = contextlib.asynccontextmanager(stdio_client_with_initialize)
    else:
        from chuk_mcp.transports.stdio.stdio_client import stdio_client_with_initialize
    ans = case["answer"]
    obs = {"first": None, "before": [], "between": [], "after": [], "outcome": None, "tracked": None}
    state = {"entered": False, "n": 0}
    proc = FakeProcess()

    class Stdin(FakeStdin):
        def __init__(self):
            super().__init__()
            self.buf = b""

        async def send(self, data):
            await super().send(data)
            self.buf += bytes(data)
            while b"\n" in self.buf:
                line, self.buf = self.buf.split(b"\n", 1)
                if line.strip():
                    on_line(line)

    def on_line(line):
        from chuk_mcp.protocol.messages.json_rpc_message import parse_message
        m = parse_message(_json.loads(line))
        d = describe_written(m)
        state["n"] += 1
        if state["n"] == 1:
            obs["first"] = d
            msg = build_answer(ans, getattr(m, "id", None))
            if msg is not None:
                proc.stdout.feed((_json.dumps(msg.model_dump(exclude_none=True)) + "\n").encode())
        else:
            (obs["after"] if state["entered"] else obs["between"]).append(d)

    proc.stdin = Stdin()
    kwargs = {"supported_versions": None if case["supported"] is None else list(case["supported"]),
              "preferred_version": case["preferred"], "timeout": case.get("timeout") or 2.0}
    with patched_open_process(proc):
        try:
            async with stdio_client_with_initialize(StdioParameters(command="fake-child", args=[]), **kwargs) as (_r, _w, res):
                state["entered"] = True
                pv = getattr(res, "protocolVersion", None)
                obs["outcome"] = ["ok", pv] if isinstance(pv, str) else ["ok-nonstr", repr(pv)]
                await anyio.sleep(0.05)
        except Exception as e:            # noqa: BLE001
            obs["outcome"] = classify_exception(e)
    # the child sees a line only when the writer TASK has forwarded it: whether the notification was put on the write stream
    # before the wrapper yielded cannot be told from the child's side, so "between" and "after" are one bucket here (the
    # ordering itself is judged on send_initialize directly)
    obs["between"], obs["after"] = obs["between"] + obs["after"], []
    return obs


def canon_impl(obs):
    """Canonical, comparable form of an implementation observation."""
    writes = ([obs["first"]] if obs["first"] is not None else []) + obs["before"] + obs["between"] + obs["after"]
    inits = [w[1] for w in writes if w[0] == "initialize"]
    stray = sum(1 for w in writes if w[0] not in ("initialize", "initialized"))
    first_is_init = bool(writes) and writes[0][0] == "initialize"
    n = lambda ws: sum(1 for w in ws if w[0] == "initialized")  # noqa: E731
    return {"inits": inits, "first_is_init": first_is_init or not writes, "stray": stray,
            "before": n(obs["before"]), "between": n(obs["between"]), "after": n(obs["after"]),
            "outcome": obs["outcome"],
            "tracked": None if obs["tracked"] is None else obs["tracked"][:2]}


# --------------------------------------------------------------------------- #
# Model side (Drv/C03.v)
# --------------------------------------------------------------------------- #
def model_answer(ans):
    """The model's [answer] for a harness answer (None = no response with the request's id)."""
    k = ans["kind"]
    if k in ("version", "toplevel-fields", "close-after-answer"):
        return f"(0 (1 {sx(ans['value'])}) 1)"
    if k == "nonstr":
        return "(0 (0) 1)"
    if k == "missing-version":
        return "(0 () 1)"
    if k in ("missing-caps", "missing-serverinfo", "bad-serverinfo", "bad-caps"):
        v = ans["value"]
        return f"(0 (1 {sx(v)}) 0)" if isinstance(v, str) else "(0 (0) 0)"
    if k == "result-empty":
        return "(0 () 0)"
    if k in ("result-null", "result-list", "result-scalar"):
        return "(1)"
    if k == "error":
        return f"(2 {ans['code']} {sx(ans['message'])})"
    if k in NO_ANSWER_KINDS:
        return None
    raise lib.HarnessError(f"unknown answer kind {k}")


def model_request(case):
    ans = case["answer"]
    incoming = ["(0)"] * len(case.get("noise", []))
    a = model_answer(ans)
    if a is not None:
        incoming.append(f"(1 {a})")
    ending = 1 if ans["kind"] == "closed" else 0
    nok = 0 if ans["kind"] == "close-after-answer" else 1
    sup = "()" if case["supported"] is None else "(" + sx(list(case["supported"])) + ")"
    return call(10, sup, sxo(case["preferred"]), "(" + " ".join(incoming) + ")", str(ending), str(nok))


OUTCOME_NAMES = {1: "mismatch", 2: "timeout", 5: "invalid", 6: "closed", 7: "noversions"}


def decode_outcome(o):
    t = o[0]
    if t == 0:
        return ["ok", lib.as_str(o[1])]
    if t == 3:
        return ["retryable", o[1]]
    if t == 4:
        return ["nonretryable", o[1]]
    return [OUTCOME_NAMES[t]]


def canon_model(res, tracked):
    outcome, trace, tver, tmode = res
    inits = [lib.as_str(e[1]) for e in trace if e[0] == 0]
    pos = next((i for i, e in enumerate(trace) if e[0] == 2), len(trace))
    n = lambda es: sum(1 for e in es if e[0] == 1)  # noqa: E731
    return {"inits": inits, "first_is_init": (not trace) or trace[0][0] == 0, "stray": 0,
            "before": n(trace[:pos]), "between": n(trace[pos + 1:]), "after": 0,
            "outcome": decode_outcome(outcome),
            "tracked": [None if tver == [] else lib.as_str(tver[0]), bool(tmode)] if tracked else None}


# --------------------------------------------------------------------------- #
# Spec side (Drv/C03Spec.v)
# --------------------------------------------------------------------------- #
def spec_request(case, c, library_supported):
    """Encode the IMPLEMENTATION's canonical observation `c` for c03_ok."""
    ans = case["answer"]
    sup = library_supported if case["supported"] is None else list(case["supported"])
    s_ans = "(" + sx(ans["value"]) + ")" if ans["kind"] in WELL_FORMED_KINDS and isinstance(ans.get("value"), str) else "()"
    o = c["outcome"]
    if o[0] == "ok":
        s_out = f"(0 {sx(o[1])})"
    elif o[0] == "mismatch":
        s_out = "(1)"
    else:
        s_out = "(2)"
    if c["tracked"] is None:
        tr = "()"
    else:
        ver, mode = c["tracked"]
        tr = "((" + sxo(ver if isinstance(ver, str) else None) + " " + sx(bool(mode)) + "))"
    inits = [v if isinstance(v, str) else "\x00nonstr" for v in c["inits"]]
    return call(20, sx(sup), sxo(case["preferred"]), s_ans, sx(inits), str(c["before"]), str(c["between"]),
                str(c["after"]), s_out, tr)


C03_CLAUSES = {1: "wrong-proposal", 2: "success-on-unoffered-or-absent-answer", 3: "unoffered-version-not-mismatch",
               4: "initialized-notification-count-or-order", 5: "tracked-mode-wrong"}

"""C05 -- stdio inbound framing is independent of how the byte stream is chunked."""
from __future__ import annotations

import itertools
import json
import os
import subprocess
import sys
import tempfile

import anyio

import lib
from lib import sx, call
from fakeproc import FakeProcess, patched_open_process

META = {
    "level": "Proof: for EVERY per-line pipeline and EVERY way of cutting the child's byte stream into chunks the modelled "
             "_stdout_reader delivers exactly what each LF-terminated line yields on its own, in order, and keeps the "
             "unterminated tail (unique declarative framing, chunk independence, bad line dropped alone, CR LF cut anywhere, "
             "no ASCII byte inside a multi-byte UTF-8 sequence so U+0085/2028/2029 never split a line, decode(encode)=id, "
             "notification stream = id-less messages in order, lossless within its capacity). The hand-written model "
             "(splitter, strict UTF-8 decoder, str.strip, routing) is tied to the real StdioClient by a differential run "
             "over every cut position (k<=3 chunks) of structured streams. Partial: the kernel's actual chunking is "
             "outside the model (the theorem covers all chunkings, the tie those the harness scripts; thorough adds a "
             "real child with forced partial writes).",
    "note": "Trusted: Coq kernel, extraction (ExtrOcamlBasic only), the harness and its scripted process. Section variable: "
            "parse = json.loads + _process_message_data (the harness applies the REAL one to each candidate line in "
            "isolation). A line is 'valid' iff the library's own per-line pipeline accepts it in isolation (it is lenient: "
            "NaN via the stdlib fallback, Unicode white space around a line, id-less objects). Modelled not verified: "
            "CPython bytes.split/decode/strip (tied by the run), anyio memory streams, the main stream's receive end "
            "stays open, no per-request legacy stream registered.",
    "technique": "Coq proof by induction over chunk lists (split_lines_app) and over a UTF-8 decoder automaton; "
                 "differential correspondence, exhaustive over cut positions",
    "design_ref": "DESIGN.md section 6 (C05)",
}
GEN = []
TARGETS = ["Base/StdioUtf8", "Model/Lines", "Spec/C05", "Proofs/StdioUtf8", "Proofs/Lines", "Props/C05"]

TRUSTED = [
    "Coq 8.16.1 kernel (coqc); coqchk re-check in the thorough tier; vm_compute/native_compute not used",
    "axioms: none (every C05 theorem prints 'Closed under the global context')",
    "Section variables: deliver (theorems 1-5: ANY per-line function), parse = json.loads + _process_message_data "
    "(theorems 6-7), no_id (routing); no hypothesis is placed on any of them",
    "hand-written model Model/Lines.v + Base/StdioUtf8.v (bytes.split(b'\\n'), strict UTF-8 decode/encode, str.strip, "
    "_route_message) tied by the correspondence run below",
    "extraction: ExtrOcamlBasic only; ocaml/main.ml text<->sexp; harness/fakeproc.py scripted process",
    "modelled, not verified: CPython, anyio memory streams (blocking send loses nothing, send_nowait drops on a full "
    "buffer), the kernel's pipe chunking (thorough tier exercises a real child with forced partial os.write calls)",
]
ASSUME = [
    "a line is a valid message iff the library's own per-line pipeline (decode, strip, fast_json.loads, "
    "_process_message_data/parse_message) delivers it when it is the only line of the stream",
    "spec oracle: lines are labelled by the generator (well-formed JSON-RPC 2.0 message with unique tag / junk); lines whose "
    "validity the property text leaves open (lenient acceptance, batches) are judged by the correspondence only",
    "the main stream's receive end stays open; per-request streams (new_request_stream) are registered in one dedicated tie only",
]

S_E, S_EUR, S_AST = "\u00e9", "\u20ac", "\U0001F600"
SEPS = ["\u0085", "\u2028", "\u2029"]


# --------------------------------------------------------------------------- #
# Lines and streams
# --------------------------------------------------------------------------- #
def mk_msg(kind, tag, text):
    if kind == "req":
        return {"jsonrpc": "2.0", "id": f"m{tag}", "method": "srv/x", "params": {"s": text}}
    if kind == "req-int":
        return {"jsonrpc": "2.0", "id": 1000 + tag, "method": "srv/x", "params": {"s": text}}
    if kind == "notif":
        return {"jsonrpc": "2.0", "method": "notifications/x", "params": {"k": tag, "s": text}}
    if kind == "res":
        return {"jsonrpc": "2.0", "id": f"m{tag}", "result": {"s": text}}
    if kind == "err":
        return {"jsonrpc": "2.0", "id": f"m{tag}", "error": {"code": -32000, "message": text}}
    raise ValueError(kind)


GOOD_KINDS = ["req", "req-int", "notif", "res", "err"]


def canon_obj(d):
    return json.dumps(d, sort_keys=True, ensure_ascii=True, default=repr)


def full_tag(tag, canonical):
    """identity of a message for the spec oracle: its unique tag AND a digest of its whole content"""
    import hashlib
    h = int.from_bytes(hashlib.blake2b(canonical.encode(), digest_size=5).digest(), "big")
    return tag * (1 << 40) + h if tag >= 0 else -1


def good_line(kind, tag, text, ascii_only=False, spaced=False):
    obj = mk_msg(kind, tag, text)
    s = json.dumps(obj, ensure_ascii=ascii_only, separators=(", ", ": ") if spaced else (",", ":"))
    return {"raw": s.encode("utf-8"), "label": ("good", full_tag(tag, canon_obj(obj)), kind == "notif"), "kind": kind}


# Well-formed lines whose JSON text the FAST decoder (orjson) refuses and only the stdlib fallback of fast_json.loads
# accepts: legal RFC 8259 JSON all the same, so they must be delivered like any other line.
RAW_GOOD = {
    "lone-surrogate-escape": b'{"jsonrpc":"2.0","id":"m%d","result":{"s":"\\ud83d"}}',
    "huge-exponent": b'{"jsonrpc":"2.0","id":"m%d","result":{"n":1e400,"m":-1E+400}}',
    "lone-surrogate-escape-notif": b'{"jsonrpc":"2.0","method":"notifications/x","params":{"k":%d,"s":"\\udfff x"}}',
    # a success response whose result is not an object (JSON-RPC allows any value; a void method answers null)
    "result-null": b'{"jsonrpc":"2.0","id":"m%d","result":null}',
    "result-zero": b'{"jsonrpc":"2.0","id":"m%d","result":0}',
    "result-false": b'{"jsonrpc":"2.0","id":"m%d","result":false}',
    "result-array": b'{"jsonrpc":"2.0","id":"m%d","result":[1,null]}',
    "result-string": b'{"jsonrpc":"2.0","id":"m%d","result":""}',
}


def good_raw(name, tag):
    raw = RAW_GOOD[name] % tag
    obj = json.loads(raw.decode("utf-8"))            # the stdlib decoder: the reference reading of the line
    return {"raw": raw, "label": ("good", full_tag(tag, canon_obj(obj)), "method" in obj and "id" not in obj),
            "kind": "good-raw:" + name}


JUNK = {
    "not-json": b"hello world",
    "truncated": b'{"jsonrpc":"2.0","id":"m9",',
    "trailing-garbage": b'{"jsonrpc":"2.0","id":"m9","result":{}} x',
    "scalar-int": b"42",
    "scalar-str": b'"m7"',
    "scalar-null": b"null",
    "both-result-error": b'{"jsonrpc":"2.0","id":"m9","result":1,"error":{"code":1,"message":"x"}}',
    "no-result-no-error": b'{"jsonrpc":"2.0","id":"m9"}',
    "float-id": b'{"jsonrpc":"2.0","id":1.5,"method":"x"}',
    "bad-utf8-ff": b"\xff\xfe junk",
    "bad-utf8-in-message": b'{"jsonrpc":"2.0","id":"m9","result":{"s":"\xe9"}}',
    "lone-continuation": b"\x80",
    "truncated-multibyte": b'"\xc3',
    "overlong": b'"\xc0\xaf"',
    "surrogate-bytes": b'"\xed\xa0\x80"',
    "above-10ffff": b'"\xf4\x90\x80\x80"',
    "blank": b"",
    "blank-spaces": b"  \t ",
    "blank-unicode-space": "\u2028\u0085 ".encode(),
    "two-messages-one-line": b'{"jsonrpc":"2.0","id":"m8","result":{}}{"jsonrpc":"2.0","id":"m9","result":{}}',
    "two-messages-cr-separated": b'{"jsonrpc":"2.0","id":"m8","result":{}}\r{"jsonrpc":"2.0","id":"m9","result":{}}',
    "two-messages-ff-separated": b'{"jsonrpc":"2.0","id":"m8","result":{}}\x0c{"jsonrpc":"2.0","id":"m9","result":{}}',
    "two-messages-ls-separated": b'{"jsonrpc":"2.0","id":"m8","result":{}}\xe2\x80\xa8{"jsonrpc":"2.0","id":"m9","result":{}}',
    "two-messages-nel-separated": b'{"jsonrpc":"2.0","id":"m8","result":{}}\xc2\x85{"jsonrpc":"2.0","id":"m9","result":{}}',
}
# validity left open by the property text: judged by the correspondence only
GREY = {
    "unicode-space-around": "\u2028".encode() + b'{"jsonrpc":"2.0","id":"m5","result":{}}' + "\u0085\u00a0".encode(),
    "c0-separator-around": b'\x1c{"jsonrpc":"2.0","id":"m5","result":{}}\x1f',
    "id-less-object": b'{"foo":1}',
    "nan": b'{"jsonrpc":"2.0","id":"m5","result":NaN}',
    "batch": b'[{"jsonrpc":"2.0","id":"m5","result":{}},{"jsonrpc":"2.0","method":"n","params":{"k":6}},7]',
    "empty-batch": b"[]",
    "null-id-error": b'{"jsonrpc":"2.0","id":null,"error":{"code":1,"message":"x"}}',
    "no-jsonrpc-member": b'{"id":"m5","method":"x"}',
    "spaces-around": b'  \t{"jsonrpc":"2.0","id":"m5","result":{}} \t',
}


def junk_line(k):
    return {"raw": JUNK[k], "label": ("junk",), "kind": "junk:" + k}


def grey_line(k):
    return {"raw": GREY[k], "label": ("grey",), "kind": "grey:" + k}


def build_stream(lines, terms, tail=b""):
    data = b"".join(l["raw"] + t for l, t in zip(lines, terms)) + tail
    return {"bytes": data, "labels": [l["label"] for l in lines], "kinds": [l["kind"] for l in lines],
            "terms": ["crlf" if t == b"\r\n" else "lf" for t in terms], "tail": tail}


TEXTS = ["", "a", S_E, S_EUR, S_AST, "\u0085", "\u2028", "\u2029", "a\nb", "x\r\ny", "\u2028\n\u0085",
         "\\n", "\"q\"", S_E + S_EUR + S_AST, "a b  c", " lead and trail ", "\u00a0", "\x1c", "\t", "\x00", "\ufeff", "\ud7ff\ue000"]


def small_streams():
    """Bounded streams for the exhaustive cut enumeration (each <= ~100 bytes)."""
    out = []
    tag = itertools.count(1)
    LF, CRLF = b"\n", b"\r\n"

    def g(kind, text, **kw):
        return good_line(kind, next(tag), text, **kw)

    out.append(build_stream([g("res", S_E), g("notif", S_EUR)], [LF, LF]))
    out.append(build_stream([g("res", S_AST), junk_line("bad-utf8-ff"), g("req", "a")], [CRLF, LF, CRLF]))
    out.append(build_stream([g("notif", "\u2028"), g("err", "\u0085\u2029")], [LF, CRLF]))
    out.append(build_stream([g("res", "a\nb"), junk_line("blank"), g("res", "x\r\ny")], [CRLF, CRLF, LF]))
    out.append(build_stream([junk_line("lone-continuation"), junk_line("truncated-multibyte"), g("req-int", S_E),
                             junk_line("not-json")], [LF, LF, LF, LF]))
    out.append(build_stream([g("res", S_EUR)], [LF], tail=good_line("res", 99, "t")["raw"]))
    out.append(build_stream([junk_line("scalar-int"), g("notif", "\u2029", ascii_only=True), junk_line("scalar-null")],
                            [CRLF, LF, LF], tail=b'{"jsonrpc":'))
    out.append(build_stream([g("res", "q", spaced=True), junk_line("overlong"), junk_line("blank-unicode-space")],
                            [LF, CRLF, LF]))
    out.append(build_stream([junk_line("surrogate-bytes"), g("err", S_AST + S_E)], [CRLF, CRLF], tail=b"\xf0\x9f"))
    out.append(build_stream([g("notif", ""), g("notif", "\u00a0"), junk_line("blank-spaces")], [LF, LF, CRLF]))
    out.append(build_stream([grey_line("unicode-space-around"), g("res", "\x1c")], [LF, LF]))
    out.append(build_stream([grey_line("batch")], [CRLF]))
    out.append(build_stream([junk_line("above-10ffff"), grey_line("c0-separator-around")], [LF, CRLF]))
    out.append(build_stream([junk_line("blank"), junk_line("blank"), g("req", "\\n")], [LF, CRLF, LF], tail=b"\r"))
    out.append(build_stream([g("res", "a b  c"), junk_line("two-messages-cr-separated")], [LF, CRLF]))
    out.append(build_stream([junk_line("two-messages-ls-separated"), g("res", "x y")], [LF, LF]))
    out.append(build_stream([good_raw("lone-surrogate-escape", next(tag)), junk_line("scalar-int"),
                             good_raw("huge-exponent", next(tag))], [LF, CRLF, LF]))
    out.append(build_stream([good_raw("lone-surrogate-escape-notif", next(tag)), g("res", S_E)], [CRLF, LF]))
    return out


def medium_streams(ctx):
    """Streams up to a few hundred bytes: every junk / grey kind once, every text once; cuts k<=2 exhaustively."""
    rng = ctx.rng
    out = []
    tag = itertools.count(200)
    for k in JUNK:
        a = good_line(rng.choice(GOOD_KINDS), next(tag), rng.choice(TEXTS))
        b = good_line(rng.choice(GOOD_KINDS), next(tag), rng.choice(TEXTS), ascii_only=rng.random() < 0.3)
        out.append(build_stream([a, junk_line(k), b], [rng.choice([b"\n", b"\r\n"]) for _ in range(3)]))
    for k in GREY:
        a = good_line(rng.choice(GOOD_KINDS), next(tag), rng.choice(TEXTS))
        out.append(build_stream([grey_line(k), a], [rng.choice([b"\n", b"\r\n"]) for _ in range(2)]))
    for t in TEXTS:
        for kind in ("notif", "res"):
            a = good_line(kind, next(tag), t)
            b = good_line("err", next(tag), t + t, ascii_only=True)
            out.append(build_stream([a, b], [b"\r\n", b"\n"]))
    return out


def random_stream(ctx, n_lines, tag0):
    rng = ctx.rng
    lines, terms = [], []
    tag = tag0
    for _ in range(n_lines):
        r = rng.random()
        if r < 0.04:
            lines.append(good_raw(rng.choice(list(RAW_GOOD)), tag))
            tag += 1
        elif r < 0.62:
            text = "".join(rng.choice(TEXTS) for _ in range(rng.randrange(0, 4)))
            if rng.random() < 0.1:
                text = text * rng.randrange(5, 40)
            lines.append(good_line(rng.choice(GOOD_KINDS), tag, text, ascii_only=rng.random() < 0.2,
                                   spaced=rng.random() < 0.2))
            tag += 1
        elif r < 0.92:
            lines.append(junk_line(rng.choice(list(JUNK))))
        else:
            lines.append(grey_line(rng.choice(list(GREY))))
        terms.append(b"\r\n" if rng.random() < 0.4 else b"\n")
    tail = b""
    if rng.random() < 0.5:
        tail = rng.choice([good_line("res", tag, S_E)["raw"], b"\xe2\x82", b"\r", b'{"jsonrpc"', b" "])
    return build_stream(lines, terms, tail)


def cuts_exhaustive(n, k):
    """every way of cutting n bytes into 1..k non-empty chunks (k <= 3), as sorted cut tuples."""
    yield ()
    if k >= 2:
        for i in range(1, n):
            yield (i,)
    if k >= 3:
        for i in range(1, n):
            for j in range(i + 1, n):
                yield (i, j)


def apply_cuts(data, cuts):
    pts = [0, *cuts, len(data)]
    return [data[a:b] for a, b in zip(pts, pts[1:])]


# --------------------------------------------------------------------------- #
# Implementation side
# --------------------------------------------------------------------------- #
def canon(m):
    try:
        d = m.model_dump(exclude_none=True)
        if isinstance(d, dict) and "method" not in d and "error" not in d and "result" not in d and "id" in d:
            d["result"] = None          # a response whose result is null: exclude_none dropped the member, not the library
    except Exception:
        d = {"<unexpected>": repr(type(m))}
    return canon_obj(d)


def tag_of(m):
    return full_tag(raw_tag_of(m), canon(m))


def raw_tag_of(m):
    mid = getattr(m, "id", None)
    if isinstance(mid, str) and mid.startswith("m") and mid[1:].isdigit():
        return int(mid[1:])
    if isinstance(mid, int) and not isinstance(mid, bool) and mid >= 1000:
        return mid - 1000
    p = getattr(m, "params", None)
    if isinstance(p, dict) and isinstance(p.get("k"), int):
        return p["k"]
    return -1


def drain(stream):
    out = []
    while True:
        try:
            out.append(stream.receive_nowait())
        except anyio.WouldBlock:
            return out
        except (anyio.EndOfStream, anyio.ClosedResourceError):
            return out


def new_client():
    from chuk_mcp.transports.stdio.stdio_client import StdioClient
    from chuk_mcp.transports.stdio.parameters import StdioParameters
    return StdioClient(StdioParameters(command="fake-child", args=[]))


async def feed_and_collect(proc, client, chunks, take_notif=True):
    """Feed all chunks, then wait until the reader has consumed them and asks for more, receiving from both
    streams meanwhile (the main stream's send blocks once 100 messages are buffered).  Returns
    (main, notifications, alive): alive=False when the reader stopped consuming (its task ended)."""
    main, notif = [], []
    so = proc.stdout
    for ch in chunks:
        so.feed(ch)
    stall, last = 0, None
    while so._chunks or so.requests <= so.fed:
        await anyio.sleep(0)
        got = drain(client._incoming_recv)
        main += got
        if take_notif:
            notif += drain(client.notifications)
        now = (len(so._chunks), so.requests, len(main))
        stall = stall + 1 if now == last else 0
        last = now
        if stall > 300:
            break
    alive = not (so._chunks or so.requests <= so.fed)
    main += drain(client._incoming_recv)
    if take_notif:
        notif += drain(client.notifications)
    return main, notif, alive


async def run_chunkings(data, chunkings, flush):
    """One real StdioClient, many chunkings of the same stream.  After each chunking a lone LF flushes the
    unterminated tail (if any) so that the next chunking starts from an empty buffer.  A reader that stops
    consuming gets a fresh client for the next chunking."""
    res = []
    i = 0
    while i < len(chunkings):
        proc = FakeProcess()
        with patched_open_process(proc):
            client = new_client()
            async with client:
                while i < len(chunkings):
                    main, notif, alive = await feed_and_collect(proc, client, apply_cuts(data, chunkings[i]))
                    fl = None
                    if flush:
                        fl = ([], [])
                        if alive:
                            fm, fn, alive = await feed_and_collect(proc, client, [b"\n"])
                            fl = ([canon(m) for m in fm], [canon(m) for m in fn])
                    res.append(([canon(m) for m in main], [tag_of(m) for m in main],
                                [canon(m) for m in notif], [tag_of(m) for m in notif], fl))
                    i += 1
                    if not alive:
                        break
                proc.stdout.close()
    return res


_iso_cache = {}


async def _isolated(raw):
    proc = FakeProcess()
    with patched_open_process(proc):
        client = new_client()
        async with client:
            main, notif, _alive = await feed_and_collect(proc, client, [raw + b"\n"])
            proc.stdout.close()
    return [canon(m) for m in main], [canon(m) for m in notif]


def isolated(raw):
    """What the REAL reader delivers when `raw` is the only line of the stream, in one chunk."""
    if raw not in _iso_cache:
        _iso_cache[raw] = anyio.run(_isolated, raw)
    return _iso_cache[raw]


def py_line_text(raw):
    try:
        t = raw.decode("utf-8").strip()
    except UnicodeDecodeError:
        return None
    return t or None


# --------------------------------------------------------------------------- #
# Model side
# --------------------------------------------------------------------------- #
class RawDriver:
    """Same wire protocol as lib.Driver, but identical result lines are parsed once (all chunkings of a stream
    are expected to give the same result line)."""

    def __init__(self, drv):
        self.exe = drv.exe
        self.cache = {}

    def run(self, requests):
        if not requests:
            return []
        p = subprocess.run(["sh", "-c", f"ulimit -s unlimited 2>/dev/null; exec {self.exe}"],
                           input="\n".join(requests) + "\n", stdout=subprocess.PIPE, stderr=subprocess.PIPE,
                           text=True, timeout=1800)
        lines = p.stdout.split("\n")
        if lines and lines[-1] == "":
            lines.pop()
        if p.returncode != 0 or len(lines) != len(requests):
            raise lib.HarnessError(f"driver failed rc={p.returncode} got {len(lines)} of {len(requests)}: {p.stderr[-300:]}")
        out = []
        for ln in lines:
            if ln.startswith("!ERR"):
                raise lib.HarnessError(f"driver rejected a request: {ln}")
            if ln not in self.cache:
                if len(self.cache) > 5000:
                    self.cache.clear()
                self.cache[ln] = lib.parse_sx(ln)
            out.append(self.cache[ln])
        return out


def model_lines_requests(data, chunkings):
    toks = [str(b) for b in data]
    reqs = []
    for cuts in chunkings:
        pts = [0, *cuts, len(data)]
        reqs.append("(0 (" + " ".join("(" + " ".join(toks[a:b]) + ")" for a, b in zip(pts, pts[1:])) + "))")
    return reqs


def decode_model_lines(res):
    """-> ([(raw bytes, text or None)], final buffer bytes)"""
    ls, buf = res
    out = []
    for raw, topt in ls:
        t = lib.as_opt(topt)
        out.append((bytes(raw), None if t is None else "".join(map(chr, t))))
    return out, bytes(buf)


def expected_from_model(cands):
    main, notif = [], []
    for _raw, text in cands:
        if text is None:
            continue
        try:
            b = text.encode("utf-8")
        except UnicodeEncodeError:
            main.append("<model text not encodable>")
            continue
        m, n = isolated(b)
        main += m
        notif += n
    return main, notif


def sx_labels(labels):
    return "(" + " ".join("()" if l[0] != "good" else f"({l[1]} {1 if l[2] else 0})" for l in labels) + ")"


# --------------------------------------------------------------------------- #
# The correspondence + oracle for a set of chunkings of one stream
# --------------------------------------------------------------------------- #
def classify(expected, got):
    if got == expected:
        return None
    if not got and expected:
        return "nothing-delivered"
    if got == expected[:len(got)]:
        return "reader-stopped-early"
    it = iter(expected)
    if all(any(x == y for y in it) for x in got):
        return "message-lost"
    it = iter(got)
    if all(any(x == y for y in it) for x in expected):
        return "junk-or-duplicate-delivered"
    return "reordered-or-corrupted"


def cut_context(data, cuts):
    """where the cuts fall (for the input-distribution histogram)"""
    ctxs = set()
    for c in cuts:
        if 0 < c < len(data):
            if data[c] & 0xC0 == 0x80:
                ctxs.add("inside-multibyte-char")
            if data[c - 1:c + 1] == b"\r\n":
                ctxs.add("between-CR-and-LF")
            if data[c - 1] == 0x0A:
                ctxs.add("right-after-LF")
            if data[c] == 0x0A and data[c - 1] != 0x0D:
                ctxs.add("right-before-LF")
            if data[c - 1] == 0x5C:
                ctxs.add("inside-escape")
    return ctxs


def check_stream(ctx, drv, spec_cache, st, chunkings, what):
    data = st["bytes"]
    flush = not data.endswith(b"\n")
    impl = anyio.run(run_chunkings, data, chunkings, flush)
    mres = drv.run(model_lines_requests(data, chunkings))
    judged = all(l[0] != "grey" for l in st["labels"])
    lab = sx_labels(st["labels"]) if judged else None
    exp_cache = {}
    for cuts, (main_c, main_t, notif_c, notif_t, fl), mr in zip(chunkings, impl, mres):
        case = {"stream": data.hex(), "cuts": list(cuts), "labels": [list(l) for l in st["labels"]]}
        ctx.case(case, nontrivial=True)
        nch = len(cuts) + 1
        ctx.count(f"{what}:chunks=" + (str(nch) if nch <= 3 else "4-9" if nch < 10 else "10-99" if nch < 100 else "100+"))
        for c in cut_context(data, cuts):
            ctx.count("cut:" + c)
        key = id(mr)
        if key not in exp_cache:
            cands, buf = decode_model_lines(mr)
            for raw, text in cands:
                if py_line_text(raw) != text:
                    ctx.mismatch({"line": raw.hex()}, py_line_text(raw), text, "decode+strip: model != CPython")
            em, en = expected_from_model(cands)
            fexp = None
            if flush:
                t = py_line_text(buf)
                fexp = isolated(t.encode("utf-8")) if t is not None else ([], [])
            exp_cache[key] = (em, en, fexp, [r for r, _ in cands], buf)
        em, en, fexp, mraw, buf = exp_cache[key]
        if main_c != em or notif_c != en:
            ctx.mismatch(case, {"main": main_c, "notifications": notif_c}, {"main": em, "notifications": en},
                         "delivered sequence: model(framing)+real per-line pipeline != real reader")
        if flush and (list(fl[0]), list(fl[1])) != (list(fexp[0]), list(fexp[1])):
            ctx.mismatch(case, {"after-flush": fl}, {"after-flush": fexp, "model-buffer": buf.hex()},
                         "unterminated tail: model buffer != what a later LF releases")
        if judged:
            for tag, got in ((10, main_t), (11, notif_t)):
                k = (tag, lab, tuple(got))
                if k not in spec_cache:
                    spec_cache[k] = bool(drv.run([call(tag, lab, sx(got))])[0])
                ctx.spec_total += 1
                if not spec_cache[k]:
                    exp = [l[1] for l in st["labels"] if l[0] == "good" and (tag == 10 or l[2])]
                    klass = ("main:" if tag == 10 else "notifications:") + (classify(exp, got) or "differs")
                    ctx.spec_violation(klass, case, f"expected tags {exp}, got {got}")
    for k in set(st["kinds"]):
        ctx.count("line:" + k, len(chunkings))
    for t in set(st["terms"]):
        ctx.count("terminator:" + t, len(chunkings))
    ctx.count("tail:" + ("none" if not st["tail"] else "unterminated"), len(chunkings))


# --------------------------------------------------------------------------- #
# Other ties
# --------------------------------------------------------------------------- #
def tie_codec(ctx, drv):
    """utf8_cp / py_isspace / utf8_decode / strip / utf8_encode against CPython."""
    rng = ctx.rng
    if ctx.thorough:
        cps = [c for c in range(0x110000) if not 0xD800 <= c <= 0xDFFF]
        ctx.extra["codec_all_code_points"] = True
    else:
        cps = list(range(0, 0x3100)) + [0xD7FF, 0xE000, 0xFFFF, 0x10000, 0x10FFFF, 0xFEFF, 0xFFFD] + \
              [c for c in range(0x3100, 0x110000, 251) if not 0xD800 <= c <= 0xDFFF]
    for i in range(0, len(cps), 50000):
        blk = cps[i:i + 50000]
        enc, sp = drv.run([call(2, sx(blk)), call(3, sx(blk))])
        for c, e, s in zip(blk, enc, sp):
            ctx.corr_total += 1
            if bytes(e) != chr(c).encode("utf-8"):
                ctx.mismatch({"code_point": c}, list(chr(c).encode("utf-8")), e, "utf8_cp: model != str.encode")
            if bool(s) != chr(c).isspace():
                ctx.mismatch({"code_point": c}, chr(c).isspace(), bool(s), "py_isspace: model != str.isspace")
    ctx.count("codec:code-points", len(cps))
    # surrogates are white-space-free and unencodable
    sur = list(range(0xD800, 0xE000, 37))
    spm = drv.run([call(3, sx(sur))])[0]
    encm = drv.run([call(7, sx([c])) for c in sur])
    for c, s, e in zip(sur, spm, encm):
        if bool(s) != chr(c).isspace() or lib.as_opt(e) is not None:
            ctx.mismatch({"code_point": c}, "not space, UnicodeEncodeError", [s, e], "surrogate handling")
    # decoder: structured mutations of valid UTF-8 + boundary sequences + random bytes
    seeds = [t.encode("utf-8") for t in TEXTS if t] + [l for l in JUNK.values()] + [l for l in GREY.values()]
    bl = [b"\xc2\x80", b"\xc1\xbf", b"\xc0\x80", b"\xdf\xbf", b"\xe0\xa0\x80", b"\xe0\x9f\xbf", b"\xed\x9f\xbf", b"\xed\xa0\x80",
          b"\xee\x80\x80", b"\xef\xbf\xbf", b"\xf0\x90\x80\x80", b"\xf0\x8f\xbf\xbf", b"\xf4\x8f\xbf\xbf", b"\xf4\x90\x80\x80",
          b"\xf5\x80\x80\x80", b"\xf8\x88\x80\x80\x80", b"\xff", b"\xfe", b"\x80", b"\xbf", b"\xc2", b"\xe2\x82", b"\xf0\x9f\x98",
          b"\xc2\x41", b"\xe2\x41\x80", b"\xe2\x82\x41", b"\xf0\x9f\x41\x80", b"\xc3\xa9\r", b"\r", b"\xc3\r", b""]
    samples = list(bl)
    for _ in range(ctx.budget(3000, 40000)):
        s = bytearray(rng.choice(seeds + bl))
        for _k in range(rng.randrange(0, 3)):
            op = rng.randrange(4)
            pos = rng.randrange(0, len(s) + 1)
            if op == 0 and s:
                del s[min(pos, len(s) - 1)]
            elif op == 1:
                s.insert(pos, rng.choice([0x80, 0xBF, 0xC0, 0xC2, 0xE0, 0xED, 0xF0, 0xF4, 0xF5, 0xFF, 0x0D, 0x20, 0x41,
                                          rng.randrange(256)]))
            elif op == 2 and s:
                s[min(pos, len(s) - 1)] = rng.randrange(256)
            else:
                s[pos:pos] = rng.choice(bl)
        samples.append(bytes(s))
    dec = drv.run([call(4, sx(b)) for b in samples])
    for b, d in zip(samples, dec):
        ctx.corr_total += 1
        try:
            py = [ord(ch) for ch in b.decode("utf-8")]
            ctx.count("codec:decode-ok")
        except UnicodeDecodeError:
            py = None
            ctx.count("codec:decode-error")
        if lib.as_opt(d) != py:
            ctx.mismatch({"bytes": b.hex()}, py, lib.as_opt(d), "utf8_decode: model != bytes.decode")
    # strip
    ws = ["", " ", "\t", "\r", "\n", "\x0b", "\x0c", "\x1c", "\x1f", "\u0085", "\u00a0", "\u2028", "\u2029", "\u3000", "\u200b",
          "\ufeff", "a", S_E, "{", "\x00", "\x1b", "\u180e", "\u2060"]
    strs = []
    for _ in range(ctx.budget(2000, 20000)):
        strs.append("".join(rng.choice(ws) for _ in range(rng.randrange(0, 7))))
    st = drv.run([call(5, sx(s)) for s in strs])
    for s, r in zip(strs, st):
        ctx.corr_total += 1
        if "".join(map(chr, r)) != s.strip():
            ctx.mismatch({"text": [ord(c) for c in s]}, [ord(c) for c in s.strip()], r, "strip: model != str.strip")
    ctx.count("codec:strip", len(strs))


async def _overflow_run(script):
    """script: list of ('lines', [raw...]) | ('take', n).  Main stream drained after every step; the notification
    stream only by 'take'.  Returns (capacity, main tags, received tags, left-in-queue tags)."""
    proc = FakeProcess()
    main, recv = [], []
    with patched_open_process(proc):
        client = new_client()
        async with client:
            cap = client._notify_send.statistics().max_buffer_size
            for kind, val in script:
                if kind == "lines":
                    for i in range(0, len(val), 40):
                        got, _n, _alive = await feed_and_collect(proc, client, [b"".join(r + b"\n" for r in val[i:i + 40])],
                                                                 take_notif=False)
                        main += [raw_tag_of(m) for m in got]
                else:
                    for _ in range(val):
                        try:
                            recv.append(raw_tag_of(client.notifications.receive_nowait()))
                        except anyio.WouldBlock:
                            pass
            queue = [raw_tag_of(m) for m in drain(client.notifications)]
            proc.stdout.close()
    return cap, main, recv, queue


def tie_routing(ctx, drv):
    rng = ctx.rng
    n_cases = ctx.budget(40, 400)
    for ci in range(n_cases):
        script, evs = [], []
        tag = 1
        total = rng.choice([30, 99, 100, 101, 150, 260]) if ci >= 6 else [99, 100, 101, 150, 260, 30][ci]
        while tag <= total:
            n = rng.randrange(1, 70)
            lines = []
            for _ in range(n):
                kind = "notif" if rng.random() < (0.85 if ci % 2 == 0 else 0.5) else rng.choice(["res", "req", "err"])
                lines.append(good_line(kind, tag, "")["raw"])
                evs.append(f"({tag} {1 if kind == 'notif' else 0})")
                tag += 1
            script.append(("lines", lines))
            if ci % 3 != 0 and rng.random() < 0.6:
                k = rng.randrange(0, 60)
                script.append(("take", k))
                evs += ["()"] * k
        cap, main, recv, queue = anyio.run(_overflow_run, script)
        m_main, m_recv, m_queue = drv.run([call(1, sx(cap), "(" + " ".join(evs) + ")")])[0]
        case = {"routing": [(k, len(v) if k == "lines" else v) for k, v in script], "capacity": cap}
        ctx.case(case, nontrivial=True)
        n_notif = sum(1 for e in evs if e.endswith(" 1)"))
        ctx.count("routing:" + ("overflow" if len(recv) + len(queue) < n_notif else "no-overflow"))
        ctx.count("routing:capacity=" + str(cap))
        if (main, recv, queue) != (m_main, m_recv, m_queue):
            ctx.mismatch(case, {"main": main, "recv": recv, "queue": queue},
                         {"main": m_main, "recv": m_recv, "queue": m_queue}, "routing: model != implementation")
        # the property itself, judged on the implementation: the READ stream carries every well-formed line in order,
        # whatever happens to the (bounded, possibly never drained) notification stream; the notification stream carries
        # notifications only, in order, none twice
        want = list(range(1, tag))
        ctx.spec_total += 1
        if main != want:
            klass = "main:" + (classify(want, main) or "differs") + (":notification-buffer-full" if len(recv) + len(queue) < n_notif else "")
            ctx.spec_violation(klass, case, f"{len(want)} well-formed lines written, {len(main)} delivered on the read stream; "
                                            f"first missing tag {next((t for t in want if t not in set(main)), None)}")
        offered = recv + queue
        notif_tags = [int(e[1:].split(" ")[0]) for e in evs if e.endswith(" 1)")]
        it = iter(notif_tags)
        ctx.spec_total += 1
        if not all(any(x == y for y in it) for x in offered):
            ctx.spec_violation("notifications:not-a-subsequence-of-the-notifications-written", case,
                               f"offered {offered[:20]}...")


async def _text_chunk_run(chunks):
    proc = FakeProcess()
    with patched_open_process(proc):
        client = new_client()
        async with client:
            for ch in chunks:
                proc.stdout.feed(ch)
            with anyio.move_on_after(5):
                await anyio.wait_all_tasks_blocked()
            main = [canon(m) for m in drain(client._incoming_recv)]
            notif = [canon(m) for m in drain(client.notifications)]
            proc.stdout.close()
    return main, notif


def tie_text_chunks(ctx, drv):
    """str chunks (accepted for test doubles), cut at code-point boundaries, mixed with bytes chunks; a lone
    surrogate in a str chunk ends the reader."""
    rng = ctx.rng
    tag = itertools.count(5000)
    for ci in range(ctx.budget(60, 600)):
        lines = [good_line(rng.choice(GOOD_KINDS), next(tag), rng.choice(TEXTS)) for _ in range(rng.randrange(2, 5))]
        text = "".join(l["raw"].decode("utf-8") + rng.choice(["\n", "\r\n"]) for l in lines)
        cuts = sorted(rng.sample(range(1, len(text)), k=min(rng.randrange(0, 4), len(text) - 1)))
        pieces = [text[a:b] for a, b in zip([0, *cuts], [*cuts, len(text)])]
        chunks = []
        for p in pieces:
            chunks.append(p if rng.random() < 0.6 else p.encode("utf-8"))
        poison = ci % 4 == 0
        if poison:
            chunks.insert(rng.randrange(0, len(chunks) + 1), rng.choice(["\ud800", "a\udfff", "\udc80\n"]))
        main, notif = anyio.run(_text_chunk_run, chunks)
        req = "(6 (" + " ".join(("(1 " + sx(c) + ")") if isinstance(c, str) else ("(0 " + sx(c) + ")") for c in chunks) + "))"
        cands, _buf = decode_model_lines(drv.run([req])[0])
        em, en = expected_from_model(cands)
        case = {"chunks": [c if isinstance(c, str) else {"bytes": c.hex()} for c in chunks]}
        ctx.case(case, nontrivial=True)
        ctx.count("text-chunks:" + ("with-lone-surrogate" if poison else "encodable"))
        if (main, notif) != (em, en):
            ctx.mismatch(case, {"main": main, "notifications": notif}, {"main": em, "notifications": en},
                         "str chunks: model != implementation")


CHILD = r"""
import os, sys, time, json
spec = json.load(open(sys.argv[1]))
for h in spec["chunks"]:
    b = bytes.fromhex(h)
    while b:
        n = os.write(1, b)
        b = b[n:]
    time.sleep(spec["pause"])
sys.stdin.buffer.read()
"""


async def _real_child(script_path, spec_path, n_expected):
    from chuk_mcp.transports.stdio.stdio_client import StdioClient
    from chuk_mcp.transports.stdio.parameters import StdioParameters
    main, notif = [], []
    client = StdioClient(StdioParameters(command=sys.executable, args=[script_path, spec_path]))
    async with client:
        with anyio.move_on_after(20):
            while len(main) < n_expected:
                main.append(await client._incoming_recv.receive())
        await anyio.sleep(0.3)          # anything that should NOT have been delivered gets its chance
        main += drain(client._incoming_recv)
        notif += drain(client.notifications)
    return [canon(m) for m in main], [canon(m) for m in notif]


def tie_real_child(ctx, drv):
    """Thorough tier: a real child process writing the stream with forced partial os.write() calls."""
    rng = ctx.rng
    d = tempfile.mkdtemp(prefix="c05-child-")
    script = os.path.join(d, "child.py")
    open(script, "w").write(CHILD)
    for ci in range(24):
        st = random_stream(ctx, rng.randrange(3, 25), 7000 + 100 * ci)
        data = st["bytes"]
        k = rng.randrange(1, 12)
        cuts = tuple(sorted(rng.sample(range(1, len(data)), k=min(k, len(data) - 1))))
        chunks = apply_cuts(data, cuts)
        spec_path = os.path.join(d, f"s{ci}.json")
        json.dump({"chunks": [c.hex() for c in chunks], "pause": rng.choice([0.0, 0.002, 0.01])}, open(spec_path, "w"))
        cands, _buf = decode_model_lines(drv.run(model_lines_requests(data, [cuts]))[0])
        em, en = expected_from_model(cands)
        main, notif = anyio.run(_real_child, script, spec_path, len(em))
        case = {"stream": data.hex(), "cuts": list(cuts), "real_child": True}
        ctx.case(case, nontrivial=True)
        ctx.count("real-child:streams")
        if (main, notif) != (em, en):
            ctx.mismatch(case, {"main": main, "notifications": notif}, {"main": em, "notifications": en},
                         "real child with partial writes: model != implementation")


# --------------------------------------------------------------------------- #
async def _exited_run(chunks, exited):
    """The child writes everything and (exited=True) is gone at once: its exit status is already there while the bytes are
    still in the pipe.  Returns the canonical forms delivered on the main stream."""
    proc = FakeProcess()
    with patched_open_process(proc):
        client = new_client()
        async with client:
            if exited:
                proc.returncode = 0
            main, _notif, _alive = await feed_and_collect(proc, client, chunks)
            proc.stdout.close()
            for _ in range(50):
                await anyio.sleep(0)
            main += drain(client._incoming_recv)
    return [canon(m) for m in main]


async def _reqstream_run(chunks, ids):
    """one-shot per-request streams (StdioClient.new_request_stream) are registered for `ids` before the child writes anything:
    an EXTRA way of getting an answer - the read stream still carries every message"""
    proc = FakeProcess()
    with patched_open_process(proc):
        client = new_client()
        async with client:
            side = [client.new_request_stream(i) for i in ids]
            main, _notif, _alive = await feed_and_collect(proc, client, chunks)
            proc.stdout.close()
            for _ in range(50):
                await anyio.sleep(0)
            main += drain(client._incoming_recv)
            got_side = sum(len(drain(s_)) for s_ in side)
    return [canon(m) for m in main], got_side


def tie_request_streams(ctx):
    rng = ctx.rng
    for si in range(ctx.budget(12, 60)):
        st = random_stream(ctx, rng.choice([3, 8, 30, 80]), 950000 + 1000 * si)
        data = st["bytes"] + (b"" if st["bytes"].endswith(b"\n") else b"\n")
        n = len(data)
        import re as _re
        ids = sorted({m.decode() for m in _re.findall(rb'"id":\s?"(m\d+)"', data)})
        ids = [i for k, i in enumerate(ids) if k % 2 == 0]
        for k in (0, 3):
            cuts = tuple(sorted(rng.sample(range(1, n), k=min(k, n - 1))))
            chunks = apply_cuts(data, cuts)
            plain, _ = anyio.run(_reqstream_run, chunks, [])
            withs, n_side = anyio.run(_reqstream_run, chunks, ids)
            case = {"stream": data.hex(), "cuts": list(cuts), "request_streams_registered_for": ids}
            ctx.case(case, nontrivial=bool(ids))
            ctx.count("request-streams:%s" % ("none" if not ids else "some"))
            ctx.spec_total += 1
            if withs != plain:
                lost = [x for x in plain if x not in withs]
                ctx.spec_violation("read-stream-loses-what-a-request-stream-got", case,
                                   f"{len(plain)} messages on the read stream without per-request streams, {len(withs)} with them "
                                   f"({n_side} delivered on the side); first missing: {lost[0][:160] if lost else None}")


async def _stalled_run(n, stall):
    proc = FakeProcess()
    with patched_open_process(proc):
        client = new_client()
        async with client:
            lines = [good_line("notif" if i % 3 else "res", i + 1, "")["raw"] for i in range(n)]
            proc.stdout.feed(b"".join(r + b"\n" for r in lines))
            await anyio.sleep(stall)                 # the application is busy elsewhere; nobody receives meanwhile
            main = []
            with anyio.move_on_after(20):
                while len(main) < n:
                    main.append(raw_tag_of(await client._incoming_recv.receive()))
            proc.stdout.close()
    return main


def tie_stalled_consumer(ctx, only=None):
    """'delivers on the read stream exactly the well-formed lines, in order' - also when the application does not receive for
    a long while (virtual clock): more lines than the read stream buffers are waiting, then it drains them - none is missing."""
    from vloop import vrun
    for n, stall in ([only] if only else [(150, 33.0), (101, 61.0), (260, 5.0), (100, 40.0)]):
        main = vrun(_stalled_run, n, stall)
        case = {"lines_written_at_once": n, "consumer_stalls_for_s": stall}
        ctx.case(case, nontrivial=True)
        ctx.count("stalled-consumer")
        ctx.spec_total += 1
        want = list(range(1, n + 1))
        if main != want:
            ctx.spec_violation("main:" + (classify(want, main) or "differs") + ":after-a-stalled-consumer", case,
                               f"{n} well-formed lines written, {len(main)} delivered; first missing tag "
                               f"{next((t for t in want if t not in set(main)), None)}")


JUNK_DEEP = {
    # junk nested deeper than any JSON parser accepts: the parsers raise RecursionError / a depth error, not a syntax error
    "deep-open-arrays": b"[" * 3000, "deep-open-objects": b'{"a":' * 3000, "deep-balanced-arrays": b"[" * 3000 + b"]" * 3000,
}


async def _deep_junk_run(junk, chunk):
    proc = FakeProcess()
    with patched_open_process(proc):
        client = new_client()
        async with client:
            lines = [good_line("res", 1, "")["raw"], junk, good_line("notif", 2, "")["raw"], good_line("res", 3, "")["raw"]]
            data = b"".join(r + b"\n" for r in lines)
            for i in range(0, len(data), chunk):
                proc.stdout.feed(data[i:i + chunk])
            main = []
            with anyio.move_on_after(10):
                while len(main) < 3:
                    main.append(raw_tag_of(await client._incoming_recv.receive()))
            proc.stdout.close()
    return main


def tie_deep_junk(ctx, only=None):
    """'a junk line is dropped alone' - also one that no JSON parser can even descend into (the real reader only: the
    extracted decoder model is not asked to parse 3000 levels)."""
    plans = [only] if only else [(k, c) for k in JUNK_DEEP for c in (1 << 20, 777)]
    for k, chunk in plans:
        main = anyio.run(_deep_junk_run, JUNK_DEEP[k], chunk)
        case = {"deep_junk": k, "chunk_bytes": chunk}
        ctx.case(case, nontrivial=True)
        ctx.count("deep-junk")
        ctx.spec_total += 1
        if main != [1, 2, 3]:
            ctx.spec_violation("main:" + (classify([1, 2, 3], main) or "differs") + ":after-a-deeply-nested-junk-line", case,
                               f"3 well-formed lines around the junk line, delivered tags {main}")


def tie_exited_child(ctx):
    """What the child wrote before it exited is delivered like the output of a child that stays (one-shot servers, a crash
    right after the last answer): same stream, same chunking, exit status present vs absent."""
    rng = ctx.rng
    for si in range(ctx.budget(12, 60)):
        st = random_stream(ctx, rng.choice([3, 8, 30, 120]), 900000 + 1000 * si)
        data = st["bytes"] + (b"" if st["bytes"].endswith(b"\n") else b"\n")
        n = len(data)
        for k in (0, 1, 3, 9, min(n - 1, 64)):
            cuts = tuple(sorted(rng.sample(range(1, n), k=min(k, n - 1))))
            chunks = apply_cuts(data, cuts)
            stays = anyio.run(_exited_run, chunks, False)
            gone = anyio.run(_exited_run, chunks, True)
            case = {"stream": data.hex(), "cuts": list(cuts), "child": "exit status already set while its output is still unread"}
            ctx.case(case, nontrivial=bool(stays))
            ctx.count("exited-child:chunks=" + ("1" if not cuts else "2-4" if len(cuts) < 4 else ">4"))
            ctx.spec_total += 1
            if gone != stays:
                lost = [x for x in stays if x not in gone]
                ctx.spec_violation("output-of-exited-child-lost" if len(gone) < len(stays) else "output-of-exited-child-differs",
                                   case, f"{len(stays)} messages from a child that stays, {len(gone)} once it has exited; "
                                         f"first missing: {lost[0][:160] if lost else None}")


def explore(ctx, drv):
    spec_cache = {}
    tie_codec(ctx, drv)
    small = small_streams()
    kmax_len = ctx.budget(150, 168)
    for st in small:
        n = len(st["bytes"])
        if n > kmax_len:
            raise lib.HarnessError(f"small stream of {n} bytes exceeds the exhaustive bound {kmax_len}")
        check_stream(ctx, drv, spec_cache, st, list(cuts_exhaustive(n, 3)), "exhaustive-k<=3")
    ctx.extra["exhaustive_k3_streams"] = len(small)
    ctx.extra["exhaustive_k3_max_stream_bytes"] = max(len(s["bytes"]) for s in small)
    med = medium_streams(ctx)
    for st in med:
        n = len(st["bytes"])
        k = 3 if ctx.thorough and n <= kmax_len else 2
        check_stream(ctx, drv, spec_cache, st, list(cuts_exhaustive(n, k)), f"exhaustive-k<={k}")
    ctx.extra["exhaustive_k2_streams"] = len(med)
    rng = ctx.rng
    for si in range(ctx.budget(40, 400)):
        st = random_stream(ctx, rng.choice([3, 8, 30, 120, 300]), 10000 + 1000 * si)
        n = len(st["bytes"])
        chunkings = []
        for _ in range(ctx.budget(12, 40)):
            k = rng.choice([1, 2, 3, 5, 9, 17, 64, min(n - 1, 400)])
            chunkings.append(tuple(sorted(rng.sample(range(1, n), k=min(k, n - 1)))))
        chunkings.append(tuple(range(1, n)) if n < 4000 else ())      # one byte per chunk
        check_stream(ctx, drv, spec_cache, st, chunkings, "seeded-cuts")
    tie_routing(ctx, drv)
    tie_text_chunks(ctx, drv)
    tie_exited_child(ctx)
    tie_stalled_consumer(ctx)
    tie_deep_junk(ctx)
    tie_request_streams(ctx)
    if ctx.thorough:
        tie_real_child(ctx, drv)
    ctx.exhaustive = True


def run(ctx):
    lib.standard_obligations(ctx, GEN, TARGETS)
    try:
        drv = RawDriver(lib.Driver("C05"))
        ctx.oblige("build:driver(C05)", True)
    except lib.HarnessError as e:
        ctx.oblige("build:driver(C05)", False, str(e)[-600:])
        raise
    if ctx.broken_obligations:
        ctx.escalated = True
    explore(ctx, drv)
    if ctx.corr_mismatch and not ctx.escalated and not ctx.spec_fail:
        ctx.escalated = True
        explore(ctx, drv)
    if ctx.thorough:
        lib.coqchk(ctx, "C05")
    ctx.rule = ("real StdioClient._stdout_reader over a scripted process.stdout. (a) 16 structured streams <= 150 bytes "
                "(168 thorough): EVERY cut into 1..3 chunks; (b) one stream per junk kind / grey kind / payload text "
                "(ASCII, 2/3/4-byte UTF-8, U+0085/2028/2029, escaped \\n \\r, NBSP, C0 separators), LF and CRLF: every "
                "cut into 1..2 chunks (1..3 thorough); (c) seeded streams of 3..300 lines with seeded cuts incl. one "
                "byte per chunk; (d) notification-stream capacity scripts; (e) str chunks incl. lone surrogates; "
                "(f) UTF-8 encode/isspace per code point, decoder on mutated sequences, strip; (h) the same streams from a child "
                "whose exit status is already set while its output is unread; thorough: (g) a real "
                "child with forced partial os.write calls. Expected sequence = model's candidate lines, each pushed "
                "through the REAL reader in isolation; spec oracle = extracted main_ok/notif_ok on generator labels. "
                "exhaustive:true refers to (a) and (b). distinct = distinct (stream, cuts); every case has >= 1 line")
    return lib.finish(ctx, TRUSTED, ASSUME)


def replay(ctx, data):
    drv = RawDriver(lib.Driver("C05"))
    case = data.get("case", {})
    if "deep_junk" in case:
        tie_deep_junk(ctx, only=(case["deep_junk"], case["chunk_bytes"]))
        for f in ctx.spec_fail:
            print("REPRODUCED", f["class"], f["detail"])
        return 1 if ctx.spec_fail else 0
    if "consumer_stalls_for_s" in case:
        tie_stalled_consumer(ctx, only=(case["lines_written_at_once"], case["consumer_stalls_for_s"]))
        for f in ctx.spec_fail:
            print("REPRODUCED", f["class"], f["detail"])
        return 1 if ctx.spec_fail else 0
    if "request_streams_registered_for" in case:
        chunks = apply_cuts(bytes.fromhex(case["stream"]), tuple(case["cuts"]))
        plain, _ = anyio.run(_reqstream_run, chunks, [])
        withs, n_side = anyio.run(_reqstream_run, chunks, case["request_streams_registered_for"])
        print(len(plain), "messages on the read stream without per-request streams,", len(withs), "with them")
        if plain != withs:
            print("REPRODUCED", data.get("class"))
        return 1 if plain != withs else 0
    if "child" in case:
        chunks = apply_cuts(bytes.fromhex(case["stream"]), tuple(case["cuts"]))
        stays, gone = anyio.run(_exited_run, chunks, False), anyio.run(_exited_run, chunks, True)
        print(len(stays), "messages delivered from a child that stays,", len(gone), "once its exit status is set")
        if stays != gone:
            print("REPRODUCED", data.get("class"))
        return 1 if stays != gone else 0
    if "stream" not in case or "labels" not in case:
        print("replay supports (stream, cuts, labels) cases; re-run ./check C05 with seed", data.get("seed"))
        return 0
    st = {"bytes": bytes.fromhex(case["stream"]), "labels": [tuple(l) for l in case["labels"]],
          "kinds": ["replay"], "terms": ["lf"], "tail": b""}
    check_stream(ctx, drv, {}, st, [tuple(case["cuts"])], "replay")
    for f in ctx.spec_fail:
        print("REPRODUCED", json.dumps(f)[:800])
    for m in ctx.corr_mismatch:
        print("DISAGREEMENT", json.dumps(m, default=str)[:800])
    return 1 if (ctx.spec_fail or ctx.corr_mismatch) else 0

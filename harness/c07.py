"""C07 — an error response always surfaces as a classified exception carrying its code."""
from __future__ import annotations

import itertools

import lib
from lib import call, sx
import await_common as A

META = {
    "level": "Proof: (1) for every arrival history, a matching error response arriving before the deadline is RAISED with the server's "
             "code and the documented class, never returned (corollary of the C01 trace theorem); (2) the classifier regenerated from "
             "errors.py is, for ALL integers, 'non-retryable iff in the documented permanent set' pinned in Spec/C07.v (lia over the "
             "translated membership tests, re-proved on every run); (3) the regenerated sets equal the documented ones, are disjoint, "
             "and every named code constant lies in exactly one (finite table, vm_compute + forallb_forall); (4) the boolean wrappers "
             "report every non-result as false. Tied to the code by the translator and by differential runs of send_message, the "
             "classifier functions and every typed send_* helper.",
    "note": "Trusted: Coq kernel, AST translator for errors.py (constants evaluated from closed literal expressions; mutation of the "
            "sets elsewhere at run time is caught only by the differential run), extraction, virtual-clock loop. The 'documented set' "
            "is the ten permanent codes named in errors.py at the pinned commit, written down in Spec/C07.v.",
    "technique": "Coq proof (lia over translated code; finite tables by vm_compute) + differential correspondence over code grids and helpers",
    "design_ref": "DESIGN.md section 6 (C07)",
}
GEN = ["ConstsGen.v", "ErrorsGen.v"]
TARGETS = ["Gen/ConstsGen", "Gen/ErrorsGen", "Model/Await", "Spec/C01", "Spec/C07", "Proofs/Await", "Proofs/AwaitSpec",
           "Proofs/Errors", "Props/C07"]
TRUSTED = [
    "Coq 8.16.1 kernel (coqc); coqchk in the thorough tier; vm_compute for the finite named-code table and the Example",
    "axioms: none (Closed under the global context for every C07 theorem)",
    "translator: errors.py constants, NON_RETRYABLE_ERRORS / RETRYABLE_ERRORS / ERROR_MESSAGES keys, is_retryable_error, "
    "is_server_error, is_standard_jsonrpc_error -> Gen/ErrorsGen.v (fail-closed AST subset)",
    "hand-written model of _process_response inside Model/Await.v, tied by the correspondence run",
    "extraction ExtrOcamlBasic only; ocaml/main.ml text<->sexp",
]
ASSUME = ["error objects are spec-valid (integer code, string message) - the envelope classes enforce it",
          "documented permanent set = the ten codes pinned in Spec/C07.v"]

NAMED = [-32700, -32600, -32601, -32602, -32603, -32000, -32001, -32002, -32003, -32004, -32005, -32006, -32007, -32008]


def code_grid(ctx, full):
    rng = ctx.rng
    codes = set()
    if full:
        codes.update(range(-33100, -31899))
        codes.update(range(-200, 201))
    # the ranges people map other protocols' status codes into (HTTP 1xx-5xx, errno, exit statuses): every value in quick too
    codes.update(range(-1100, 1101, 1 if full else 7))
    codes.update(range(395, 605))
    for c in NAMED:
        codes.update((c - 1, c, c + 1))
    codes.update((0, 1, -1, 2**31 - 1, -2**31, 2**63 - 1, -2**63, 2**63, 2**64 - 1, -32099, -32100, -31999, -32768, -32769))
    for _ in range(ctx.budget(300, 3000)):
        codes.add(rng.randrange(-2**63, 2**63))
    for _ in range(ctx.budget(300, 3000)):
        codes.add(rng.randrange(-33100, -31899))
    return sorted(codes)


def check_functions(ctx, model, spec):
    """The three classifier functions over the full grid (cheap: direct calls)."""
    from chuk_mcp.protocol.types import errors as E
    codes = code_grid(ctx, full=True)
    impl = [(bool(E.is_retryable_error(c)), bool(E.is_server_error(c)), bool(E.is_standard_jsonrpc_error(c))) for c in codes]
    if model:
        m1 = model.run([call(1, str(c)) for c in codes])
        m3 = model.run([call(3, str(c)) for c in codes])
    s = spec.run([call(3, str(c), sx(i[0])) for c, i in zip(codes, impl)])
    for k, (c, i) in enumerate(zip(codes, impl)):
        ctx.case({"fn": "is_retryable_error", "code": c}, nontrivial=True)
        ctx.count("grid:" + ("named" if c in NAMED else "reserved-range" if -32099 <= c <= -32000 else "other"))
        if model:
            if bool(m1[k]) != i[0]:
                ctx.mismatch({"code": c}, i[0], bool(m1[k]), "is_retryable_error: model != implementation")
            if [bool(x) for x in m3[k]] != [i[1], i[2]]:
                ctx.mismatch({"code": c}, [i[1], i[2]], m3[k], "is_server_error/is_standard_jsonrpc_error: model != implementation")
        ctx.spec_total += 1
        if not s[k]:
            ctx.spec_violation("code-misclassified:" + ("permanent-as-retryable" if i[0] else "transient-as-permanent"),
                               {"code": c}, f"is_retryable_error({c}) = {i[0]}")
    # set consistency on the imported module itself
    ctx.spec_total += 1
    both = set(E.NON_RETRYABLE_ERRORS) & set(E.RETRYABLE_ERRORS)
    if both:
        ctx.spec_violation("sets-overlap", {"codes": sorted(both)}, "a code is in both documented sets")
    named = {n: v for n, v in vars(E).items() if n.isupper() and isinstance(v, int) and not isinstance(v, bool)
             and not n.startswith("SERVER_ERROR_")}
    for n, v in sorted(named.items()):
        ctx.spec_total += 1
        if (v in E.NON_RETRYABLE_ERRORS) == (v in E.RETRYABLE_ERRORS):
            ctx.spec_violation("named-code-not-in-exactly-one-set", {"name": n, "code": v}, "")


def check_send_message(ctx, model, spec):
    codes = code_grid(ctx, full=ctx.thorough or ctx.escalated)
    datas = [None, {"k": 1}, [1, 2], "text", 5, 1.5, True]
    scs = []
    for i, c in enumerate(codes):
        scs.append({"D": 200, "me": ("a", "123", None)[i % 3], "has_cb": False, "cancel": None, "params": None,
                    "arrivals": [(3, ("res", ("str", "zz-other"), 1)), (5, ("err", ("me",), c, datas[i % len(datas)])),
                                 (9, ("res", ("me",), 2))]})
    # the same under DEBUG logging (code that only runs when the application has logging turned up), and with an error object
    # that lacks its message member
    extra = []
    for i, sc in enumerate(scs[::max(1, len(scs) // 150)]):
        for nomsg in (False, True):
            e = dict(sc)
            e["debug_log"] = True
            if nomsg:
                arr = list(e["arrivals"])
                t, m = arr[1]
                arr[1] = (t, (m[0], m[1], m[2], m[3], "no-message"))
                e["arrivals"] = arr
            extra.append(e)
        q = dict(sc)
        arr = list(q["arrivals"])
        t, m = arr[1]
        arr[1] = (t, (m[0], m[1], m[2], m[3], "no-message"))
        q["arrivals"] = arr
        extra.append(q)
    scs += extra
    n_plain = len(scs)
    # (0) a cancellation token is passed and never triggered: the error that answers the request is classified all the same
    for i, c in enumerate(codes[::max(1, len(codes) // 60)]):
        scs.append({"D": 200, "me": ("a", "123", None)[i % 3], "has_cb": bool(i % 2), "cancel": None, "params": None, "idle_token": True,
                    "arrivals": [(3, ("res", ("str", "zz-other"), 1)), (5, ("err", ("me",), c, datas[i % len(datas)])),
                                 (9, ("res", ("me",), 2))]})
    # (a) the REQUEST carries legal Python values that are not JSON-native (paths, decimals, sets, bytes): what the request
    #     looked like has no bearing on how the error that answers it is classified;
    # (b) the peer answered with the error and hung up before the caller got to read it: the buffered error is still THE answer
    for i, c in enumerate(codes[::max(1, len(codes) // 40)]):
        for odd in ("path", "decimal", "set", "bytes", "nested"):
            scs.append({"D": 200, "me": ("a", "123", None)[i % 3], "has_cb": False, "cancel": None, "params": {"$odd": odd},
                        "arrivals": [(3, ("res", ("str", "zz-other"), 1)), (5, ("err", ("me",), c, datas[i % len(datas)])),
                                     (9, ("res", ("me",), 2))]})
        for pre in ([], [(-1, ("notif",))], [(-1, ("res", ("str", "zz-other"), 1)), (-1, ("notif",))]):
            scs.append({"D": 200, "me": ("a", "123", None)[i % 3], "has_cb": False, "cancel": None, "params": None,
                        "closed_before_call": True,
                        "arrivals": [(0, ("notif",))] + pre[:1] + [(0, ("err", ("me",), c, datas[i % len(datas)]))]})
    runs = A.check_scenarios(ctx, scs, model, spec, {"c01"})
    reqs = []
    for sc, obs in runs:
        code = [m for _t, m in sc["arrivals"] if m[0] == "err"][0][2]
        reqs.append((sc, obs, code))
    res = spec.run([call(2, str(code), A.enc_outcome(obs["out"])) for _sc, obs, code in reqs if obs["out"]])
    it = iter(res)
    for sc, obs, code in reqs:
        if not obs["out"]:
            continue
        ok = next(it)
        ctx.spec_total += 1
        em = [m for _t, m in sc["arrivals"] if m[0] == "err"][0]
        ctx.count("send_message-error:" + ("data" if em[3] is not None else "no-data"))
        ctx.count("logging:" + ("DEBUG" if sc.get("debug_log") else "off"))
        ctx.count("error-object:" + ("without-message" if len(em) > 4 else "complete"))
        ctx.count("request-params:" + ("not-json-native" if isinstance(sc.get("params"), dict) and "$odd" in sc["params"] else "json"))
        ctx.count("peer:" + ("hung-up-after-answering" if sc.get("closed_before_call") else "stays"))
        ctx.count("cancellation-token:" + ("passed-never-triggered" if sc.get("idle_token") else "none"))
        if not ok:
            klass = "error-returned-normally" if obs["out"][0] == "ret" else \
                    "error-raised-with-wrong-class-or-code" if obs["out"][0] == "err" else "error-response-ignored"
            ctx.spec_violation(klass, A.scenario_case(sc), f"matching error {code} -> {obs['out']}")


def check_helpers(ctx, model, spec):
    helpers = A.discover_helpers()
    ctx.extra["helpers_discovered"] = sorted(helpers)
    codes = [-32601, -32603, -32000, -32004, 7, -32008, 2**40, -32001, -32602, -32600, -32700, -32002]
    reqs = []
    for name, fn in sorted(helpers.items()):
        # every helper with its required arguments only, and - where it has optional ones (cursor of a listing, arguments of a
        # prompt, preferences of a sampling request) - once more with ALL of them given
        modes = [False, True] if A.helper_has_options(fn) else [False]
        for c, full in itertools.product(codes, modes):
            for script in ([("err", c, None)], [("other-res",), ("same-req",), ("notif",), ("err", c, {"d": 1}), ("res",)]):
                out = A.run_helper(fn, name, script, full=full)
                case = {"helper": name, "script": [list(s) for s in script], **({"all_arguments": True} if full else {})}
                ctx.count("helper-arguments:" + ("all" if full else "required-only"))
                ctx.case(case, nontrivial=True)
                ctx.count("helper:" + name)
                o = out["out"]
                if o[0] == "skip":
                    ctx.notes.append(f"helper {name} skipped: {o[1]}")
                    continue
                ctx.spec_total += 1
                if name in A.BOOL_WRAPPERS:
                    if o != ("ret", False, False):
                        ctx.spec_violation("bool-wrapper-does-not-report-false", case, f"{name} -> {o}")
                    continue
                if o[0] != "err":
                    ctx.spec_violation("helper-error-" + ("returned-normally" if o[0] == "ret" else o[0]), case, f"{name} -> {o}")
                    continue
                reqs.append((case, name, c, o))
        # success and silence for the wrappers and one generic helper run
        for script, want in (([("other-res",), ("same-req",), ("res",)], "ok"), ([("other-res",), ("same-req",)], "timeout")):
            out = A.run_helper(fn, name, script, timeout_ticks=120)
            case = {"helper": name, "script": [list(s) for s in script]}
            ctx.case(case, nontrivial=True)
            o = out["out"]
            if o[0] == "skip":
                continue
            ctx.spec_total += 1
            if name in A.BOOL_WRAPPERS:
                if o != ("ret", want == "ok", False):
                    ctx.spec_violation("bool-wrapper-wrong-report", case, f"{name} -> {o}, wanted {want}")
            elif want == "ok" and (o[0] != "ret" or o[2]):
                ctx.spec_violation("helper-result-" + ("foreign-payload" if o[0] == "ret" else o[0]), case, f"{name} -> {o}")
            elif want == "timeout" and o[0] != "timeout":
                ctx.spec_violation("helper-no-timeout-without-response", case, f"{name} -> {o}")
    res = spec.run([call(2, str(c), A.enc_outcome(("err", o[1], o[2]))) for _case, _n, c, o in reqs])
    for (case, name, c, o), ok in zip(reqs, res):
        if not ok:
            ctx.spec_violation("helper-error-wrong-class-or-code", case, f"{name}: error {c} -> {o}")
    if model:
        outs = [("ret", 1), ("err", True, 5), ("err", False, -32601), ("timeout",), ("cancelled",)]
        m = model.run([call(2, A.enc_outcome(o)) for o in outs])
        s = spec.run([call(4, A.enc_outcome(o), sx(bool(b))) for o, b in zip(outs, m)])
        if not all(s):
            ctx.mismatch({"bool_wrapper": outs}, None, m, "bool_wrapper model violates wrapper_ok")


def explore(ctx, model, spec):
    check_functions(ctx, model, spec)
    check_send_message(ctx, model, spec)
    check_helpers(ctx, model, spec)


def run(ctx):
    lib.standard_obligations(ctx, GEN, TARGETS)
    spec = lib.Driver("AwaitSpec")
    try:
        model = lib.Driver("Await")
        ctx.oblige("build:driver-model(Await)", True)
    except lib.HarnessError as e:
        model = None
        ctx.oblige("build:driver-model(Await)", False, str(e)[-600:])
    if ctx.broken_obligations:
        ctx.escalated = True
    explore(ctx, model, spec)
    if ctx.thorough:
        lib.coqchk(ctx, "C07")
    ctx.rule = ("classifier functions: exhaustive -33100..-31900 and -200..200, neighbours of every named code, 64-bit boundaries, seeded "
                "64-bit values (direct calls, vs model and spec); send_message: one matching error per code (quick: named+-1, boundaries, "
                "seeded; thorough: the full grid) x 7 data shapes x 3 id shapes with distractors before and a result after, also under DEBUG logging, with an error object lacking its message, with request params that are not JSON-native (path, Decimal, set, bytes) and with the error buffered by a peer that has hung up before the caller reads; every typed "
                "send_* helper discovered by introspection x 8 codes x 2 scripts + success + silence; distinct = distinct case dicts")
    return lib.finish(ctx, TRUSTED, ASSUME)


def replay(ctx, data):
    spec = lib.Driver("AwaitSpec")
    case = data["case"]
    if "arrivals" in case:
        sc = A.case_to_scenario(case)
        runs = A.check_scenarios(ctx, [sc], None, spec, {"c01"})
    elif "code" in case and "helper" not in case:
        from chuk_mcp.protocol.types import errors as E
        ok = spec.run([call(3, str(case["code"]), sx(bool(E.is_retryable_error(case["code"]))))])[0]
        if not ok:
            ctx.spec_violation("code-misclassified", case, "")
    for f in ctx.spec_fail:
        print("REPRODUCED", f["class"], f["detail"])
    return 1 if ctx.spec_fail else 0

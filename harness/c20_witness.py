#!/venv/bin/python -I
"""C20 witness child: the program a generated configuration names as `command`.

It is started by the REAL library (anyio.open_process) and records what execve
handed it - argv from /proc/self/cmdline, the environment from
/proc/self/environ (not os.environ: CPython adds LC_CTYPE on its own) - into
`rec.<pid>.json` NEXT TO THE PATH IT WAS STARTED AS (argv[0]; the harness gives
every configured server its own directory holding a symlink to this file), then
speaks just enough MCP over stdio NDJSON for the handshake to complete.
A link whose basename starts with "refuse" answers initialize with an error; one starting with "chatty" first writes
400 KiB of start-up output to stderr.
Nothing here is under test; the harness is the only reader of the records."""
import json
import os
import sys
import time


def main():
    t0 = time.monotonic_ns()
    me = os.fsencode(sys.argv[0])
    here = os.path.dirname(os.path.abspath(me))
    raw = open("/proc/self/cmdline", "rb").read().split(b"\0")
    if raw and raw[-1] == b"":
        raw.pop()
    argv = raw[len(raw) - len(sys.argv):]
    env = open("/proc/self/environ", "rb").read().split(b"\0")
    if env and env[-1] == b"":
        env.pop()
    rec = {"t0": t0, "pid": os.getpid(), "argv": [a.hex() for a in argv], "env": [e.hex() for e in env], "events": []}
    path = os.path.join(here, b"rec.%d.%d.json" % (t0, os.getpid()))

    def flush():
        tmp = path + b".tmp"
        with open(tmp, "w") as f:
            json.dump(rec, f)
        os.replace(tmp, path)

    flush()
    refuse = os.path.basename(me).startswith(b"refuse")
    if os.path.basename(me).startswith(b"chatty"):
        # a talkative server: 400 KiB of start-up output on stderr before it reads its first request
        try:
            for _ in range(100):
                os.write(2, b"[chatty witness] starting up ... " + b"." * 4062 + b"\n")
        except OSError:
            pass
        rec["events"].append("<start-up output written>")
        flush()
    stdin = sys.stdin.buffer
    out = sys.stdout.buffer

    def send(obj):
        out.write((json.dumps(obj) + "\n").encode())
        out.flush()

    while True:
        line = stdin.readline()
        if not line:
            break
        try:
            m = json.loads(line)
        except Exception:
            continue
        if not isinstance(m, dict):
            continue
        meth = m.get("method")
        rec["events"].append(meth)
        flush()
        if "id" not in m:
            continue
        if meth == "initialize":
            if refuse:
                send({"jsonrpc": "2.0", "id": m["id"], "error": {"code": -32603, "message": "witness refuses"}})
            else:
                params = m.get("params") or {}
                send({"jsonrpc": "2.0", "id": m["id"],
                      "result": {"protocolVersion": params.get("protocolVersion", "2025-06-18"), "capabilities": {},
                                 "serverInfo": {"name": "c20-witness", "version": "1"}}})
        else:
            send({"jsonrpc": "2.0", "id": m["id"], "result": {}})


main()

"""Translator plugin for C19: regenerates Gen/SessionsGen.v from InMemorySessionManager.cleanup_expired
(server/session/memory.py) by SYMBOLIC EXECUTION of a small Python subset.

cleanup_expired (and every method of the class it calls, inlined) is executed over symbolic values: the clock value read by
time.time() (exactly ONE read, outside any loop), max_age, integer literals, + and -, comparisons and and/or/not over them, the
fields session.last_activity / session.created_at of the session a scan is looking at, and "the ids of the stored sessions that
satisfy <COND>" - the value of
    [sid for sid, session in self.sessions.items() if <COND>]            or of the accumulator after
    acc = [];  for sid, session in self.sessions.items():  if <COND>: acc.append(sid)
The method must then delete exactly those ids (for sid in <them>: del self.sessions[sid], or .pop(sid)) and return their
number (len).
<COND> becomes `expired_src (now last created max_age : Z) : bool`.  Model/Sessions.v uses THIS function as its expiry test;
Proofs/Sessions.v proves it equal to the specification's `now - last > max_age` (re-proved on every run), so a changed
comparison, a changed operand or a wrapped conversion (int(...), round(...)) breaks an obligation, while extracting the test or
the scan into helper methods, renaming variables or writing the scan as a loop gives the same function.  Anything outside the
subset raises TranslateError (fail-closed, the Gen file is removed).
"""
from __future__ import annotations

import ast

import translate as T

PATH = "server/session/memory.py"
CMP = {ast.Lt: "<?", ast.LtE: "<=?", ast.Gt: ">?", ast.GtE: ">=?"}
SELF, SESSIONS, ITEMS, SID, SESSION, TIME = ("self",), ("sessions",), ("items",), ("sid",), ("session",), ("time",)
MAX_DEPTH = 5


def is_num(v):
    return v[0] == "num"


class Sym:
    def __init__(self, cls):
        self.methods = {n.name: n for n in cls.body if isinstance(n, (ast.FunctionDef, ast.AsyncFunctionDef))}
        self.cls = cls
        self.clock_reads = 0
        self.deleted = None          # condition text of the ids deleted
        self.in_scan = False

    # ------------------------------------------------------------------ expressions
    def ev(self, n, env, depth):
        if isinstance(n, ast.Constant):
            if isinstance(n.value, int) and not isinstance(n.value, bool):
                return ("num", T.zlit(n.value))
            raise T.TranslateError("cleanup_expired: unsupported constant", n)
        if isinstance(n, ast.Name):
            if n.id in env:
                return env[n.id]
            if n.id == "time":
                return TIME
            raise T.TranslateError(f"cleanup_expired: unknown name {n.id}", n)
        if isinstance(n, ast.Attribute):
            b = self.ev(n.value, env, depth)
            if b == SELF and n.attr == "sessions":
                return SESSIONS
            if b == SESSION and n.attr in ("last_activity", "created_at"):
                return ("num", "last" if n.attr == "last_activity" else "created")
            if b == SELF and n.attr in self.methods:
                return ("method", n.attr, True)
            if b == ("class",) and n.attr in self.methods:
                return ("method", n.attr, False)
            if b == TIME and n.attr == "time":
                return ("clock",)
            raise T.TranslateError(f"cleanup_expired: unsupported attribute .{n.attr}", n)
        if isinstance(n, ast.BinOp) and isinstance(n.op, (ast.Add, ast.Sub)):
            a, b = self.ev(n.left, env, depth), self.ev(n.right, env, depth)
            if is_num(a) and is_num(b):
                return ("num", f"({a[1]} {'+' if isinstance(n.op, ast.Add) else '-'} {b[1]})")
            raise T.TranslateError("cleanup_expired: arithmetic on something that is not a number", n)
        if isinstance(n, ast.BoolOp):
            vs = [self.ev(v, env, depth) for v in n.values]
            if all(v[0] == "bool" for v in vs):
                return ("bool", "(" + (" && " if isinstance(n.op, ast.And) else " || ").join(v[1] for v in vs) + ")")
            raise T.TranslateError("cleanup_expired: and/or over something that is not a comparison", n)
        if isinstance(n, ast.UnaryOp) and isinstance(n.op, ast.Not):
            v = self.ev(n.operand, env, depth)
            if v[0] == "bool":
                return ("bool", f"(negb {v[1]})")
            raise T.TranslateError("cleanup_expired: `not` of something that is not a comparison", n)
        if isinstance(n, ast.Compare) and len(n.ops) == 1:
            a, b = self.ev(n.left, env, depth), self.ev(n.comparators[0], env, depth)
            op = n.ops[0]
            if is_num(a) and is_num(b):
                if type(op) in CMP:
                    return ("bool", f"({a[1]} {CMP[type(op)]} {b[1]})")
                if isinstance(op, ast.Eq):
                    return ("bool", f"({a[1]} =? {b[1]})")
                if isinstance(op, ast.NotEq):
                    return ("bool", f"(negb ({a[1]} =? {b[1]}))")
            raise T.TranslateError("cleanup_expired: unsupported comparison", n)
        if isinstance(n, ast.List) and not n.elts:
            return ("acc",)
        if isinstance(n, ast.ListComp):
            return self.comprehension(n, env, depth)
        if isinstance(n, ast.Call):
            return self.call(n, env, depth)
        raise T.TranslateError(f"cleanup_expired: unsupported expression {type(n).__name__}", n)

    def comprehension(self, n, env, depth):
        if len(n.generators) != 1 or n.generators[0].is_async or len(n.generators[0].ifs) != 1:
            raise T.TranslateError("cleanup_expired: unexpected comprehension", n)
        g = n.generators[0]
        inner = self.bind_scan(g.target, g.iter, env, depth, n)
        was, self.in_scan = self.in_scan, True
        cond = self.ev(g.ifs[0], inner, depth)
        elt = self.ev(n.elt, inner, depth)
        self.in_scan = was
        if cond[0] != "bool" or elt != SID:
            raise T.TranslateError("cleanup_expired: the comprehension does not collect the ids that satisfy a comparison", n)
        return ("ids", cond[1])

    def bind_scan(self, target, it, env, depth, node):
        if self.in_scan:
            raise T.TranslateError("cleanup_expired: nested scan", node)
        if self.ev(it, env, depth) != ITEMS:
            raise T.TranslateError("cleanup_expired: the scan is not over self.sessions.items()", node)
        if not (isinstance(target, ast.Tuple) and len(target.elts) == 2 and all(isinstance(e, ast.Name) for e in target.elts)):
            raise T.TranslateError("cleanup_expired: the scan does not unpack (id, session)", node)
        inner = dict(env)
        inner[target.elts[0].id] = SID
        inner[target.elts[1].id] = SESSION
        return inner

    def call(self, n, env, depth):
        if any(isinstance(a, ast.Starred) for a in n.args) or any(k.arg is None for k in n.keywords):
            raise T.TranslateError("cleanup_expired: star-arguments", n)
        if isinstance(n.func, ast.Attribute) and n.func.attr == "items" and not n.args and not n.keywords \
                and self.ev(n.func.value, env, depth) == SESSIONS:
            return ITEMS
        f = self.ev(n.func, env, depth) if not (isinstance(n.func, ast.Name) and n.func.id in ("len",)) else ("len",)
        if f == ("clock",):
            if n.args or n.keywords:
                raise T.TranslateError("cleanup_expired: time.time() with arguments", n)
            if self.in_scan:
                raise T.TranslateError("cleanup_expired: the clock is read inside the scan (once per session)", n)
            self.clock_reads += 1
            return ("num", "now")
        if f == ("len",) and len(n.args) == 1 and not n.keywords:
            v = self.ev(n.args[0], env, depth)
            if v[0] == "ids":
                return ("count", v[1])
            raise T.TranslateError("cleanup_expired: len() of something that is not the collected ids", n)
        if f[0] == "method":
            fn = self.methods[f[1]]
            if depth >= MAX_DEPTH:
                raise T.TranslateError("cleanup_expired: helper calls nested too deeply", n)
            static = any(isinstance(d, ast.Name) and d.id == "staticmethod" for d in fn.decorator_list)
            if [d for d in fn.decorator_list if not (isinstance(d, ast.Name) and d.id == "staticmethod")] or fn.args.vararg \
                    or fn.args.kwarg or fn.args.posonlyargs or isinstance(fn, ast.AsyncFunctionDef):
                raise T.TranslateError(f"helper {fn.name}: outside the subset", fn)
            names = [a.arg for a in fn.args.args]
            sub = {}
            if not static:
                sub[names[0]] = SELF
                names = names[1:]
            args = [self.ev(a, env, depth) for a in n.args]
            kws = {k.arg: self.ev(k.value, env, depth) for k in n.keywords}
            defaults = fn.args.defaults
            for i, nm in enumerate(names):
                if i < len(args):
                    sub[nm] = args[i]
                elif nm in kws:
                    sub[nm] = kws[nm]
                else:
                    j = i - (len(names) - len(defaults))
                    if j < 0:
                        raise T.TranslateError(f"helper {fn.name}: missing argument {nm}", n)
                    sub[nm] = self.ev(defaults[j], {}, depth + 1)
            r = self.block(fn.body, sub, depth + 1)
            if r is None:
                raise T.TranslateError(f"helper {fn.name}: does not return a value the translator can follow", fn)
            return r
        raise T.TranslateError("cleanup_expired: call of code the translator cannot follow", n)

    # ------------------------------------------------------------------ statements
    def block(self, stmts, env, depth):
        """Straight-line execution; returns the returned value or None."""
        env = dict(env)
        for st in stmts:
            if T.is_docstring(st) or isinstance(st, ast.Pass) or T.is_log_call(st):
                continue
            if isinstance(st, ast.AnnAssign):
                if st.value is None:
                    continue
                st = ast.Assign(targets=[st.target], value=st.value, lineno=st.lineno)
            if isinstance(st, ast.Assign):
                if len(st.targets) != 1 or not isinstance(st.targets[0], ast.Name):
                    raise T.TranslateError("cleanup_expired: assignment to something that is not a plain name", st)
                env[st.targets[0].id] = self.ev(st.value, env, depth)
                continue
            if isinstance(st, ast.Return):
                return self.ev(st.value, env, depth) if st.value is not None else None
            if isinstance(st, ast.For) and not st.orelse:
                if isinstance(st.target, ast.Tuple):
                    # the scan written as a loop: for sid, session in self.sessions.items(): if COND: acc.append(sid)
                    inner = self.bind_scan(st.target, st.iter, env, depth, st)
                    body = [b for b in st.body if not (T.is_docstring(b) or isinstance(b, ast.Pass) or T.is_log_call(b))]
                    if len(body) != 1 or not isinstance(body[0], ast.If) or body[0].orelse:
                        raise T.TranslateError("cleanup_expired: the scan loop is not a single `if <COND>: acc.append(id)`", st)
                    was, self.in_scan = self.in_scan, True
                    cond = self.ev(body[0].test, inner, depth)
                    self.in_scan = was
                    ib = [b for b in body[0].body if not (T.is_docstring(b) or isinstance(b, ast.Pass) or T.is_log_call(b))]
                    ok = (len(ib) == 1 and isinstance(ib[0], ast.Expr) and isinstance(ib[0].value, ast.Call)
                          and isinstance(ib[0].value.func, ast.Attribute) and ib[0].value.func.attr == "append"
                          and isinstance(ib[0].value.func.value, ast.Name) and len(ib[0].value.args) == 1
                          and not ib[0].value.keywords and self.ev(ib[0].value.args[0], inner, depth) == SID)
                    if not ok or cond[0] != "bool":
                        raise T.TranslateError("cleanup_expired: the scan loop does not append the id under a comparison", st)
                    acc = ib[0].value.func.value.id
                    if env.get(acc) != ("acc",):
                        raise T.TranslateError("cleanup_expired: the scan loop appends to something that is not a fresh empty list", st)
                    env[acc] = ("ids", cond[1])
                    continue
                # the deletion: for sid in <ids>: del self.sessions[sid]
                src = self.ev(st.iter, env, depth)
                want = ast.dump(ast.parse("del self.sessions[X]").body[0]).replace("'X'", repr(st.target.id) if isinstance(st.target, ast.Name) else "?")
                body = [b for b in st.body if not (T.is_docstring(b) or isinstance(b, ast.Pass) or T.is_log_call(b))]
                is_pop = False
                if len(body) == 1 and isinstance(body[0], ast.Expr) and isinstance(body[0].value, ast.Call) \
                        and isinstance(st.target, ast.Name):
                    c = body[0].value
                    is_pop = (isinstance(c.func, ast.Attribute) and c.func.attr == "pop" and not c.keywords
                              and len(c.args) in (1, 2) and isinstance(c.args[0], ast.Name) and c.args[0].id == st.target.id
                              and self.ev(c.func.value, env, depth) == SESSIONS
                              and (len(c.args) == 1 or isinstance(c.args[1], ast.Constant)))
                if src[0] != "ids" or len(body) != 1 or not (ast.dump(body[0]) == want or is_pop) or env.get("self") != SELF:
                    raise T.TranslateError("cleanup_expired: deletion loop is not `for id in <collected ids>: del self.sessions[id]`", st)
                if self.deleted is not None:
                    raise T.TranslateError("cleanup_expired: two deletion loops", st)
                self.deleted = src[1]
                continue
            raise T.TranslateError(f"cleanup_expired: unsupported statement {type(st).__name__}", st)
        return None


def gen_sessions() -> str:
    tree = T.read(PATH)
    classes = [n for n in tree.body if isinstance(n, ast.ClassDef) and n.name == "InMemorySessionManager"]
    if len(classes) != 1:
        raise T.TranslateError("expected exactly one class InMemorySessionManager")
    fns = [n for n in classes[0].body if isinstance(n, ast.FunctionDef) and n.name == "cleanup_expired"]
    if len(fns) != 1:
        raise T.TranslateError("expected exactly one def cleanup_expired", classes[0])
    fn = fns[0]
    if [a.arg for a in fn.args.args] != ["self", "max_age"] or fn.decorator_list:
        raise T.TranslateError("cleanup_expired: unexpected signature", fn)
    sym = Sym(classes[0])
    env = {"self": SELF, "max_age": ("num", "max_age"), classes[0].name: ("class",)}
    ret = sym.block(fn.body, env, 0)
    if sym.deleted is None:
        raise T.TranslateError("cleanup_expired: nothing is deleted", fn)
    if ret is None or ret[0] != "count" or ret[1] != sym.deleted:
        raise T.TranslateError("cleanup_expired: the value returned is not the number of the ids that were deleted", fn)
    if sym.clock_reads != 1 and " now" in (" " + sym.deleted.replace("(", " ").replace(")", " ")):
        raise T.TranslateError(f"cleanup_expired: the clock is read {sym.clock_reads} times", fn)
    return ("(* GENERATED by harness/translate_c19.py from src/chuk_mcp/" + PATH + " (cleanup_expired) -- do not edit *)\n"
            "From Coq Require Import ZArith Bool.\nOpen Scope Z_scope.\n\n"
            "(** the test deciding which sessions cleanup_expired removes *)\n"
            f"Definition expired_src (now last created max_age : Z) : bool :=\n  {sym.deleted}.\n")


GEN_FILES = {"SessionsGen.v": gen_sessions}

"""Common machinery for the per-property checks (DESIGN.md section 2).

A check is:  translate -> build (.vo, full) -> re-run Props/<id>.v for
Print Assumptions -> extract + build the OCaml driver -> correspondence and
spec oracle on generated cases -> verdict -> evidence.
"""
from __future__ import annotations

import hashlib
import json
import os
import random
import re
import subprocess
import sys
import time

VERIF = os.path.abspath(os.path.join(os.path.dirname(os.path.abspath(__file__)), ".."))
REPO = os.environ.get("VERIF_REPO", "/repo")
# A tree other than /repo (mutation trials: VERIF_REPO=<scratch worktree>) gets a PRIVATE work root (its own copy of
# coq/ and ocaml/, its own evidence/ and replays/), prepared by ./check, so that its regenerated Gen/*.v, its
# rebuilt .vo files and its evidence never mix with those of /repo or of another scratch tree checked concurrently.
WORK = os.environ.get("VERIF_WORK") or VERIF
COQ = os.path.join(WORK, "coq")
THEORIES = os.path.join(COQ, "theories")
OCAML = os.path.join(WORK, "ocaml")
EVIDENCE = os.path.join(WORK, "evidence")
REPLAYS = os.path.join(WORK, "replays")
CORPUS = os.path.join(VERIF, "corpus")
PY = "/venv/bin/python"

sys.path.insert(0, os.path.dirname(os.path.abspath(__file__)))
import translate  # noqa: E402

ALLOWED_AXIOMS: set = set()   # target: every property theorem is closed under the global context

FORBIDDEN = re.compile(
    r"\b(Admitted|admit|Axiom|Axioms|Parameter|Parameters|Conjecture|Conjectures|"
    r"Admit Obligations|bypass_check|native_compute)\b|Unset\s+Guard|Unset\s+Positivity|Unset\s+Universe|type-in-type|impredicative-set")
SECTION_OPEN = re.compile(r"^\s*Section\s+[A-Za-z0-9_']+\s*\.")
SECTION_CLOSE = re.compile(r"^\s*End\s+[A-Za-z0-9_']+\s*\.")
SECTION_ONLY = re.compile(r"^\s*(Variable|Variables|Hypothesis|Hypotheses|Context)\b")


# --------------------------------------------------------------------------- #
# S-expressions
# --------------------------------------------------------------------------- #
def sx(v) -> str:
    """Encode a python value: bool/int -> atom, str -> list of code points,
    bytes -> list of bytes, list/tuple -> list.  None -> ()."""
    if v is None:
        return "()"
    if isinstance(v, bool):
        return "1" if v else "0"
    if isinstance(v, int):
        return str(v)
    if isinstance(v, str):
        return "(" + " ".join(str(ord(c)) for c in v) + ")"
    if isinstance(v, (bytes, bytearray)):
        return "(" + " ".join(str(b) for b in v) + ")"
    if isinstance(v, (list, tuple)):
        return "(" + " ".join(sx(x) for x in v) + ")"
    raise TypeError(f"cannot encode {type(v)}")


class Opt:
    """Explicit option wrapper: Opt(None) -> (), Opt(x) -> (x)."""
    def __init__(self, v):
        self.v = v


def sxo(v) -> str:
    return "()" if v is None else "(" + sx(v) + ")"


def call(tag: int, *args: str) -> str:
    """Build a request line from a tag and already-encoded arguments."""
    return "(" + " ".join([str(tag), *args]) + ")"


def parse_sx(s: str):
    s = s.strip()
    pos = 0
    n = len(s)

    def item():
        nonlocal pos
        while pos < n and s[pos] == " ":
            pos += 1
        if s[pos] == "(":
            pos += 1
            out = []
            while True:
                while pos < n and s[pos] == " ":
                    pos += 1
                if s[pos] == ")":
                    pos += 1
                    return out
                out.append(item())
        j = pos
        if s[j] == "-":
            j += 1
        while j < n and s[j].isdigit():
            j += 1
        v = int(s[pos:j])
        pos = j
        return v

    r = item()
    return r


def as_str(x) -> str:
    return "".join(chr(c) for c in x)


def as_opt(x):
    return None if x == [] else x[0]


# --------------------------------------------------------------------------- #
# Build
# --------------------------------------------------------------------------- #
class HarnessError(Exception):
    pass


def sh(cmd, timeout=900, cwd=None, env=None, input=None):
    p = subprocess.run(cmd, shell=isinstance(cmd, str), cwd=cwd, env=env, input=input,
                       stdout=subprocess.PIPE, stderr=subprocess.STDOUT, text=True, timeout=timeout)
    return p.returncode, p.stdout


def vo_of(rel):  # "Props/C13" -> path of its .vo
    return os.path.join(THEORIES, rel + ".vo")


def make(targets, timeout=900):
    """Build the given theories (paths relative to theories/, without suffix)."""
    args = " ".join(f"theories/{t}.vo" for t in targets)
    rc, out = sh(f"./mk.sh {args}", cwd=COQ, timeout=timeout + 60,
                 env={**os.environ, "VERIF_MAKE_TIMEOUT": str(timeout)})
    missing = []
    for t in targets:
        # up to date w.r.t. the whole dependency chain?  (a failed rebuild leaves a stale .vo behind)
        qrc, _ = sh(f"flock .lock make -q theories/{t}.vo", cwd=COQ, timeout=120)
        if qrc != 0 or not os.path.exists(vo_of(t)):
            missing.append(t)
            try:
                os.remove(vo_of(t))
            except FileNotFoundError:
                pass
    return rc == 0 and not missing, out, missing


def coqc_props(pid, timeout=300):
    """Re-run coqc on Props/<pid>.v to capture Print Assumptions.  Returns
    (ok, [(theorem, 'closed' | [axioms])], raw output)."""
    path = os.path.join(THEORIES, "Props", f"{pid}.v")
    src = open(path, encoding="utf-8").read()
    theorems = re.findall(r"^\s*Theorem\s+([A-Za-z0-9_']+)", src, flags=re.M)
    printed = re.findall(r"^\s*Print Assumptions\s+([A-Za-z0-9_']+)\s*\.", src, flags=re.M)
    lock = os.path.join(COQ, ".lock")
    rc, out = sh(f"flock {lock} timeout {timeout} coqc -q -Q theories Verif -w -notation-overridden "
                 f"theories/Props/{pid}.v", cwd=COQ, timeout=timeout + 30)
    results = []
    if rc != 0:
        return False, [(t, ["<does not compile>"]) for t in theorems], out
    # Split output into one block per Print Assumptions, in order.
    blocks = re.split(r"(?m)^(?=Closed under the global context|Axioms:)", out)
    blocks = [b for b in blocks if b.startswith("Closed under") or b.startswith("Axioms:")]
    if len(blocks) != len(printed):
        return False, [(t, ["<Print Assumptions output not understood>"]) for t in theorems], out
    status = {}
    for name, b in zip(printed, blocks):
        if b.startswith("Closed under"):
            status[name] = "closed"
        else:
            axs = re.findall(r"(?m)^([A-Za-z0-9_.']+)\s*:", b[len("Axioms:"):])
            status[name] = axs or ["<unparsed>"]
    for t in theorems:
        results.append((t, status.get(t, ["<no Print Assumptions beneath theorem>"])))
    return True, results, out


def grep_forbidden():
    """Forbidden constructs anywhere in the development (comments are stripped first)."""
    hits = []
    for root, _d, files in os.walk(THEORIES):
        for f in files:
            if not f.endswith(".v"):
                continue
            p = os.path.join(root, f)
            txt = open(p, encoding="utf-8").read()
            txt = strip_coq_comments(txt)
            for m in FORBIDDEN.finditer(txt):
                line = txt.count("\n", 0, m.start()) + 1
                hits.append(f"{os.path.relpath(p, VERIF)}:{line}: {m.group(0)}")
            depth = 0
            for i, ln in enumerate(txt.split("\n"), 1):
                if SECTION_OPEN.match(ln):
                    depth += 1
                elif SECTION_CLOSE.match(ln):
                    depth = max(0, depth - 1)
                elif depth == 0 and SECTION_ONLY.match(ln):
                    hits.append(f"{os.path.relpath(p, VERIF)}:{i}: {ln.strip()[:40]} outside a section")
    return hits


def strip_coq_comments(txt: str) -> str:
    out = []
    depth = 0
    i = 0
    n = len(txt)
    while i < n:
        if txt.startswith("(*", i):
            depth += 1
            i += 2
        elif txt.startswith("*)", i) and depth > 0:
            depth -= 1
            i += 2
        else:
            if depth == 0:
                out.append(txt[i])
            elif txt[i] == "\n":
                out.append("\n")
            i += 1
    return "".join(out)


EXTRACT_TEMPLATE = """(* GENERATED by harness/lib.py -- extraction of Drv/{name}.v (ExtrOcamlBasic only) *)
From Coq Require Extraction.
From Coq Require Import ExtrOcamlBasic.
From Coq Require Import ZArith.
From Verif.Base Require Import Sexp.
From Verif.Drv Require {name}.
Definition dispatch := Verif.Drv.{name}.dispatch.
Definition z_of_int := Z.of_int.
Definition z_to_int := Z.to_int.
Extraction "../ocaml/build/{name}/model.ml" dispatch z_of_int z_to_int.
"""


def ensure_extract_file(name):
    os.makedirs(os.path.join(THEORIES, "Extract"), exist_ok=True)
    os.makedirs(os.path.join(OCAML, "build", name), exist_ok=True)
    translate.write_if_changed(os.path.join(THEORIES, "Extract", f"{name}.v"), EXTRACT_TEMPLATE.format(name=name))


def ensure_all_extract_files():
    for f in sorted(os.listdir(os.path.join(THEORIES, "Drv"))):
        if f.endswith(".v"):
            ensure_extract_file(f[:-2])


def build_driver(pid):
    """Extract Drv/<pid>.v and compile the OCaml driver.  Returns path or raises."""
    bdir = os.path.join(OCAML, "build", pid)
    os.makedirs(bdir, exist_ok=True)
    ensure_extract_file(pid)
    ok, out, _ = make([f"Extract/{pid}"])
    ml = os.path.join(bdir, "model.ml")
    if not ok or not os.path.exists(ml):
        raise HarnessError(f"extraction for {pid} failed:\n{out[-2000:]}")
    exe = os.path.join(bdir, "driver")
    stamp = os.path.join(bdir, ".stamp")
    h = hashlib.sha256()
    for f in (ml, os.path.join(bdir, "model.mli"), os.path.join(OCAML, "main.ml")):
        h.update(open(f, "rb").read())
    digest = h.hexdigest()
    if os.path.exists(exe) and os.path.exists(stamp) and open(stamp).read() == digest:
        return exe
    lock = os.path.join(bdir, ".lock")
    rc, out = sh(f"flock {lock} sh -c 'cp {OCAML}/main.ml {bdir}/main.ml && cd {bdir} && "
                 f"ocamlfind ocamlopt -w -a model.mli model.ml main.ml -o driver'", timeout=300)
    if rc != 0:
        raise HarnessError(f"ocaml build for {pid} failed:\n{out[-2000:]}")
    open(stamp, "w").write(digest)
    return exe


class Driver:
    def __init__(self, pid):
        self.exe = build_driver(pid)
        self.calls = 0

    def run(self, requests):
        """requests: list of request lines.  Returns the list of parsed results."""
        if not requests:
            return []
        p = subprocess.run(["sh", "-c", f"ulimit -s unlimited 2>/dev/null; exec {self.exe}"],
                           input="\n".join(requests) + "\n",
                           stdout=subprocess.PIPE, stderr=subprocess.PIPE, text=True, timeout=1800)
        lines = p.stdout.split("\n")
        if lines and lines[-1] == "":
            lines.pop()
        if p.returncode != 0 or len(lines) != len(requests):
            raise HarnessError(f"driver failed rc={p.returncode} got {len(lines)} of {len(requests)} results: "
                               f"{p.stderr[-500:]}")
        out = []
        for req, ln in zip(requests, lines):
            if ln.startswith("!ERR"):
                raise HarnessError(f"driver rejected request {req[:200]}: {ln}")
            out.append(parse_sx(ln))
        self.calls += len(requests)
        return out


# --------------------------------------------------------------------------- #
# Known findings
# --------------------------------------------------------------------------- #
def load_findings(pid):
    p = os.path.join(VERIF, "known_findings.json")
    try:
        data = json.load(open(p, encoding="utf-8"))
    except FileNotFoundError:
        return {}
    out = {}
    for e in data.get("findings", []):
        if e.get("property") == pid and e.get("status") == "known":
            out[e["class"]] = e
    return out


# --------------------------------------------------------------------------- #
# Check context
# --------------------------------------------------------------------------- #
class Ctx:
    def __init__(self, pid, tier, seed, replay=None):
        self.pid = pid
        self.tier = tier
        self.seed = seed
        self.rng = random.Random(seed)
        self.replay = replay
        self.t0 = time.time()
        self.obligations = []        # (name, ok, detail)
        self.corr_total = 0
        self.corr_mismatch = []      # (case, impl, model, what)
        self.spec_total = 0
        self.spec_fail = []          # (klass, case, detail)
        self.distinct = set()
        self.samples = []
        self.hist = {}
        self.notes = []
        self.exhaustive = None
        self.rule = ""
        self.checker_cmd = ""
        self.trusted = []
        self.assumptions = []
        self.extra = {}
        self.escalated = bool(os.environ.get("VERIF_FORCE_ESCALATE"))     # (testing aid: how long does an escalated quick run take)
        if replay is None and os.path.isdir(REPLAYS):
            for f in os.listdir(REPLAYS):
                if f.startswith(pid + "-"):
                    os.remove(os.path.join(REPLAYS, f))

    @property
    def thorough(self):
        return self.tier == "thorough"

    def budget(self, quick, thorough):
        """quick / thorough sample sizes.  An ESCALATED quick run (an obligation is broken or the correspondence disagrees, so the
        search for a failing input is widened) takes four times the quick size, not the thorough one: the quick tier has to stay a
        matter of minutes on a tree that breaks a tie as well."""
        if self.thorough:
            return thorough
        if self.escalated and isinstance(quick, int) and not isinstance(quick, bool) and isinstance(thorough, int):
            return min(thorough, quick * 4) if thorough >= quick else thorough
        return thorough if self.escalated else quick

    # -- recording ----------------------------------------------------------
    def oblige(self, name, ok, detail=""):
        self.obligations.append((name, bool(ok), detail))

    def count(self, key, n=1):
        self.hist[key] = self.hist.get(key, 0) + n

    def case(self, case, nontrivial=True):
        """Register one explored case (for evidence counts)."""
        self.corr_total += 1
        if nontrivial:
            k = hashlib.blake2b(json.dumps(case, sort_keys=True, default=str).encode(), digest_size=8).digest()
            self.distinct.add(k)
        if len(self.samples) < 6 and (self.corr_total in (1, 2, 3) or self.rng.random() < 0.001):
            self.samples.append(case)

    def mismatch(self, case, impl, model, what="model != implementation"):
        self.corr_mismatch.append({"case": case, "implementation": impl, "model": model, "what": what})

    def spec_violation(self, klass, case, detail=""):
        self.spec_fail.append({"class": klass, "case": case, "detail": detail})

    @property
    def broken_obligations(self):
        return [o for o in self.obligations if not o[1]]


def standard_obligations(ctx: Ctx, gen_files, targets):
    """Steps 1-2 of a check: translate, build, Print Assumptions, forbidden-construct gate.
    `targets`: theories (relative, no suffix) the property's proof depends on,
    including Props/<pid>."""
    pid = ctx.pid
    st = translate.run(set(gen_files) if gen_files else set())
    for g in gen_files:
        ctx.oblige(f"translate:{g}", st.get(g) is None, st.get(g) or "")
    ok, out, missing = make(targets)
    tail = "\n".join(out.strip().split("\n")[-25:])
    for t in targets:
        if t.startswith("Props/"):
            continue
        ctx.oblige(f"build:{t}", t not in missing, tail if t in missing else "")
    if os.path.exists(os.path.join(THEORIES, "Props", f"{pid}.v")):
        pok, results, pout = coqc_props(pid)
        if not results:
            ctx.oblige(f"theorems:{pid}", False, "no Theorem found in Props file")
        for name, status in results:
            if status == "closed":
                ctx.oblige(f"theorem:{name}", True, "Closed under the global context")
            else:
                bad = [a for a in status if a not in ALLOWED_AXIOMS]
                ctx.oblige(f"theorem:{name}", not bad,
                           ("axioms: " + ", ".join(status)) if pok else "\n".join(pout.strip().split("\n")[-25:]))
    hits = grep_forbidden()
    ctx.oblige("gate:no-Admitted/Axiom/Parameter/guard-switches", not hits, "; ".join(hits[:10]))
    ctx.checker_cmd = (f"cd /verif/coq && ./mk.sh {' '.join('theories/'+t+'.vo' for t in targets)} "
                       f"&& coqc -Q theories Verif theories/Props/{pid}.v  (Print Assumptions under every Theorem)")


def coqchk(ctx: Ctx, pid):
    """Thorough tier: independent re-check of the property's .vo with coqchk -o."""
    rc, out = sh(f"timeout 1500 coqchk -silent -o -Q theories Verif Verif.Props.{pid}", cwd=COQ, timeout=1600)
    axioms = []
    m = re.search(r"\* Axioms:\s*(.*?)(?:\n\* |\Z)", out, flags=re.S)
    if m:
        axioms = [a.strip() for a in m.group(1).strip().split("\n") if a.strip() and a.strip() != "<none>"]
    ctx.oblige(f"coqchk:Verif.Props.{pid}", rc == 0, out[-1500:] if rc != 0 else "")
    ctx.extra["coqchk_axioms"] = axioms
    return rc == 0


# --------------------------------------------------------------------------- #
# Verdict + evidence
# --------------------------------------------------------------------------- #
def write_replay(pid, name, payload):
    os.makedirs(REPLAYS, exist_ok=True)
    path = os.path.join(REPLAYS, f"{pid}-{name}.json")
    with open(path, "w", encoding="utf-8") as f:
        json.dump(payload, f, indent=1, default=str, ensure_ascii=True)
    return path


def finish(ctx: Ctx, level_text_trusted, assumptions):
    """Print verdict lines, write evidence, return exit code."""
    pid = ctx.pid
    known = load_findings(pid)
    lines = []
    violations = 0
    reported_known = {}
    unknown = []
    for f in ctx.spec_fail:
        if f["class"] in known:
            reported_known.setdefault(f["class"], f)
        else:
            unknown.append(f)
    for klass, f in sorted(reported_known.items()):
        lines.append(f"KNOWN-FINDING: property={pid} {klass}: {known[klass].get('what', '')}")
    seen_classes = set()
    for f in unknown:
        if f["class"] in seen_classes:
            continue
        seen_classes.add(f["class"])
        path = write_replay(pid, re.sub(r"[^A-Za-z0-9_.-]+", "_", f["class"])[:60], {
            "property": pid, "kind": "failing-input", "class": f["class"], "case": f["case"],
            "detail": f["detail"], "seed": ctx.seed, "tier": ctx.tier,
            "replay": f"./check {pid} --replay <this file>"})
        lines.append(f"VIOLATION property={pid} replay={path}")
        violations += 1
    broken = ctx.broken_obligations
    if not unknown and (broken or ctx.corr_mismatch):
        payload = {"property": pid, "kind": "broken-obligation-or-correspondence",
                   "broken_obligations": [{"name": n, "detail": d} for n, _ok, d in broken],
                   "correspondence_disagreements": ctx.corr_mismatch[:5],
                   "seed": ctx.seed, "tier": ctx.tier,
                   "note": "the failing-input search over the implementation found no input on which the property's "
                           "specification fails; the property is nevertheless no longer shown to hold"}
        path = write_replay(pid, "unproved", payload)
        lines.append(f"VIOLATION property={pid} replay={path} no-failing-input-found")
        violations += 1
    n_obl = len(ctx.obligations)
    n_ok = sum(1 for o in ctx.obligations if o[1])
    coverage = {
        "obligations": n_obl,
        "discharged": n_ok,
        "checker_cmd": ctx.checker_cmd or "n/a",
        "trusted_base": level_text_trusted,
        "obligation_list": [{"name": n, "ok": ok, **({"detail": d[:300]} if (d and not ok) else {})}
                            for n, ok, d in ctx.obligations],
        "evaluations": ctx.corr_total,
        "distinct_nontrivial": len(ctx.distinct),
        "rule": ctx.rule,
        "samples": ctx.samples[:6] or ["<none>"],
        "traces_validated_against_impl": ctx.corr_total,
        "correspondence_disagreements": len(ctx.corr_mismatch),
        "spec_checks_on_implementation": ctx.spec_total,
        "spec_failures": len(ctx.spec_fail),
        "known_findings_reported": sorted(reported_known),
        "input_distribution": ctx.hist,
        "escalated_budget": ctx.escalated,
    }
    if ctx.exhaustive is not None:
        coverage["exhaustive"] = ctx.exhaustive
    coverage.update(ctx.extra)
    ev = {
        "property_id": pid, "tier": ctx.tier, "seed": ctx.seed, "level": "proof",
        "coverage": coverage, "assumptions": assumptions + ctx.notes,
        "wall_s": round(time.time() - ctx.t0, 2), "violations": violations,
    }
    os.makedirs(EVIDENCE, exist_ok=True)
    tmp = os.path.join(EVIDENCE, f".{pid}.json.tmp")
    with open(tmp, "w", encoding="utf-8") as f:
        json.dump(ev, f, indent=1, default=str)
    os.replace(tmp, os.path.join(EVIDENCE, f"{pid}.json"))
    for ln in lines:
        print(ln)
    print(f"[{pid}] tier={ctx.tier} seed={ctx.seed} obligations={n_ok}/{n_obl} cases={ctx.corr_total} "
          f"distinct={len(ctx.distinct)} disagreements={len(ctx.corr_mismatch)} spec_failures={len(ctx.spec_fail)} "
          f"known={len(reported_known)} wall={ev['wall_s']}s")
    for n, ok, d in ctx.obligations:
        if not ok:
            print(f"[{pid}] BROKEN obligation {n}: {d[:400]}")
    for m in ctx.corr_mismatch[:3]:
        print(f"[{pid}] DISAGREEMENT {json.dumps(m, default=str)[:600]}")
    return 1 if violations else 0

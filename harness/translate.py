#!/usr/bin/env python3
"""Fail-closed Python-AST -> Gallina translator (DESIGN.md section 3.1, Appendix A).

Regenerates coq/theories/Gen/*.v from /repo's working tree on every run.  Only a
deliberately small subset of Python is understood; anything else raises
TranslateError and the corresponding Gen file is NOT written (the previous copy
is removed), so every obligation that depends on it is reported as broken.
"""
from __future__ import annotations

import ast
import os
import sys

REPO = os.environ.get("VERIF_REPO", "/repo")
SRC = os.path.join(REPO, "src", "chuk_mcp")
GEN = os.path.join(os.environ.get("VERIF_WORK") or os.path.join(os.path.dirname(os.path.abspath(__file__)), ".."), "coq", "theories", "Gen")


class TranslateError(Exception):
    def __init__(self, msg, node=None):
        line = getattr(node, "lineno", "?")
        super().__init__(f"{msg} (line {line})")


# --------------------------------------------------------------------------- #
# Gallina literal helpers
# --------------------------------------------------------------------------- #
def zlit(n: int) -> str:
    return f"({n})" if n < 0 else f"{n}"


def strlit(s: str) -> str:
    return "[" + "; ".join(zlit(ord(c)) for c in s) + "]"


def coq_ident(name: str) -> str:
    if not name.isidentifier():
        raise TranslateError(f"bad identifier {name!r}")
    return name


# --------------------------------------------------------------------------- #
# Constant evaluation of closed module-level expressions
# --------------------------------------------------------------------------- #
class ConstEnv:
    """Module-level constants: name -> python value (int | str | tuple of those),
    plus, for collections, the list of *names* they were written with."""

    def __init__(self):
        self.values = {}
        self.kinds = {}        # name -> 'int' | 'str' | 'intset' | 'strlist' | 'intkeys'
        self.members = {}      # name -> list of member source names (or None)

    def eval(self, node):
        if isinstance(node, ast.Constant):
            if isinstance(node.value, bool) or not isinstance(node.value, (int, str)):
                raise TranslateError("unsupported constant", node)
            return node.value
        if isinstance(node, ast.UnaryOp) and isinstance(node.op, ast.USub):
            v = self.eval(node.operand)
            if not isinstance(v, int):
                raise TranslateError("negation of non-int", node)
            return -v
        if isinstance(node, ast.Name):
            if node.id not in self.values:
                raise TranslateError(f"unknown name {node.id}", node)
            return self.values[node.id]
        if isinstance(node, ast.Subscript):
            base = self.eval(node.value)
            idx = self.eval(node.slice)
            if not isinstance(base, tuple) or not isinstance(idx, int):
                raise TranslateError("unsupported subscript", node)
            try:
                return base[idx]
            except IndexError:
                raise TranslateError("constant index out of range", node)
        if isinstance(node, (ast.Set, ast.List, ast.Tuple)):
            return tuple(self.eval(e) for e in node.elts)
        raise TranslateError(f"unsupported constant expression {type(node).__name__}", node)


def module_constants(tree: ast.Module, wanted):
    """Evaluate the requested module-level constants (in source order)."""
    env = ConstEnv()
    seen = set()
    for st in tree.body:
        if isinstance(st, ast.Assign) and len(st.targets) == 1 and isinstance(st.targets[0], ast.Name):
            name = st.targets[0].id
            if name in seen and name in wanted:
                raise TranslateError(f"constant {name} assigned twice", st)
            try:
                if isinstance(st.value, ast.Dict):
                    keys = tuple(env.eval(k) for k in st.value.keys)
                    env.values[name] = keys
                    env.kinds[name] = "keys"
                    env.members[name] = [k.id if isinstance(k, ast.Name) else None for k in st.value.keys]
                else:
                    env.values[name] = env.eval(st.value)
                    if isinstance(st.value, (ast.Set, ast.List, ast.Tuple)):
                        env.members[name] = [e.id if isinstance(e, ast.Name) else None for e in st.value.elts]
                        env.kinds[name] = "set" if isinstance(st.value, ast.Set) else "list"
                    else:
                        env.kinds[name] = "scalar"
                seen.add(name)
            except TranslateError:
                if name in wanted:
                    raise
        elif isinstance(st, ast.AugAssign) and isinstance(st.target, ast.Name) and st.target.id in wanted:
            raise TranslateError(f"augmented assignment to {st.target.id}", st)
    # A wanted constant may also be mutated after definition (S.add(..), S |= ..).
    for node in ast.walk(tree):
        if isinstance(node, ast.Attribute) and isinstance(node.value, ast.Name) \
                and node.value.id in wanted and isinstance(node.ctx, ast.Load) \
                and node.attr in {"add", "remove", "discard", "update", "append", "extend",
                                  "insert", "pop", "clear", "difference_update", "setdefault",
                                  "intersection_update", "symmetric_difference_update", "sort", "reverse"}:
            raise TranslateError(f"mutation of constant {node.value.id}.{node.attr}", node)
        if isinstance(node, (ast.Delete,)):
            for t in node.targets:
                for n in ast.walk(t):
                    if isinstance(n, ast.Name) and n.id in wanted:
                        raise TranslateError(f"del touching constant {n.id}", node)
        if isinstance(node, ast.Subscript) and isinstance(node.ctx, (ast.Store, ast.Del)) \
                and isinstance(node.value, ast.Name) and node.value.id in wanted:
            raise TranslateError(f"item assignment on constant {node.value.id}", node)
    for w in wanted:
        if w not in env.values:
            raise TranslateError(f"constant {w} not found")
    return env


def emit_const(name, value) -> str:
    if isinstance(value, int):
        return f"Definition {coq_ident(name)} : Z := {zlit(value)}.\n"
    if isinstance(value, str):
        return f"Definition {coq_ident(name)} : str := {strlit(value)}.\n"
    if isinstance(value, tuple):
        if all(isinstance(v, int) for v in value):
            return f"Definition {coq_ident(name)} : list Z := [{'; '.join(zlit(v) for v in value)}].\n"
        if all(isinstance(v, str) for v in value):
            return f"Definition {coq_ident(name)} : list str := [{'; '.join(strlit(v) for v in value)}].\n"
    raise TranslateError(f"cannot emit constant {name}")


# --------------------------------------------------------------------------- #
# Function bodies: if/elif/else/return over integer comparisons and membership
# --------------------------------------------------------------------------- #
LOG_NAMES = {"logger", "logging"}


def is_log_call(st) -> bool:
    return (isinstance(st, ast.Expr) and isinstance(st.value, ast.Call)
            and isinstance(st.value.func, ast.Attribute)
            and isinstance(st.value.func.value, ast.Name)
            and st.value.func.value.id in LOG_NAMES)


def is_docstring(st) -> bool:
    return isinstance(st, ast.Expr) and isinstance(st.value, ast.Constant) and isinstance(st.value.value, str)


class FuncTranslator:
    def __init__(self, consts: ConstEnv, int_vars):
        self.consts = consts
        self.int_vars = set(int_vars)

    # integer-valued expression
    def zexpr(self, node) -> str:
        if isinstance(node, ast.Name):
            if node.id in self.int_vars:
                return coq_ident(node.id)
            v = self.consts.values.get(node.id)
            if isinstance(v, int) and not isinstance(v, bool):
                return zlit(v)
            raise TranslateError(f"name {node.id} is not a known integer", node)
        v = self.consts.eval(node)
        if isinstance(v, int):
            return zlit(v)
        raise TranslateError("non-integer expression", node)

    def collection(self, node) -> str:
        if isinstance(node, ast.Name):
            v = self.consts.values.get(node.id)
        else:
            v = self.consts.eval(node)
        if isinstance(v, tuple) and all(isinstance(x, int) for x in v):
            return "[" + "; ".join(zlit(x) for x in v) + "]"
        raise TranslateError("membership in a non-constant / non-integer collection", node)

    def cmp1(self, op, a: str, b: str, node) -> str:
        table = {ast.Lt: "Z.ltb", ast.LtE: "Z.leb", ast.Gt: "Z.gtb", ast.GtE: "Z.geb", ast.Eq: "Z.eqb"}
        if type(op) in table:
            return f"({table[type(op)]} {a} {b})"
        if isinstance(op, ast.NotEq):
            return f"(negb (Z.eqb {a} {b}))"
        raise TranslateError(f"unsupported comparison {type(op).__name__}", node)

    def bexpr(self, node) -> str:
        if isinstance(node, ast.Constant) and isinstance(node.value, bool):
            return "true" if node.value else "false"
        if isinstance(node, ast.BoolOp):
            parts = [self.bexpr(v) for v in node.values]
            op = " && " if isinstance(node.op, ast.And) else " || "
            return "(" + op.join(parts) + ")"
        if isinstance(node, ast.UnaryOp) and isinstance(node.op, ast.Not):
            return f"(negb {self.bexpr(node.operand)})"
        if isinstance(node, ast.Compare):
            left = node.left
            out = []
            for op, right in zip(node.ops, node.comparators):
                if isinstance(op, (ast.In, ast.NotIn)):
                    t = f"(mem_Z {self.zexpr(left)} {self.collection(right)})"
                    out.append(t if isinstance(op, ast.In) else f"(negb {t})")
                else:
                    out.append(self.cmp1(op, self.zexpr(left), self.zexpr(right), node))
                left = right
            return out[0] if len(out) == 1 else "(" + " && ".join(out) + ")"
        raise TranslateError(f"unsupported boolean expression {type(node).__name__}", node)

    def block(self, stmts, rest=None) -> str:
        """Translate a statement list that must end in a return on every path.
        `rest` is the already-translated continuation when the block falls through."""
        stmts = [s for s in stmts if not is_log_call(s) and not is_docstring(s)
                 and not isinstance(s, ast.Pass)]
        if not stmts:
            if rest is None:
                raise TranslateError("fall-through without return")
            return rest
        st, tail = stmts[0], stmts[1:]
        if isinstance(st, ast.Return):
            if st.value is None:
                raise TranslateError("bare return", st)
            return self.bexpr(st.value)
        if isinstance(st, ast.If):
            cont = self.block(tail, rest) if (tail or rest is not None) else None
            then = self.block(st.body, cont)
            els = self.block(st.orelse, cont) if st.orelse else cont
            if els is None:
                raise TranslateError("if without else falls through", st)
            return f"(if {self.bexpr(st.test)} then {then} else {els})"
        raise TranslateError(f"unsupported statement {type(st).__name__}", st)


def find_def(tree, name):
    found = [n for n in tree.body if isinstance(n, (ast.FunctionDef, ast.AsyncFunctionDef)) and n.name == name]
    if len(found) != 1:
        raise TranslateError(f"expected exactly one top-level def {name}, found {len(found)}")
    return found[0]


def translate_int_pred(tree, consts, name) -> str:
    fn = find_def(tree, name)
    if fn.decorator_list:
        raise TranslateError(f"{name} is decorated", fn)
    a = fn.args
    if a.vararg or a.kwarg or a.kwonlyargs or a.posonlyargs or a.defaults:
        raise TranslateError(f"{name}: unsupported signature", fn)
    args = [x.arg for x in a.args]
    body = FuncTranslator(consts, args).block(fn.body)
    params = " ".join(f"({coq_ident(x)} : Z)" for x in args)
    return f"Definition {coq_ident(name)} {params} : bool :=\n  {body}.\n"


# --------------------------------------------------------------------------- #
# Individual Gen files
# --------------------------------------------------------------------------- #
HEADER = "(* GENERATED by harness/translate.py from {src} -- do not edit *)\nFrom Verif.Base Require Import Prelude.\nOpen Scope Z_scope.\n\n"


def read(path):
    with open(os.path.join(SRC, path), encoding="utf-8") as f:
        return ast.parse(f.read(), filename=path)


def gen_errors() -> str:
    path = "protocol/types/errors.py"
    tree = read(path)
    sets = ["NON_RETRYABLE_ERRORS", "RETRYABLE_ERRORS", "ERROR_MESSAGES"]
    probe = module_constants(tree, sets)
    # every module-level integer constant is a "named code" candidate
    int_names = [n for n, v in probe.values.items() if isinstance(v, int) and probe.kinds.get(n) == "scalar"]
    consts = module_constants(tree, sets + int_names)
    out = HEADER.format(src=path)
    for n in int_names:
        out += emit_const(n, consts.values[n])
    out += "\n"
    out += emit_const("NON_RETRYABLE_ERRORS", consts.values["NON_RETRYABLE_ERRORS"])
    out += emit_const("RETRYABLE_ERRORS", consts.values["RETRYABLE_ERRORS"])
    out += emit_const("ERROR_MESSAGES_keys", consts.values["ERROR_MESSAGES"])
    # named error codes: every int constant except the two range bounds
    named = [n for n in int_names if not n.startswith("SERVER_ERROR_")]
    out += "Definition named_codes : list Z := [" + "; ".join(coq_ident(n) for n in named) + "].\n"
    out += "Definition named_code_names : list str := [" + "; ".join(strlit(n) for n in named) + "].\n\n"
    for f in ["is_retryable_error", "is_server_error", "is_standard_jsonrpc_error"]:
        out += translate_int_pred(tree, consts, f)
    return out


BATCH_PRELUDE_TEMPLATE = (
    "If(test=UnaryOp(op=Not(), operand=Name(id='protocol_version', ctx=Load())), "
    "body=[Return(value=Constant(value=True))], orelse=[])"
)


def _norm(stmts):
    return [s for s in stmts if not is_log_call(s) and not is_docstring(s)]


def gen_batching() -> str:
    path = "protocol/features/batching.py"
    tree = read(path)
    fn = find_def(tree, "supports_batching")
    if fn.decorator_list or [a.arg for a in fn.args.args] != ["protocol_version"] or fn.args.defaults \
            or fn.args.vararg or fn.args.kwarg or fn.args.kwonlyargs:
        raise TranslateError("supports_batching: signature differs from template", fn)
    body = _norm(fn.body)
    if len(body) != 2:
        raise TranslateError("supports_batching: expected `if not v` + `try`", fn)
    if ast.dump(ast.If(test=body[0].test, body=_norm(body[0].body), orelse=body[0].orelse)) != BATCH_PRELUDE_TEMPLATE \
            if isinstance(body[0], ast.If) else True:
        raise TranslateError("supports_batching: `if not protocol_version: return True` prelude differs", body[0])
    tr = body[1]
    if not isinstance(tr, ast.Try) or tr.orelse or tr.finalbody or len(tr.handlers) != 1:
        raise TranslateError("supports_batching: try shape differs", tr)
    h = tr.handlers[0]
    hb = _norm(h.body)
    exc_names = sorted(e.id for e in h.type.elts) if isinstance(h.type, ast.Tuple) and all(
        isinstance(e, ast.Name) for e in h.type.elts) else None
    if exc_names != ["IndexError", "TypeError", "ValueError"] or len(hb) != 1 \
            or ast.dump(hb[0]) != "Return(value=Constant(value=True))":
        raise TranslateError("supports_batching: except clause differs from template", h)
    tb = _norm(tr.body)
    want = [
        "Assign(targets=[Name(id='version_parts', ctx=Store())], value=Call(func=Attribute(value=Name(id='protocol_version', ctx=Load()), attr='split', ctx=Load()), args=[Constant(value='-')], keywords=[]))",
        None,  # len check, compared below
        "Assign(targets=[Name(id='year', ctx=Store())], value=Call(func=Name(id='int', ctx=Load()), args=[Subscript(value=Name(id='version_parts', ctx=Load()), slice=Constant(value=0), ctx=Load())], keywords=[]))",
        "Assign(targets=[Name(id='month', ctx=Store())], value=Call(func=Name(id='int', ctx=Load()), args=[Subscript(value=Name(id='version_parts', ctx=Load()), slice=Constant(value=1), ctx=Load())], keywords=[]))",
        "Assign(targets=[Name(id='day', ctx=Store())], value=Call(func=Name(id='int', ctx=Load()), args=[Subscript(value=Name(id='version_parts', ctx=Load()), slice=Constant(value=2), ctx=Load())], keywords=[]))",
    ]
    if len(tb) < 6:
        raise TranslateError("supports_batching: try body too short", tr)
    for i, w in enumerate(want):
        if w is not None and ast.dump(tb[i]) != w:
            raise TranslateError(f"supports_batching: statement {i} of try body differs from template", tb[i])
    lc = tb[1]
    lc_norm = ast.If(test=lc.test, body=_norm(lc.body), orelse=lc.orelse) if isinstance(lc, ast.If) else lc
    if ast.dump(lc_norm) != ("If(test=Compare(left=Call(func=Name(id='len', ctx=Load()), args=[Name(id='version_parts', ctx=Load())], keywords=[]), "
                             "ops=[NotEq()], comparators=[Constant(value=3)]), body=[Return(value=Constant(value=True))], orelse=[])"):
        raise TranslateError("supports_batching: length check differs from template", lc)
    consts = module_constants(tree, [])
    core = FuncTranslator(consts, ["year", "month", "day"]).block(tb[5:])
    out = HEADER.format(src=path)
    out += "(* decision core of supports_batching, after the templated prelude *)\n"
    out += f"Definition decide (year : Z) (month : Z) (day : Z) : bool :=\n  {core}.\n"
    return out


def numeric_value(node, tree):
    """A numeric literal, or a module-level name bound exactly once (nowhere else stored to, in the whole file) to a numeric
    literal -- the shape a maintainer gives a constant when hoisting it.  None when the expression is neither."""
    if isinstance(node, ast.UnaryOp) and isinstance(node.op, ast.USub):
        v = numeric_value(node.operand, tree)
        return None if v is None else -v
    if isinstance(node, ast.Constant) and not isinstance(node.value, bool) and isinstance(node.value, (int, float)):
        return node.value
    if isinstance(node, ast.Name):
        stores = [n for n in ast.walk(tree) if isinstance(n, ast.Name) and n.id == node.id and isinstance(n.ctx, (ast.Store, ast.Del))]
        scoped = [n for n in ast.walk(tree) if isinstance(n, (ast.Global, ast.Nonlocal)) and node.id in n.names]
        params = [a for f in ast.walk(tree) if isinstance(f, (ast.FunctionDef, ast.AsyncFunctionDef, ast.Lambda))
                  for a in (f.args.args + f.args.kwonlyargs + f.args.posonlyargs + [x for x in (f.args.vararg, f.args.kwarg) if x])
                  if a.arg == node.id]
        if len(stores) != 1 or scoped or params:
            return None
        for st in tree.body:
            tgt = val = None
            if isinstance(st, ast.Assign) and len(st.targets) == 1:
                tgt, val = st.targets[0], st.value
            elif isinstance(st, ast.AnnAssign) and st.value is not None:
                tgt, val = st.target, st.value
            if tgt is stores[0]:
                if isinstance(val, ast.Name):
                    return None
                return numeric_value(val, tree)
    return None


def gen_versions() -> str:
    path = "protocol/types/versioning.py"
    tree = read(path)
    consts = module_constants(tree, ["SUPPORTED_VERSIONS", "CURRENT_VERSION", "MINIMUM_VERSION"])
    out = HEADER.format(src=path)
    for n in ["SUPPORTED_VERSIONS", "CURRENT_VERSION", "MINIMUM_VERSION"]:
        out += emit_const(n, consts.values[n])
    return out


def gen_consts() -> str:
    """Timing constants of the request/response correlator (send_message.py)."""
    path = "protocol/messages/send_message.py"
    tree = read(path)
    fn = find_def(tree, "_await_response")
    names = [a.arg for a in fn.args.args]
    if "sub_timeout" not in names or fn.args.kwonlyargs or fn.args.vararg or fn.args.kwarg:
        raise TranslateError("_await_response: signature differs from template", fn)
    defaults = dict(zip(names[len(names) - len(fn.args.defaults):], fn.args.defaults))
    d = defaults.get("sub_timeout")
    dv = numeric_value(d, tree) if d is not None else None
    if dv is None:
        raise TranslateError("_await_response: sub_timeout default is not a numeric literal (or a module constant bound once to one)", fn)
    ticks = dv * 100
    if ticks != int(ticks) or ticks <= 0:
        raise TranslateError("_await_response: sub_timeout is not a positive multiple of 10 ms", fn)
    # sub_timeout must not be reassigned and must be what the (one) inner fail_after uses -- directly, or inside a
    # module-level helper it is handed to (the shape an extract-function refactoring leaves)
    helpers = {n.name: n for n in tree.body if isinstance(n, (ast.FunctionDef, ast.AsyncFunctionDef))}

    def scopes_using(f, var, depth=0):
        """number of `fail_after(var)` scopes in f and in the helpers var is passed on to; any other use of a timeout
        construct raises"""
        count = 0
        for node in ast.walk(f):
            if isinstance(node, ast.Name) and node.id == var and isinstance(node.ctx, ast.Store):
                raise TranslateError(f"{f.name}: {var} reassigned", node)
            if not isinstance(node, ast.Call):
                continue
            if isinstance(node.func, ast.Attribute) and node.func.attr in ("fail_after", "move_on_after", "wait_for", "timeout"):
                if len(node.args) == 1 and not node.keywords and isinstance(node.args[0], ast.Name) and node.args[0].id == var \
                        and node.func.attr == "fail_after":
                    count += 1
                else:
                    raise TranslateError(f"{f.name}: unexpected timeout scope", node)
            elif isinstance(node.func, ast.Name) and node.func.id in helpers and node.func.id != f.name:
                h = helpers[node.func.id]
                hnames = [a.arg for a in h.args.args]
                passed = [hnames[i] for i, a in enumerate(node.args) if isinstance(a, ast.Name) and a.id == var and i < len(hnames)]
                passed += [k.arg for k in node.keywords if isinstance(k.value, ast.Name) and k.value.id == var and k.arg]
                if any(isinstance(a, ast.Starred) for a in node.args) or any(k.arg is None for k in node.keywords):
                    raise TranslateError(f"{f.name}: star-arguments in a call of {h.name}", node)
                for pn in passed:
                    if depth >= 3:
                        raise TranslateError(f"{f.name}: helper chain too deep", node)
                    count += scopes_using(h, pn, depth + 1)
                if not passed:
                    # a helper that does not receive the interval must not open timeout scopes of its own
                    for sub in ast.walk(h):
                        if isinstance(sub, ast.Call) and isinstance(sub.func, ast.Attribute) \
                                and sub.func.attr in ("fail_after", "move_on_after", "wait_for", "timeout"):
                            raise TranslateError(f"{h.name}: timeout scope in a helper of _await_response", sub)
        return count
    inner = scopes_using(fn, "sub_timeout")
    if inner != 1:
        raise TranslateError("_await_response: expected exactly one fail_after(sub_timeout)", fn)
    # the public entry point must not override it
    sm = [n for n in tree.body if isinstance(n, ast.AsyncFunctionDef) and n.name == "send_message"]
    if len(sm) != 1:
        raise TranslateError("send_message not found")
    for node in ast.walk(sm[0]):
        if isinstance(node, ast.Call) and isinstance(node.func, ast.Name) and node.func.id == "_await_response":
            if any(k.arg in (None, "sub_timeout") for k in node.keywords) or len(node.args) > 2:
                raise TranslateError("send_message passes sub_timeout explicitly", node)
    out = HEADER.format(src=path)
    out += "(* polling interval of _await_response in ticks of 10 ms *)\n"
    out += f"Definition sub_timeout_ticks : Z := {zlit(int(ticks))}.\n"
    return out


GEN_FILES = {
    "ConstsGen.v": gen_consts,
    "ErrorsGen.v": gen_errors,
    "BatchingGen.v": gen_batching,   # superseded by the plug-in harness/translate_c13.py (loaded later)
    "VersionsGen.v": gen_versions,
}


def _load_plugins():
    """harness/translate_*.py may register further Gen files: each defines
    GEN_FILES = {"Name.v": function_returning_text} using the helpers of this module."""
    import glob
    import importlib.util
    here = os.path.dirname(os.path.abspath(__file__))
    for path in sorted(glob.glob(os.path.join(here, "translate_*.py"))):
        name = os.path.splitext(os.path.basename(path))[0]
        spec = importlib.util.spec_from_file_location(name, path)
        mod = importlib.util.module_from_spec(spec)
        spec.loader.exec_module(mod)
        GEN_FILES.update(getattr(mod, "GEN_FILES", {}))


def write_if_changed(path, text):
    try:
        with open(path, encoding="utf-8") as f:
            if f.read() == text:
                return False
    except FileNotFoundError:
        pass
    tmp = path + ".tmp"
    with open(tmp, "w", encoding="utf-8") as f:
        f.write(text)
    os.replace(tmp, path)
    return True


def run(only=None):
    """Regenerate Gen files.  Returns {file: None | error string}."""
    os.makedirs(GEN, exist_ok=True)
    _load_plugins()
    status = {}
    for name, fn in GEN_FILES.items():
        if only and name not in only:
            continue
        path = os.path.join(GEN, name)
        try:
            text = fn()
            write_if_changed(path, text)
            status[name] = None
        except (TranslateError, SyntaxError, OSError, AttributeError, IndexError) as e:
            status[name] = f"{type(e).__name__}: {e}"
            for p in (path, path[:-2] + ".vo", path[:-2] + ".glob", path[:-2] + ".vos", path[:-2] + ".vok"):
                try:
                    os.remove(p)
                except FileNotFoundError:
                    pass
    return status


if __name__ == "__main__":
    st = run(set(sys.argv[1:]) or None)
    for k, v in st.items():
        print(k, "OK" if v is None else "FAILED " + v)
    sys.exit(1 if any(st.values()) else 0)
